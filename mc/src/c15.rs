//! C15 — CBOR round trip preserves the store and all of its indices.
//! Every state of the history exploration is saved as .cbor and loaded again (shrink_to_fit on and off);
//! the complete internal dump (H1), the public observation and a query battery must be identical.

use crate::c01::plans;
use crate::c05::{value_class, value_menu, value_store};
use crate::hist::*;
use crate::ops::replay_real;
use crate::report::{Coverage, Reporter};
use crate::ser::*;
use crate::util::{catch, msg_class};
use rayon::prelude::*;
use serde_json::{json, Value};
use stam::*;
use std::sync::atomic::{AtomicU64, Ordering};

pub struct C15 {
    pub roundtrips: AtomicU64,
    pub workdir: String,
    /// histories up to this length are also modified after their first save and saved again
    pub modify_depth: usize,
}

/// The modifications applied to a store that has already been saved once (each touches a member that has its own file).
pub const MODS: [&str; 4] = ["remove_data", "remove_key", "annotate-new-data", "remove_annotation"];

fn modify(s: &mut AnnotationStore, m: &str) -> Option<Result<(), StamError>> {
    match m {
        "remove_data" => {
            let (set, d) = s.datasets().find_map(|ds| ds.data().next().map(|d| (ds.handle(), d.handle())))?;
            Some(s.remove_data(set, d, false))
        }
        "remove_key" => {
            let (set, k) = s.datasets().find_map(|ds| ds.keys().next().map(|k| (ds.handle(), k.handle())))?;
            Some(s.remove_key(set, k, false))
        }
        "annotate-new-data" => {
            let rid = s.resources().next()?.id()?.to_string();
            let sid = s.datasets().next()?.id()?.to_string();
            Some(s.annotate(AnnotationBuilder::new().with_id("zz-new").with_target(SelectorBuilder::resourceselector(rid)).with_data_with_id(sid, "zz-key", "zz-value", "zz-data")).map(|_| ()))
        }
        "remove_annotation" => {
            let a = s.annotations().next()?.handle();
            Some(s.remove_annotation(a))
        }
        _ => None,
    }
}

fn save_load(store: &mut AnnotationStore, file: &str, first: bool) -> Result<Vec<(String, String)>, String> {
    let r = if first { catch(|| store.to_file(file)) } else { catch(|| store.save()) };
    match r {
        Err(p) => return Err(format!("save-panic:{}", msg_class(&p))),
        Ok(Err(e)) => return Err(format!("save-err:{}", err_class(&e))),
        Ok(Ok(())) => {}
    }
    match catch(|| AnnotationStore::from_file(file, Config::default())) {
        Err(p) => Err(format!("load-panic:{}", msg_class(&p))),
        Ok(Err(e)) => Err(format!("load-err:{}", err_class(&e))),
        Ok(Ok(s)) => catch(|| ser_abstract(&s, false, false)).map_err(|p| format!("observation-panic-after-load:{}", msg_class(&p))),
    }
}

/// Differential check of incremental saving: the same store is (A) saved, modified and saved again under the same name, and
/// (B) modified and then saved for the first time elsewhere. What is loaded back from A must be what is loaded back from B
/// (whatever the CSV format itself loses is lost on both sides).
pub fn csv_modify_after_save(hist: &[crate::ops::Op], m: &str, dir: &str) -> Option<RoundTripFail> {
    let _ = std::fs::remove_dir_all(dir);
    std::fs::create_dir_all(format!("{}/a", dir)).expect("workdir");
    std::fs::create_dir_all(format!("{}/b", dir)).expect("workdir");
    let (fa, fb) = (format!("{}/a/x.store.stam.csv", dir), format!("{}/b/x.store.stam.csv", dir));
    let (mut b, _) = replay_real(hist);
    match catch(|| modify(&mut b, m)) {
        Ok(Some(Ok(()))) => {}
        _ => return None, // nothing to modify, or the modification itself fails (C01/C02)
    }
    let rb = match save_load(&mut b, &fb, true) {
        Ok(r) => r,
        Err(_) => return None, // the modified store does not survive a plain round trip: that is the main oracle's finding
    };
    let (mut a, _) = replay_real(hist);
    if save_load(&mut a, &fa, true).is_err() {
        return None;
    }
    match catch(|| modify(&mut a, m)) {
        Ok(Some(Ok(()))) => {}
        _ => return None,
    }
    let out = match save_load(&mut a, &fa, false) {
        Err(symptom) => Some(RoundTripFail { symptom, detail: format!("files: {}", csv_files(&format!("{}/a", dir))) }),
        Ok(ra) => diff_ser(&rb, &ra).map(|(section, detail)| RoundTripFail {
            symptom: format!("differs@{}:{}", section, diff_aspect(&detail)),
            detail: format!("first: saved for the first time after the modification, second: saved, modified, saved again: {} -- files of the second: {}", detail, csv_files(&format!("{}/a", dir))),
        }),
    };
    let _ = std::fs::remove_dir_all(dir);
    out
}

const QUERIES: [&str; 6] = [
    "SELECT ANNOTATION ?a",
    "SELECT ANNOTATION ?a WHERE DATA \"s0\" \"k0\";",
    "SELECT TEXT ?t",
    "SELECT DATA ?d WHERE DATASET \"s0\";",
    "SELECT RESOURCE ?r",
    "SELECT ANNOTATION ?a WHERE RESOURCE \"r0\";",
];

/// results of the query battery, rendered
fn query_battery(store: &AnnotationStore) -> Vec<String> {
    let mut out = Vec::new();
    for q in QUERIES {
        let r = catch(|| -> Result<Vec<String>, String> {
            let (query, _) = Query::parse(q).map_err(|e| format!("{}", e))?;
            let iter = store.query(query).map_err(|e| format!("{}", e))?;
            let mut rows = Vec::new();
            for row in iter {
                let mut cols = Vec::new();
                for item in row.iter() {
                    cols.push(match item {
                        QueryResultItem::Annotation(a) => format!("A{}:{:?}", a.handle().as_usize(), a.id()),
                        QueryResultItem::TextSelection(t) => format!("T{}..{}", t.begin(), t.end()),
                        QueryResultItem::AnnotationData(d) => format!("D{}:{:?}", d.handle().as_usize(), d.id()),
                        QueryResultItem::TextResource(r) => format!("R{}:{:?}", r.handle().as_usize(), r.id()),
                        QueryResultItem::DataKey(k) => format!("K{}", k.as_str()),
                        QueryResultItem::AnnotationDataSet(s) => format!("S{:?}", s.id()),
                        _ => "?".into(),
                    });
                }
                rows.push(cols.join(","));
            }
            Ok(rows)
        });
        out.push(match r {
            Ok(Ok(rows)) => format!("{} => {:?}", q, rows),
            Ok(Err(e)) => format!("{} => error {}", q, msg_class(&e)),
            Err(p) => format!("{} => panic {}", q, msg_class(&p)),
        });
    }
    out
}

fn first_dump_diff(a: &str, b: &str) -> String {
    for (x, y) in a.lines().zip(b.lines()) {
        if x != y {
            let section = x.split('=').next().unwrap_or("?").to_string();
            // generalise indices in the section name
            return crate::util::msg_class(&section);
        }
    }
    "length".into()
}

pub fn csv_roundtrip(store: &mut AnnotationStore, dir: &str) -> Option<RoundTripFail> {
    let _ = std::fs::remove_dir_all(dir);
    std::fs::create_dir_all(dir).expect("workdir");
    let file = format!("{}/x.store.stam.csv", dir);
    let original = match catch(|| ser_abstract(store, false, false)) {
        Ok(o) => o,
        Err(p) => return Some(RoundTripFail { symptom: format!("observation-panic:{}", msg_class(&p)), detail: String::new() }),
    };
    // precondition class of the recorded temporary-id defect: a removed data item below a live one (the handles the
    // writer encodes in !D<n> are then no longer the positions the reader assigns)
    let gaps = store.datasets().any(|ds| ds.data().count() != ds.data().map(|d| d.handle().as_usize() + 1).max().unwrap_or(0));
    let gaps = if gaps { "data-gaps=yes" } else { "data-gaps=no" };
    let r = catch(|| store.to_file(&file));
    match r {
        Err(p) => return Some(RoundTripFail { symptom: format!("save-panic:{}", msg_class(&p)), detail: String::new() }),
        Ok(Err(e)) => return Some(RoundTripFail { symptom: format!("save-err:{}", err_class(&e)), detail: format!("{}", e) }),
        Ok(Ok(())) => {}
    }
    let loaded = match catch(|| AnnotationStore::from_file(&file, Config::default())) {
        Err(p) => return Some(RoundTripFail { symptom: format!("load-panic:{}", msg_class(&p)), detail: csv_files(dir) }),
        Ok(Err(e)) => return Some(RoundTripFail { symptom: format!("load-err:{}|{}", err_class(&e), gaps), detail: format!("{} -- files: {}", e, csv_files(dir)) }),
        Ok(Ok(s)) => s,
    };
    let reloaded = match catch(|| ser_abstract(&loaded, false, false)) {
        Ok(o) => o,
        Err(p) => return Some(RoundTripFail { symptom: format!("observation-panic-after-load:{}", msg_class(&p)), detail: String::new() }),
    };
    // the CSV writer gives id-less data the temporary id !D<n> and the reader keeps it as a public id:
    // reported once under its own symptom, then normalised away so that everything else is still compared
    let mut reloaded = reloaded;
    let mut tempid_public = false;
    for (sec, line) in reloaded.iter_mut() {
        if (sec == "data" || sec == "annotation") && line.contains("/!D") {
            tempid_public = true;
        }
    }
    if tempid_public {
        let norm = |lines: &mut Vec<(String, String)>| {
            for (_, line) in lines.iter_mut() {
                // ~D<rank> and !D<handle> are both just "an id-less item"; keep the key/value text
                let mut out = String::new();
                let mut chars = line.chars().peekable();
                while let Some(c) = chars.next() {
                    if (c == '~' || c == '!') && chars.peek() == Some(&'D') {
                        chars.next();
                        while chars.peek().map(|d| d.is_ascii_digit()).unwrap_or(false) {
                            chars.next();
                        }
                        out.push_str("<idless-data>");
                    } else {
                        out.push(c);
                    }
                }
                *line = out;
            }
        };
        let mut original = original.clone();
        norm(&mut original);
        norm(&mut reloaded);
        if let Some((section, detail)) = diff_ser(&original, &reloaded) {
            return Some(RoundTripFail { symptom: format!("differs@{}:{}|{}", section, diff_aspect(&detail), gaps), detail: format!("{} -- files: {}", detail, csv_files(dir)) });
        }
        let _ = std::fs::remove_dir_all(dir);
        return Some(RoundTripFail { symptom: "idless-data-reloaded-with-temporary-id-as-public-id".into(), detail: "data without public id is written as !D<n> and comes back carrying that string as its public id".into() });
    }
    if let Some((section, detail)) = diff_ser(&original, &reloaded) {
        return Some(RoundTripFail { symptom: format!("differs@{}:{}|{}", section, diff_aspect(&detail), gaps), detail: format!("{} -- files: {}", detail, csv_files(dir)) });
    }
    // the reloaded store is a store like any other (reverse lookups, nothing dangling, ids resolve to their items)
    if let Some(what) = crate::c19::consistency(&loaded) {
        return Some(RoundTripFail { symptom: format!("reloaded-store-inconsistent:{}|{}", what, gaps), detail: format!("files: {}", csv_files(dir)) });
    }
    let _ = std::fs::remove_dir_all(dir);
    None
}

fn csv_files(dir: &str) -> String {
    let mut out = String::new();
    if let Ok(rd) = std::fs::read_dir(dir) {
        let mut names: Vec<_> = rd.flatten().map(|e| e.path()).collect();
        names.sort();
        for p in names {
            if p.to_string_lossy().ends_with(".csv") {
                out.push_str(&format!("[{}] {} ", p.file_name().unwrap().to_string_lossy(), std::fs::read_to_string(&p).unwrap_or_default().replace('\n', " / ")));
            }
        }
    }
    out.chars().take(700).collect()
}

impl Oracle for C15 {
    fn transition(&self, rep: &Reporter, t: &Trans) -> bool {
        if t.divergence.is_some() || !t.new_state {
            return true;
        }
        let mut hist = t.hist.to_vec();
        hist.push(t.op.clone());
        let (mut store, _) = replay_real(&hist);
        self.roundtrips.fetch_add(1, Ordering::Relaxed);
        let dir = format!("{}/{:?}", self.workdir, std::thread::current().id()).replace(['(', ')'], "");
        if let Some(f) = csv_roundtrip(&mut store, &dir) {
            rep.fail(&format!("{}", f.symptom), t.ord, || f.detail.clone(), || json!({"history": history_json(&hist, None)}));
        }
        if t.depth <= self.modify_depth {
            for m in MODS {
                self.roundtrips.fetch_add(1, Ordering::Relaxed);
                if let Some(f) = csv_modify_after_save(&hist, m, &dir) {
                    rep.fail(&format!("modify-after-save:{}|{}", m, f.symptom), t.ord, || f.detail.clone(), || json!({"history": history_json(&hist, None), "modify_after_save": m}));
                }
            }
        }
        true
    }
}

pub fn run(rep: &Reporter) -> Coverage {
    let workdir = crate::util::work_dir("w");
    std::fs::create_dir_all(&workdir).expect("workdir");
    let oracle = C15 { roundtrips: AtomicU64::new(0), workdir: workdir.clone(), modify_depth: rep.tier.pick(2, 3) };
    let mut cov = Coverage::default();
    let mut runs = Vec::new();
    let budget = rep.tier.pick(45.0, 1500.0);
    let mut exhaustive = true;
    for plan in plans(rep.tier) {
        let stats = explore(rep, &oracle, &plan.init, &plan.al, plan.depth, budget);
        cov.states += stats.states;
        cov.transitions += stats.transitions;
        cov.distinct_nontrivial += stats.nontrivial_states;
        exhaustive &= stats.completed_depth == plan.depth;
        for h in &stats.sample_histories {
            if cov.samples.len() < 4 {
                cov.samples.push(json!({"history": h, "then": "save as STAM CSV (store, annotations, dataset files + txt), load, compare"}));
            }
        }
        runs.push(json!({"exploration": plan.name, "depth_requested": plan.depth, "depth_completed": stats.completed_depth,
            "new_states_per_depth": stats.depth_hist, "transitions": stats.transitions}));
    }
    // value sweep incl. NaN / infinities
    let values: Vec<DataValue> = value_menu(false);
    values.par_iter().enumerate().for_each(|(i, v)| {
        let mut store = match value_store(v, "k", Some("D"), None) {
            Ok(s) => s,
            Err(_) => return,
        };
        oracle.roundtrips.fetch_add(1, Ordering::Relaxed);
        let dir = format!("{}/sweep{}", workdir, i);
        if let Some(f) = csv_roundtrip(&mut store, &dir) {
            rep.fail(
                &format!("sweep|value|{}|{}", value_class(v), f.symptom),
                (1 << 60) + i as u64,
                || format!("value={:?}: {}", v, f.detail),
                || json!({"sweep": {"value": format!("{:?}", v), "index": i}}),
            );
        }
    });
    let _ = std::fs::remove_dir_all(&workdir);
    cov.samples.push(json!({"sweep": "store with one data value (each DataValue type, awkward strings with quotes / newlines / commas) saved and loaded as STAM CSV"}));
    cov.exhaustive = exhaustive;
    cov.evaluations = oracle.roundtrips.load(Ordering::Relaxed);
    cov.traces_validated = cov.transitions;
    cov.extra.insert("explorations".into(), json!(runs));
    cov.extra.insert("value_sweep_stores".into(), json!(values.len()));
    cov.rule = "every distinct state of the history exploration (as C01; ids never contain ';') is saved with to_file(*.store.stam.csv) and loaded with from_file; resources+texts, datasets, keys, data ids and the text of values, annotations in order with ids, target kinds, referenced items and the absolute text ranges of all offsets, and data references must be identical (value types and offset alignment are outside the claim); states up to depth 2 (quick) / 3 (thorough) are also saved, modified in four ways (a data item / a key / an annotation removed, an annotation with new data added), saved again with save() and loaded: the result must equal what is loaded from a first save of the same modified store; value sweep: one store per value of the menu; non-trivial = states with a removed and a live annotation".into();
    cov.assumptions = vec!["id-less items are compared by rank".into()];
    cov
}

pub fn replay(rep: &Reporter, case: &Value) {
    let hist = history_from_json(&case["history"]);
    println!("replay C15: history:");
    for o in &hist {
        println!("   {}", o.short());
    }
    let workdir = crate::util::work_dir("w");
    if let Some(m) = case["modify_after_save"].as_str() {
        match csv_modify_after_save(&hist, m, &workdir) {
            Some(f) => {
                println!("  modify-after-save:{}|{} :: {}", m, f.symptom, f.detail);
                rep.fail(&format!("modify-after-save:{}|{}", m, f.symptom), 0, || f.detail.clone(), || case.clone());
            }
            None => println!("  incremental save agrees with a first save"),
        }
        let _ = std::fs::remove_dir_all(&workdir);
        return;
    }
    let (mut store, _) = replay_real(&hist);
    match csv_roundtrip(&mut store, &workdir) {
        Some(f) => {
            println!("  {} :: {}", f.symptom, f.detail);
            rep.fail(&f.symptom, 0, || f.detail.clone(), || case.clone());
        }
        None => println!("  round trip ok"),
    }
    let _ = std::fs::remove_dir_all(&workdir);
}
