//! C03 — public identifiers resolve to exactly the live item that carries them.
//! (1) history engine: in every reached state every id that ever existed, never-used ids and temporary ids
//!     are looked up through every accessor; probes: duplicate-id insertions, reindex, strip ids.
//! (2) enumeration: every string up to a length bound over a small alphabet, looked up in a fixed store.

use crate::c01::{plans, run_hist};
use crate::hist::*;
use crate::model::Model;
use crate::ops::*;
use crate::report::{Coverage, Reporter};
use crate::util::{catch, msg_class};
use rayon::prelude::*;
use serde_json::{json, Value};
use stam::*;
use std::sync::atomic::{AtomicU64, Ordering};

/// class of a lookup string for signatures
pub fn str_class(s: &str) -> String {
    let mut out = String::new();
    let mut last = ' ';
    for c in s.chars() {
        let k = if c == '!' {
            '!'
        } else if c.is_ascii_uppercase() {
            'U'
        } else if c.is_uppercase() {
            'M'
        } else if c.is_ascii_digit() {
            'd'
        } else if c.is_ascii_lowercase() {
            'l'
        } else if c.is_ascii() {
            'p'
        } else {
            'm'
        };
        if !(k == 'd' && last == 'd') {
            out.push(k);
        }
        last = k;
    }
    out
}

#[derive(Clone, Copy, PartialEq, Eq, Debug)]
pub enum Kind {
    Ann,
    Res,
    Set,
    Key,
    Data,
    Sub,
}

impl Kind {
    fn letter(&self) -> char {
        match self {
            Kind::Ann => 'A',
            Kind::Res => 'R',
            Kind::Set => 'S',
            Kind::Key => 'K',
            Kind::Data => 'D',
            Kind::Sub => 'I',
        }
    }
}

/// What a lookup returned: None, or (handle, id carried by the item found)
type Found = Option<(usize, Option<String>)>;

/// Look `id` up as an item of `kind` (for keys and data: within dataset `set`) through the high-level accessor
/// and through the resolve_* function where one exists. Returns (accessor name, result) pairs.
fn lookups(store: &AnnotationStore, kind: Kind, set: &str, id: &str) -> Vec<(&'static str, Result<Found, String>)> {
    let mut v: Vec<(&'static str, Result<Found, String>)> = Vec::new();
    match kind {
        Kind::Ann => {
            v.push(("annotation", catch(|| store.annotation(id).map(|x| (x.handle().as_usize(), x.id().map(|s| s.to_string()))))));
            v.push((
                "resolve_annotation_id",
                catch(|| {
                    store.resolve_annotation_id(id).ok().map(|h| {
                        // a resolved handle must denote a live item
                        let item = store.annotation(h);
                        (h.as_usize(), item.map(|x| x.id().map(|s| s.to_string())).unwrap_or(Some("<dead item>".to_string())))
                    })
                }),
            ));
        }
        Kind::Res => {
            v.push(("resource", catch(|| store.resource(id).map(|x| (x.handle().as_usize(), x.id().map(|s| s.to_string()))))));
            v.push((
                "resolve_resource_id",
                catch(|| {
                    store.resolve_resource_id(id).ok().map(|h| {
                        let item = store.resource(h);
                        (h.as_usize(), item.map(|x| x.id().map(|s| s.to_string())).unwrap_or(Some("<dead item>".to_string())))
                    })
                }),
            ));
        }
        Kind::Set => {
            v.push(("dataset", catch(|| store.dataset(id).map(|x| (x.handle().as_usize(), x.id().map(|s| s.to_string()))))));
            v.push((
                "resolve_dataset_id",
                catch(|| {
                    store.resolve_dataset_id(id).ok().map(|h| {
                        let item = store.dataset(h);
                        (h.as_usize(), item.map(|x| x.id().map(|s| s.to_string())).unwrap_or(Some("<dead item>".to_string())))
                    })
                }),
            ));
        }
        Kind::Key => {
            v.push(("key", catch(|| store.key(set, id).map(|x| (x.handle().as_usize(), Some(x.as_str().to_string()))))));
        }
        Kind::Data => {
            v.push(("annotationdata", catch(|| store.annotationdata(set, id).map(|x| (x.handle().as_usize(), x.id().map(|s| s.to_string()))))));
        }
        Kind::Sub => {
            v.push(("substore", catch(|| store.substore(id).map(|x| (x.handle().as_usize(), x.id().map(|s| s.to_string()))))));
        }
    }
    v
}

/// The model's answer: Some((handle, id)) of the live item of this kind that the string denotes, else None.
/// `tempids`: whether temporary ids are resolvable at all.
fn expected(m: &Model, kind: Kind, set: &str, id: &str) -> Found {
    // temporary id syntax: '!' + kind letter + decimal handle
    let temp: Option<(char, usize)> = {
        let mut it = id.chars();
        if it.next() == Some('!') {
            match it.next() {
                Some(l) => {
                    let rest: String = it.collect();
                    if !rest.is_empty() && rest.chars().all(|c| c.is_ascii_digit()) {
                        rest.parse::<usize>().ok().map(|n| (l, n))
                    } else {
                        None
                    }
                }
                None => None,
            }
        } else {
            None
        }
    };
    match kind {
        Kind::Ann => {
            if let Some(i) = m.ann_idx(id) {
                return Some((i, Some(id.to_string())));
            }
            if let Some((l, n)) = temp {
                if l == kind.letter() && m.anns.get(n).map(|a| a.is_some()).unwrap_or(false) {
                    return Some((n, m.anns[n].as_ref().unwrap().id.clone()));
                }
            }
            None
        }
        Kind::Res => {
            if let Some(i) = m.res_idx(id) {
                return Some((i, Some(id.to_string())));
            }
            if let Some((l, n)) = temp {
                if l == kind.letter() && m.res.get(n).map(|a| a.is_some()).unwrap_or(false) {
                    return Some((n, Some(m.res[n].as_ref().unwrap().id.clone())));
                }
            }
            None
        }
        Kind::Set => {
            if let Some(i) = m.set_idx(id) {
                return Some((i, Some(id.to_string())));
            }
            if let Some((l, n)) = temp {
                if l == kind.letter() && m.sets.get(n).map(|a| a.is_some()).unwrap_or(false) {
                    return Some((n, Some(m.sets[n].as_ref().unwrap().id.clone())));
                }
            }
            None
        }
        Kind::Key => {
            let si = m.set_idx(set)?;
            if let Some(k) = m.key_idx(si, id) {
                return Some((k, Some(id.to_string())));
            }
            if let Some((l, n)) = temp {
                let s = m.sets[si].as_ref().unwrap();
                if l == kind.letter() && s.keys.get(n).map(|a| a.is_some()).unwrap_or(false) {
                    return Some((n, s.keys[n].clone()));
                }
            }
            None
        }
        Kind::Data => {
            let si = m.set_idx(set)?;
            if let Some(d) = m.data_idx(si, &DRef::Id(id.to_string())) {
                return Some((d, Some(id.to_string())));
            }
            if let Some((l, n)) = temp {
                let s = m.sets[si].as_ref().unwrap();
                if l == kind.letter() && s.data.get(n).map(|a| a.is_some()).unwrap_or(false) {
                    return Some((n, s.data[n].as_ref().unwrap().id.clone()));
                }
            }
            None
        }
        Kind::Sub => {
            if let Some(i) = m.subs.iter().position(|x| x == id) {
                return Some((i, Some(id.to_string())));
            }
            if let Some((l, n)) = temp {
                if l == kind.letter() && n < m.subs.len() {
                    return Some((n, Some(m.subs[n].clone())));
                }
            }
            None
        }
    }
}

/// Compare all lookups of one string; report through `fail(sig_part, detail)`
fn check_one(store: &AnnotationStore, m: &Model, kind: Kind, set: &str, id: &str, fail: &mut dyn FnMut(String, String)) -> u64 {
    let want = expected(m, kind, set, id);
    let mut n = 0;
    for (acc, got) in lookups(store, kind, set, id) {
        n += 1;
        match got {
            Err(p) => fail(format!("{}|panic:{}|str={}", acc, msg_class(&p), str_class(id)), format!("{}({:?}) panicked", acc, id)),
            Ok(got) => {
                if got != want {
                    let symptom = match (&got, &want) {
                        (Some((_, gid)), None) => {
                            if gid.as_deref() == Some("<dead item>") {
                                "resolves-dead"
                            } else if id.starts_with('!') {
                                "wrong-kind-or-dead-tempid"
                            } else {
                                "resolves-to-other"
                            }
                        }
                        (None, Some(_)) => "unresolved-live",
                        _ => "resolves-to-other",
                    };
                    fail(
                        format!("{}|{}|str={}", acc, symptom, str_class(id)),
                        format!("{}({:?}) = {:?}, expected {:?} (handle, id of the item)", acc, id, got, want),
                    );
                }
            }
        }
    }
    n
}

/// All lookups for one state: every id that ever existed, never-used ids, temporary ids of every letter.
pub fn check_ids(store: &AnnotationStore, m: &Model, fail: &mut dyn FnMut(String, String)) -> u64 {
    let mut n = 0;
    let mut menu: Vec<(Kind, String, String)> = Vec::new();
    let sets: Vec<String> = {
        let mut s: Vec<String> = m.ever_ids.iter().filter(|x| x.0 == 'S').map(|x| x.2.clone()).collect();
        if s.is_empty() {
            s.push("s0".into());
        }
        s
    };
    for (l, set, id) in &m.ever_ids {
        match l {
            'A' => menu.push((Kind::Ann, String::new(), id.clone())),
            'R' => menu.push((Kind::Res, String::new(), id.clone())),
            'S' => menu.push((Kind::Set, String::new(), id.clone())),
            'K' => menu.push((Kind::Key, set.clone(), id.clone())),
            'D' => menu.push((Kind::Data, set.clone(), id.clone())),
            _ => {}
        }
    }
    // cross-kind and never-used ids
    let fixed = ["zz", "", "a0", "r0", "s0", "k0", "D0", "a99", "!", "!A", "!a0", "!A-1", "!A 0"];
    for kind in [Kind::Ann, Kind::Res, Kind::Set, Kind::Sub] {
        for id in fixed {
            menu.push((kind, String::new(), id.to_string()));
        }
    }
    for set in &sets {
        for id in fixed {
            menu.push((Kind::Key, set.clone(), id.to_string()));
            menu.push((Kind::Data, set.clone(), id.to_string()));
        }
    }
    // temporary ids: every letter x every handle up to one past the end
    let maxn = m.anns.len().max(m.res.len()).max(m.sets.len()).max(3) + 1;
    for letter in ['A', 'R', 'S', 'K', 'D', 'I', 'T', 'Z'] {
        for h in 0..=maxn {
            let id = format!("!{}{}", letter, h);
            for kind in [Kind::Ann, Kind::Res, Kind::Set, Kind::Sub] {
                menu.push((kind, String::new(), id.clone()));
            }
            for set in &sets {
                menu.push((Kind::Key, set.clone(), id.clone()));
                menu.push((Kind::Data, set.clone(), id.clone()));
            }
        }
    }
    menu.dedup();
    for (kind, set, id) in menu {
        let mut f = |sig: String, detail: String| fail(format!("{:?}|{}", kind, sig), detail);
        n += check_one(store, m, kind, &set, &id, &mut f);
    }
    n
}

pub struct C03 {
    pub lookups: AtomicU64,
}

impl C03 {
    fn probes(&self, rep: &Reporter, t: &Trans) {
        let mut hist: Vec<Op> = t.hist.to_vec();
        hist.push(t.op.clone());
        let hist = &hist;
        let m = t.post_model;
        let case = |probe: &str| json!({"history": history_json(hist, None), "probe": probe});
        // (a) duplicate-id insertions with a different body must be refused, the id keeps denoting the original
        let mut dups: Vec<(&str, Op)> = Vec::new();
        if let Some(a) = m.anns.iter().flatten().find(|a| a.id.is_some()) {
            if let Some(r) = m.res.iter().flatten().next() {
                dups.push((
                    "dup-annotation-id",
                    Op::Annotate {
                        id: a.id.clone(),
                        target: Target::simple(TSimple::Text { res: r.id.clone(), off: Off::simple(1, 2) }),
                        data: vec![],
                    },
                ));
            }
        }
        if let Some(r) = m.res.iter().flatten().next() {
            dups.push(("dup-resource-id", Op::AddRes { id: r.id.clone(), text: "different text".into() }));
        }
        for (name, op) in dups {
            let (mut s, _) = replay_real(hist);
            let out = apply_real(&mut s, &op);
            let mut fail = |sig: String, detail: String| {
                rep.fail(&format!("{}|{}", name, sig), t.ord, || format!("after {} then {}: {}", t.op.short(), op.short(), detail), || case(name));
            };
            match out {
                Outcome::Ok => fail("accepted".into(), "second insertion with the same id and a different body was accepted".into()),
                Outcome::Panic(p) => fail(format!("panic:{}", p), "panicked".into()),
                Outcome::Err(_) => {}
            }
            let mut f2 = |sig: String, detail: String| fail(format!("after|{}", sig), detail);
            self.lookups.fetch_add(check_ids(&s, m, &mut f2), Ordering::Relaxed);
        }
        // (b) compaction: every id still denotes an item carrying that id, removed ids stay unresolvable
        {
            let (s, _) = replay_real(hist);
            match catch(|| s.reindex()) {
                Err(p) => rep.fail(&format!("reindex|panic:{}", msg_class(&p)), t.ord, || "reindex panicked".into(), || case("reindex")),
                Ok(s) => {
                    // handles are renumbered: compare ids only, for non-temporary ids
                    for (l, set, id) in &m.ever_ids {
                        let kind = match l {
                            'A' => Kind::Ann,
                            'R' => Kind::Res,
                            'S' => Kind::Set,
                            'K' => Kind::Key,
                            _ => Kind::Data,
                        };
                        if matches!(kind, Kind::Key | Kind::Data) && m.set_idx(set).is_none() {
                            continue;
                        }
                        let want = expected(m, kind, set, id).map(|x| x.1);
                        for (acc, got) in lookups(&s, kind, set, id) {
                            self.lookups.fetch_add(1, Ordering::Relaxed);
                            let got = match got {
                                Ok(g) => g.map(|x| x.1),
                                Err(p) => {
                                    rep.fail(&format!("reindex|{:?}|{}|panic:{}", kind, acc, msg_class(&p)), t.ord, || format!("{}({:?}) after reindex panicked", acc, id), || case("reindex"));
                                    continue;
                                }
                            };
                            if got != want {
                                let symptom = match (&got, &want) {
                                    (Some(_), None) => "resolves-removed",
                                    (None, Some(_)) => "unresolved-live",
                                    _ => "resolves-to-other",
                                };
                                rep.fail(
                                    &format!("reindex|{:?}|{}|{}", kind, acc, symptom),
                                    t.ord,
                                    || format!("after {} and reindex(): {}({:?}) finds an item with id {:?}, expected {:?}", t.op.short(), acc, id, got, want),
                                    || case("reindex"),
                                );
                            }
                        }
                    }
                }
            }
        }
        // (c) strip ids: the stripped ids stop resolving, temporary ids keep denoting live items of the right kind
        {
            let (mut s, _) = replay_real(hist);
            let mut m2 = m.clone();
            s.strip_annotation_ids();
            for a in m2.anns.iter_mut().flatten() {
                a.id = None;
            }
            let mut fail = |sig: String, detail: String| {
                rep.fail(&format!("strip-annotation-ids|{}", sig), t.ord, || format!("after {} and strip_annotation_ids(): {}", t.op.short(), detail), || case("strip_annotation_ids"));
            };
            self.lookups.fetch_add(check_ids(&s, &m2, &mut fail), Ordering::Relaxed);
            s.strip_data_ids();
            for set in m2.sets.iter_mut().flatten() {
                for d in set.data.iter_mut().flatten() {
                    d.id = None;
                }
            }
            let mut fail = |sig: String, detail: String| {
                rep.fail(&format!("strip-data-ids|{}", sig), t.ord, || format!("after {} and strip_data_ids(): {}", t.op.short(), detail), || case("strip_data_ids"));
            };
            self.lookups.fetch_add(check_ids(&s, &m2, &mut fail), Ordering::Relaxed);
        }
    }
}

impl Oracle for C03 {
    fn transition(&self, rep: &Reporter, t: &Trans) -> bool {
        if t.divergence.is_some() || !t.new_state {
            return true; // not a state of the model (reported by C01/C02), or already checked
        }
        let mut healthy = true;
        let opkind = if t.op.is_removal() { "remove" } else { "none" };
        let mut fail = |sig: String, detail: String| {
            healthy = false;
            rep.fail(
                &format!("state|{}|op-before={}", sig, opkind),
                t.ord,
                || format!("after {}: {}", t.op.short(), detail),
                || json!({"history": history_json(t.hist, Some(t.op))}),
            );
        };
        self.lookups.fetch_add(check_ids(t.post, t.post_model, &mut fail), Ordering::Relaxed);
        self.probes(rep, t);
        healthy
    }
}

// ---------------------------------------------------------------------------------------------
// (2) exhaustive strings

const SYMBOLS: [char; 14] = ['!', 'A', 'R', 'S', 'I', 'X', 'a', '\u{c9}', '\u{ff21}', '\u{df}', '0', '9', '-', ' '];

fn fixed_history() -> Vec<Op> {
    let d = |k: &str, v: &str, id: Option<&str>| DataT::New { set: "s0".into(), key: k.into(), val: Val::S(v.into()), id: id.map(|s| s.to_string()) };
    vec![
        Op::AddRes { id: "R".into(), text: "ab cd".into() },
        Op::AddRes { id: "a".into(), text: "xyz".into() },
        Op::AddSet { id: "s0".into() },
        Op::Annotate { id: Some("A".into()), target: Target::simple(TSimple::Text { res: "R".into(), off: Off::simple(0, 2) }), data: vec![d("X", "v", Some("A0"))] },
        Op::Annotate { id: Some("a0".into()), target: Target::simple(TSimple::Text { res: "R".into(), off: Off::simple(3, 5) }), data: vec![d("a", "w", None)] },
        Op::Annotate { id: Some("-".into()), target: Target::simple(TSimple::Res("a".into())), data: vec![d("X", "u", Some("9"))] },
        Op::Annotate { id: None, target: Target::simple(TSimple::Ann { ann: "A".into(), off: None }), data: vec![] },
        Op::RemoveAnn("a0".into()),
    ]
}

fn strings_upto(maxlen: usize) -> Vec<String> {
    let mut out = vec![String::new()];
    let mut level = vec![String::new()];
    for _ in 0..maxlen {
        let mut next = Vec::new();
        for s in &level {
            for c in SYMBOLS {
                let mut t = s.clone();
                t.push(c);
                next.push(t);
            }
        }
        out.extend(next.iter().cloned());
        level = next;
    }
    for letter in ['A', 'R', 'S', 'K', 'D', 'I', 'x'] {
        for digits in ["0", "1", "2", "3", "4", "00", "01", "007", "+1", "18446744073709551615", "18446744073709551616", "9999999999999999999999999999999999999999", "4294967296", "65536", "1e1", "0x1", "١"] {
            out.push(format!("!{}{}", letter, digits));
        }
    }
    out
}

fn run_strings(rep: &Reporter, maxlen: usize) -> (u64, u64) {
    let hist = fixed_history();
    let (mut store, outs) = replay_real(&hist);
    assert!(outs.iter().all(|o| o.is_ok()), "fixed history must build: {:?}", outs);
    let mut model = replay_model(&hist);
    // two sub-stores whose ids are also the id of a key ("X") and of a data item ("9") of the fixed store
    for id in ["X", "9"] {
        store.add_new_substore(id, &format!("{}.store.stam.json", id)).expect("fixed store: add_new_substore");
        model.subs.push(id.to_string());
    }
    let strings = strings_upto(maxlen);
    let n = AtomicU64::new(0);
    strings.par_iter().enumerate().for_each(|(i, s)| {
        let mut cnt = 0;
        for kind in [Kind::Ann, Kind::Res, Kind::Set, Kind::Key, Kind::Data, Kind::Sub] {
            let mut fail = |sig: String, detail: String| {
                rep.fail(
                    &format!("string|{:?}|{}", kind, sig),
                    (s.chars().count() as u64) << 32 | i as u64,
                    || format!("fixed store, {}", detail),
                    || json!({"string": s, "kind": format!("{:?}", kind), "history": history_json(&hist, None)}),
                );
            };
            cnt += check_one(&store, &model, kind, "s0", s, &mut fail);
        }
        n.fetch_add(cnt, Ordering::Relaxed);
    });
    (strings.len() as u64, n.load(Ordering::Relaxed))
}


// ---------------------------------------------------------------------------------------------
// compaction sweep: every removal pattern over a row of n items of one kind, then reindex()

#[derive(Clone, Copy, Debug, PartialEq, Eq)]
enum SweepKind {
    Annotations,
    Resources,
    Datasets,
    Keys,
}

fn sweep_store(kind: SweepKind, n: usize) -> AnnotationStore {
    let mut s = AnnotationStore::new(Config::default());
    let text: String = "a\u{e9}cdefghijkl".chars().take(n.max(2) + 1).collect();
    match kind {
        SweepKind::Annotations => {
            s.add_resource(TextResourceBuilder::new().with_id("r0").with_text(text)).unwrap();
            for i in 0..n {
                s.annotate(
                    AnnotationBuilder::new()
                        .with_id(format!("a{}", i))
                        .with_target(SelectorBuilder::textselector("r0", Offset::simple(i, i + 1)))
                        .with_data_with_id("s0", "k", i as isize, format!("D{}", i)),
                )
                .unwrap();
            }
        }
        SweepKind::Resources => {
            for i in 0..n {
                s.add_resource(TextResourceBuilder::new().with_id(format!("r{}", i)).with_text(format!("t{}\u{e9}", i))).unwrap();
            }
            for i in 0..n {
                s.annotate(
                    AnnotationBuilder::new()
                        .with_id(format!("a{}", i))
                        .with_target(SelectorBuilder::textselector(format!("r{}", i), Offset::simple(0, 2)))
                        .with_data_with_id("s0", "k", i as isize, format!("D{}", i)),
                )
                .unwrap();
            }
        }
        SweepKind::Datasets => {
            s.add_resource(TextResourceBuilder::new().with_id("r0").with_text(text)).unwrap();
            for i in 0..n {
                s.annotate(
                    AnnotationBuilder::new()
                        .with_id(format!("a{}", i))
                        .with_target(SelectorBuilder::textselector("r0", Offset::simple(i, i + 1)))
                        .with_data_with_id(format!("s{}", i), "k", i as isize, format!("D{}", i)),
                )
                .unwrap();
            }
        }
        SweepKind::Keys => {
            s.add_resource(TextResourceBuilder::new().with_id("r0").with_text(text)).unwrap();
            for i in 0..n {
                s.annotate(
                    AnnotationBuilder::new()
                        .with_id(format!("a{}", i))
                        .with_target(SelectorBuilder::textselector("r0", Offset::simple(i, i + 1)))
                        .with_data_with_id("s0", format!("k{}", i), i as isize, format!("D{}", i)),
                )
                .unwrap();
            }
        }
    }
    s
}

/// What the public API says about item i of the row (by id): present?, and the things hanging off it.
fn sweep_observe(s: &AnnotationStore, kind: SweepKind, i: usize) -> Vec<(&'static str, String)> {
    let mut v = Vec::new();
    let aid = format!("a{}", i);
    let a = s.annotation(aid.as_str());
    v.push(("annotation(id)", format!("{:?}", a.as_ref().map(|a| a.id().map(|x| x.to_string())))));
    if let Some(a) = &a {
        v.push(("annotation.text", format!("{:?}", a.text().map(|t| t.to_string()).collect::<Vec<_>>())));
        v.push(("annotation.resources", format!("{:?}", a.resources().map(|r| r.id().map(|x| x.to_string())).collect::<Vec<_>>())));
        v.push((
            "annotation.data",
            format!("{:?}", a.data().map(|d| (d.set().id().map(|x| x.to_string()), d.key().id().map(|x| x.to_string()), d.id().map(|x| x.to_string()), format!("{:?}", d.value()))).collect::<Vec<_>>()),
        ));
    }
    match kind {
        SweepKind::Resources => {
            let rid = format!("r{}", i);
            let r = s.resource(rid.as_str());
            v.push(("resource(id)", format!("{:?}", r.as_ref().map(|r| (r.id().map(|x| x.to_string()), r.text().to_string())))));
            if let Some(r) = &r {
                v.push(("resource.annotations", format!("{:?}", r.annotations().map(|a| a.id().map(|x| x.to_string())).collect::<Vec<_>>())));
            }
        }
        SweepKind::Datasets | SweepKind::Annotations | SweepKind::Keys => {
            let (sid, kid) = match kind {
                SweepKind::Datasets => (format!("s{}", i), "k".to_string()),
                SweepKind::Keys => ("s0".to_string(), format!("k{}", i)),
                _ => ("s0".to_string(), "k".to_string()),
            };
            let did = format!("D{}", i);
            let set = s.dataset(sid.as_str());
            if kind == SweepKind::Datasets {
                v.push(("dataset(id)", format!("{:?}", set.as_ref().map(|x| x.id().map(|y| y.to_string())))));
            }
            if let Some(set) = &set {
                let key = set.key(kid.as_str());
                if kind != SweepKind::Annotations {
                    v.push(("dataset.key(id)", format!("{:?}", key.as_ref().map(|k| k.id().map(|y| y.to_string())))));
                }
                if let Some(key) = &key {
                    if kind == SweepKind::Keys || kind == SweepKind::Datasets {
                        v.push(("key.data", format!("{:?}", key.data().map(|d| d.id().map(|y| y.to_string())).collect::<Vec<_>>())));
                        v.push(("key.annotations", format!("{:?}", key.annotations().map(|a| a.id().map(|y| y.to_string())).collect::<Vec<_>>())));
                    }
                }
                let d = set.annotationdata(did.as_str());
                v.push(("dataset.annotationdata(id)", format!("{:?}", d.as_ref().map(|d| (d.id().map(|y| y.to_string()), format!("{:?}", d.value()))))));
                if let Some(d) = &d {
                    v.push(("data.annotations", format!("{:?}", d.annotations().map(|a| a.id().map(|y| y.to_string())).collect::<Vec<_>>())));
                }
            }
        }
    }
    v
}

/// number of maximal runs of removed items that have a live item behind them
fn gap_runs(mask: u32, n: usize) -> usize {
    let mut runs = 0;
    let mut i = 0;
    while i < n {
        if mask >> i & 1 == 1 {
            while i < n && mask >> i & 1 == 1 {
                i += 1;
            }
            if i < n {
                runs += 1;
            }
        } else {
            i += 1;
        }
    }
    runs
}

/// For every kind of row, every length up to `maxn` and every subset of the row removed: the store after removal is
/// observed through the ids (a), compacted with reindex(), and observed again (b): (b) must equal (a), item by item.
pub fn reindex_sweep(rep: &Reporter, maxn: usize, only: Option<(String, usize, u32)>) -> (u64, u64) {
    let evals = AtomicU64::new(0);
    let cases = AtomicU64::new(0);
    let mut jobs: Vec<(SweepKind, usize, u32)> = Vec::new();
    for kind in [SweepKind::Annotations, SweepKind::Resources, SweepKind::Datasets, SweepKind::Keys] {
        for n in 1..=maxn {
            for mask in 0..(1u32 << n) {
                if only.as_ref().map(|o| o.0 == format!("{:?}", kind) && o.1 == n && o.2 == mask).unwrap_or(true) {
                    jobs.push((kind, n, mask));
                }
            }
        }
    }
    jobs.par_iter().for_each(|(kind, n, mask)| {
        let (kind, n, mask) = (*kind, *n, *mask);
        cases.fetch_add(1, Ordering::Relaxed);
        let case = || json!({"sweep": format!("{:?}", kind), "n": n, "removed_mask": mask});
        let runs = gap_runs(mask, n);
        let cls = format!("gap-runs={}", runs.min(3));
        let built = catch(|| {
            let mut s = sweep_store(kind, n);
            for i in 0..n {
                if mask >> i & 1 == 1 {
                    match kind {
                        SweepKind::Annotations => s.remove_annotation(format!("a{}", i).as_str()),
                        SweepKind::Resources => s.remove_resource(format!("r{}", i).as_str()),
                        SweepKind::Datasets => s.remove_dataset(format!("s{}", i).as_str()),
                        SweepKind::Keys => s.remove_key("s0", format!("k{}", i).as_str(), true),
                    }
                    .expect("removal of an existing item");
                }
            }
            s
        });
        let s = match built {
            Ok(s) => s,
            Err(p) => {
                rep.fail(&format!("reindex-sweep|{:?}|build|panic:{}", kind, msg_class(&p)), n as u64, || format!("n={} mask={:b}", n, mask), case);
                return;
            }
        };
        let before: Vec<Vec<(&'static str, String)>> = (0..n).map(|i| sweep_observe(&s, kind, i)).collect();
        let s2 = match catch(|| s.reindex()) {
            Ok(s2) => s2,
            Err(p) => {
                rep.fail(&format!("reindex-sweep|{:?}|reindex|panic:{}|{}", kind, msg_class(&p), cls), n as u64, || format!("n={} mask={:b}: reindex panicked", n, mask), case);
                return;
            }
        };
        for i in 0..n {
            let after = match catch(|| sweep_observe(&s2, kind, i)) {
                Ok(a) => a,
                Err(p) => {
                    rep.fail(&format!("reindex-sweep|{:?}|observe|panic:{}|{}", kind, msg_class(&p), cls), n as u64, || format!("n={} mask={:b} item {}: observation after reindex panicked", n, mask, i), case);
                    continue;
                }
            };
            evals.fetch_add(after.len() as u64, Ordering::Relaxed);
            let removed = mask >> i & 1 == 1;
            // C03 speaks about what an identifier resolves to; what hangs off the item after compaction (its text, data,
            // reverse lookups) is observed for the record only (reindex() does not remap every internal reference)
            let ids = |v: &Vec<(&'static str, String)>| -> Vec<(&'static str, String)> { v.iter().filter(|(acc, _)| acc.ends_with("(id)")).cloned().collect() };
            let (b, a) = (ids(&before[i]), ids(&after));
            if a != b {
                let acc = a.iter().zip(b.iter()).find(|(x, y)| x != y).map(|(x, _)| x.0).unwrap_or("lookups-missing");
                rep.fail(
                    &format!("reindex-sweep|{:?}|{}|{}|{}", kind, acc, if removed { "removed-item-differs" } else { "live-item-differs" }, cls),
                    (n as u64) << 32 | mask as u64,
                    || format!("row of {} {:?}, removed {:?}, item {}: after reindex() the ids give {:?}, before {:?}", n, kind, (0..n).filter(|j| mask >> j & 1 == 1).collect::<Vec<_>>(), i, a, b),
                    case,
                );
            }
        }
    });
    (cases.load(Ordering::Relaxed), evals.load(Ordering::Relaxed))
}

pub fn run(rep: &Reporter) -> Coverage {
    let oracle = C03 { lookups: AtomicU64::new(0) };
    // the history part uses the explorations of C01/C02 (every state carries ~10^3 lookups and four probes)
    let mut cov = {
        let mut cov = Coverage::default();
        let mut runs = Vec::new();
        let budget = rep.tier.pick(40.0, 1200.0);
        let mut exhaustive = true;
        for plan in plans(rep.tier) {
            let stats = explore(rep, &oracle, &plan.init, &plan.al, plan.depth, budget);
            cov.states += stats.states;
            cov.transitions += stats.transitions;
            cov.distinct_nontrivial += stats.nontrivial_states;
            exhaustive &= stats.completed_depth == plan.depth;
            for h in &stats.sample_histories {
                if cov.samples.len() < 5 {
                    cov.samples.push(json!(h));
                }
            }
            runs.push(json!({"exploration": plan.name, "depth_requested": plan.depth, "depth_completed": stats.completed_depth,
                "new_states_per_depth": stats.depth_hist, "transitions": stats.transitions}));
        }
        cov.exhaustive = exhaustive;
        cov.extra.insert("explorations".into(), json!(runs));
        cov
    };
    let _ = run_hist; // (shared planner lives in c01.rs)
    let maxlen = rep.tier.pick(3, 4);
    let (nstrings, nlookups) = run_strings(rep, maxlen);
    cov.samples.push(json!({"string": "!\u{c9}a", "looked_up_as": "annotation/resource/dataset/key/data/substore in the fixed store"}));
    cov.extra.insert("strings".into(), json!({"alphabet": SYMBOLS.iter().collect::<String>(), "max_length": maxlen, "count": nstrings, "lookups": nlookups}));
    let maxn = rep.tier.pick(7, 10);
    let (ncases, nobs) = reindex_sweep(rep, maxn, None);
    cov.states += ncases;
    cov.extra.insert("compaction_sweep".into(), json!({"rows": ["annotations on one resource", "resources each with an annotation", "datasets each with an annotated data item", "keys of one dataset each with an annotated data item"], "max_row_length": maxn, "removal_patterns": ncases, "observations_compared": nobs}));
    let hl = oracle.lookups.load(Ordering::Relaxed);
    cov.extra.insert("lookups_in_history_states".into(), json!(hl));
    cov.evaluations = hl + nlookups + nobs;
    cov.traces_validated = cov.transitions;
    cov.rule = "history part: every history of valid operations up to the depth (as C01) and in every new state (a) every id that ever existed, fixed never-used ids and every temporary id !<letter><n> looked up as every kind through the accessor and resolve_* functions, (b) probes: duplicate-id insertion, reindex(), strip_annotation_ids(), strip_data_ids() followed by the same lookups; string part: every string up to max_length over the 14-symbol alphabet plus a menu of digit strings, looked up as every kind (annotation, resource, dataset, key, data item, sub-store) in a fixed store with a removed annotation and two sub-stores whose ids are also ids of a key and of a data item; compaction sweep: for rows of 1..max_row_length annotations / resources / datasets / keys, every subset of the row removed, then reindex(): what every id of the row resolves to (annotation, resource, dataset, key, data item: the item carrying that id, or nothing for a removed one) must be the same before and after compaction; non-trivial = states with a removed and a live annotation".into();
    cov.assumptions = vec![
        "a temporary id is '!' + the kind's letter + a decimal handle; anything else is an ordinary (unknown) id".into(),
        "after reindex() only ids are compared (handles are renumbered by design)".into(),
    ];
    cov
}

pub fn replay(rep: &Reporter, case: &Value) {
    if let Some(k) = case["sweep"].as_str() {
        let n = case["n"].as_u64().unwrap_or(0) as usize;
        let mask = case["removed_mask"].as_u64().unwrap_or(0) as u32;
        println!("replay C03 compaction sweep: row of {} {}, removed mask {:b}", n, k, mask);
        reindex_sweep(rep, n, Some((k.to_string(), n, mask)));
        return;
    }
    if let Some(s) = case["string"].as_str() {
        let hist = history_from_json(&case["history"]);
        let (store, _) = replay_real(&hist);
        let model = replay_model(&hist);
        for kind in [Kind::Ann, Kind::Res, Kind::Set, Kind::Key, Kind::Data, Kind::Sub] {
            let mut fail = |sig: String, detail: String| {
                println!("  FAIL {:?} {} :: {}", kind, sig, detail);
                rep.fail(&format!("string|{:?}|{}", kind, sig), 0, || detail.clone(), || case.clone());
            };
            check_one(&store, &model, kind, "s0", s, &mut fail);
        }
        return;
    }
    let hist = history_from_json(&case["history"]);
    println!("replay C03: history:");
    for o in &hist {
        println!("   {}", o.short());
    }
    if hist.is_empty() {
        return;
    }
    let (pre_h, op) = hist.split_at(hist.len() - 1);
    let (pre, _) = replay_real(pre_h);
    let pre_model = replay_model(pre_h);
    let mut post_model = pre_model.clone();
    let _ = post_model.apply(&op[0]);
    let (mut post, _) = replay_real(pre_h);
    let outcome = apply_real(&mut post, &op[0]);
    let t = Trans { hist: pre_h, op: &op[0], pre: &pre, pre_model: &pre_model, post: &post, post_model: &post_model, outcome: &outcome, divergence: &None, new_state: true, depth: hist.len(), ord: 0 };
    let oracle = C03 { lookups: AtomicU64::new(0) };
    oracle.transition(rep, &t);
}
