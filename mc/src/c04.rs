//! C04 — offsets resolve to exactly the addressed codepoints, or are rejected.
//! Exhaustive enumeration: texts x all pairs of cursors (both alignments, out-of-range, inverted, zero-width,
//! positive end-aligned, extremes) x entry points (annotate with a TextSelector, annotate relative to a parent
//! annotation at nesting depth 1..3, FindText::textselection on resource and on selection, text_by_offset),
//! and for every accepted annotation every reported offset in all four modes.

use crate::report::{Coverage, Reporter, Tier};
use crate::util::{all_ranges, catch, char_slice, msg_class};
use rayon::prelude::*;
use serde_json::{json, Value};
use stam::*;
use std::sync::atomic::{AtomicU64, Ordering};

#[derive(Clone, Copy, Debug, PartialEq, Eq)]
pub enum Cur {
    B(usize),
    E(isize),
}

impl Cur {
    fn to_cursor(self) -> Cursor {
        match self {
            Cur::B(n) => Cursor::BeginAligned(n),
            Cur::E(n) => Cursor::EndAligned(n),
        }
    }
    /// resolve against a text of `len` codepoints: Some(position) iff the cursor denotes a position 0..=len
    fn resolve(self, len: usize) -> Option<usize> {
        match self {
            Cur::B(n) => {
                if n <= len {
                    Some(n)
                } else {
                    None
                }
            }
            Cur::E(n) => {
                if n > 0 {
                    None
                } else {
                    let d = n.unsigned_abs();
                    if d <= len {
                        Some(len - d)
                    } else {
                        None
                    }
                }
            }
        }
    }
    /// class for signatures
    fn class(self, len: usize) -> &'static str {
        match self {
            Cur::B(n) => {
                if n < len {
                    "B:inside"
                } else if n == len {
                    "B:at-end"
                } else if n > (1usize << 40) {
                    "B:huge"
                } else {
                    "B:beyond"
                }
            }
            Cur::E(n) => {
                if n > 0 {
                    "E:positive"
                } else if n == isize::MIN {
                    "E:min"
                } else if n == 0 {
                    "E:zero"
                } else if n.unsigned_abs() < len {
                    "E:inside"
                } else if n.unsigned_abs() == len {
                    "E:at-begin"
                } else {
                    "E:beyond"
                }
            }
        }
    }
    fn json(self) -> Value {
        match self {
            Cur::B(n) => json!({"B": n}),
            Cur::E(n) => json!({"E": n}),
        }
    }
    fn from_json(v: &Value) -> Option<Cur> {
        if let Some(n) = v.get("B").and_then(|x| x.as_u64()) {
            return Some(Cur::B(n as usize));
        }
        v.get("E").and_then(|x| x.as_i64()).map(|n| Cur::E(n as isize))
    }
}

fn cursors(len: usize, extremes: bool) -> Vec<Cur> {
    let mut v = Vec::new();
    for n in 0..=len + 2 {
        v.push(Cur::B(n));
    }
    for n in -((len + 2) as isize)..=2 {
        v.push(Cur::E(n));
    }
    if extremes {
        v.push(Cur::B(usize::MAX >> 1));
        v.push(Cur::E(isize::MIN));
        v.push(Cur::E(isize::MAX));
    }
    v
}

/// the documented acceptance rule
fn expected(b: Cur, e: Cur, len: usize) -> Option<(usize, usize)> {
    let (rb, re) = (b.resolve(len)?, e.resolve(len)?);
    if rb <= re {
        Some((rb, re))
    } else {
        None
    }
}

fn relation(b: Cur, e: Cur, len: usize) -> &'static str {
    match (b.resolve(len), e.resolve(len)) {
        (Some(x), Some(y)) => {
            if x < y {
                "b<e"
            } else if x == y {
                "b=e"
            } else {
                "b>e"
            }
        }
        _ => "n/a",
    }
}

fn new_store(text: &str) -> AnnotationStore {
    let mut s = AnnotationStore::new(Config::default());
    s.add_resource(TextResourceBuilder::new().with_id("r").with_text(text)).expect("resource");
    s
}

struct Ctx<'a> {
    rep: &'a Reporter,
    evals: &'a AtomicU64,
}

fn sig(entry: &str, depth: usize, b: Cur, e: Cur, len: usize, symptom: &str) -> String {
    format!("{}|depth={}|{},{}|{}|{}", entry, depth, b.class(len), e.class(len), relation(b, e, len), symptom)
}

/// Compare one outcome (Ok(text) or Err) with the expectation
fn judge(ctx: &Ctx, entry: &str, depth: usize, text: &str, parents: &[(usize, usize)], b: Cur, e: Cur, container: (usize, usize), got: Result<Result<String, String>, String>, ord: u64) {
    ctx.evals.fetch_add(1, Ordering::Relaxed);
    let len = container.1 - container.0;
    let want = expected(b, e, len).map(|(x, y)| char_slice(text, container.0 + x, container.0 + y));
    let case = || json!({"text": text, "entry": entry, "parents": parents, "b": b.json(), "e": e.json()});
    let detail = |what: &str| format!("{} text={:?} container=[{},{}) offset=({:?},{:?}): {}", entry, text, container.0, container.1, b, e, what);
    match got {
        Err(p) => ctx.rep.fail(&sig(entry, depth, b, e, len, &format!("panic:{}", msg_class(&p))), ord, || detail("panicked"), case),
        Ok(Ok(t)) => match &want {
            None => ctx.rep.fail(&sig(entry, depth, b, e, len, "accepted-invalid"), ord, || detail(&format!("accepted (text {:?}) although it does not denote 0 <= begin <= end <= {}", t, len)), case),
            Some(w) => {
                if &t != w {
                    ctx.rep.fail(&sig(entry, depth, b, e, len, "wrong-text"), ord, || detail(&format!("text {:?}, the addressed codepoints are {:?}", t, w)), case);
                }
            }
        },
        Ok(Err(_)) => {
            if let Some(w) = &want {
                ctx.rep.fail(&sig(entry, depth, b, e, len, "rejected-valid"), ord, || detail(&format!("refused although it denotes {:?}", w)), case);
            }
        }
    }
}

/// every reported offset of an accepted annotation is well-formed and re-resolves to the same absolute range
fn check_reporting(ctx: &Ctx, store: &AnnotationStore, annid: &str, text: &str, container: (usize, usize), abs: (usize, usize), entry: &str, depth: usize, b: Cur, e: Cur, ord: u64) {
    let ann = match store.annotation(annid) {
        Some(a) => a,
        None => return,
    };
    let len = container.1 - container.0;
    let case = || json!({"text": text, "entry": entry, "container": [container.0, container.1], "b": b.json(), "e": e.json(), "reporting": true});
    let modes: [(Option<OffsetMode>, &str); 5] = [
        (None, "as-stored"),
        (Some(OffsetMode::BeginBegin), "BeginBegin"),
        (Some(OffsetMode::BeginEnd), "BeginEnd"),
        (Some(OffsetMode::EndEnd), "EndEnd"),
        (Some(OffsetMode::EndBegin), "EndBegin"),
    ];
    for (mode, mname) in modes {
        ctx.evals.fetch_add(1, Ordering::Relaxed);
        let got = catch(|| match mode {
            None => ann.as_ref().target().offset(store),
            Some(m) => ann.as_ref().target().offset_with_mode(store, Some(m)),
        });
        match got {
            Err(p) => ctx.rep.fail(&format!("report|{}|depth={}|mode={}|panic:{}", entry, depth, mname, msg_class(&p)), ord, || format!("offset_with_mode panicked for annotation on [{},{}) in container [{},{})", abs.0, abs.1, container.0, container.1), case),
            Ok(None) => ctx.rep.fail(&format!("report|{}|depth={}|mode={}|no-offset", entry, depth, mname), ord, || "no offset reported for a text-bearing target".into(), case),
            Ok(Some(off)) => {
                let cur = |c: Cursor| match c {
                    Cursor::BeginAligned(n) => Cur::B(n),
                    Cursor::EndAligned(n) => Cur::E(n),
                };
                let (rb, re) = (cur(off.begin), cur(off.end));
                let wellformed = !matches!(rb, Cur::E(n) if n > 0) && !matches!(re, Cur::E(n) if n > 0);
                let zero = if abs.0 == abs.1 { "zero-width" } else { "non-empty" };
                if !wellformed {
                    ctx.rep.fail(
                        &format!("report|{}|depth={}|mode={}|malformed-positive-end-aligned|{}", entry, depth, mname, zero),
                        ord,
                        || format!("annotation on [{},{}) in container [{},{}) reports offset ({:?},{:?})", abs.0, abs.1, container.0, container.1, rb, re),
                        case,
                    );
                    continue;
                }
                let want = (abs.0 - container.0, abs.1 - container.0);
                if expected(rb, re, len) != Some(want) {
                    ctx.rep.fail(
                        &format!("report|{}|depth={}|mode={}|re-resolves-differently|{}", entry, depth, mname, zero),
                        ord,
                        || format!("annotation on [{},{}) in container [{},{}) reports offset ({:?},{:?}) which resolves to {:?}, not {:?}", abs.0, abs.1, container.0, container.1, rb, re, expected(rb, re, len), want),
                        case,
                    );
                }
                if let Some(m) = mode {
                    let shape_ok = match m {
                        OffsetMode::BeginBegin => matches!((rb, re), (Cur::B(_), Cur::B(_))),
                        OffsetMode::BeginEnd => matches!((rb, re), (Cur::B(_), Cur::E(_))),
                        OffsetMode::EndEnd => matches!((rb, re), (Cur::E(_), Cur::E(_))),
                        OffsetMode::EndBegin => matches!((rb, re), (Cur::E(_), Cur::B(_))),
                    };
                    if !shape_ok {
                        ctx.rep.fail(&format!("report|{}|depth={}|mode={}|wrong-alignment", entry, depth, mname), ord, || format!("asked for {}, got ({:?},{:?})", mname, rb, re), case);
                    }
                }
            }
        }
    }
}

/// All checks for one text and one chain of parent ranges (absolute), innermost last.
fn check_container(ctx: &Ctx, text: &str, parents: &[(usize, usize)], curs: &[Cur], ord0: u64) {
    let textlen = text.chars().count();
    let depth = parents.len();
    let container = parents.last().copied().unwrap_or((0, textlen));
    let len = container.1 - container.0;
    // store with the parent chain: p0 = TextSelector, p_i = AnnotationSelector(p_{i-1}, relative offset)
    let build = || -> Option<AnnotationStore> {
        let mut s = new_store(text);
        let mut prev: Option<(usize, usize)> = None;
        for (i, p) in parents.iter().enumerate() {
            let b = match prev {
                None => AnnotationBuilder::new().with_id(format!("p{}", i)).with_target(SelectorBuilder::textselector("r", Offset::simple(p.0, p.1))),
                Some(pp) => AnnotationBuilder::new()
                    .with_id(format!("p{}", i))
                    .with_target(SelectorBuilder::annotationselector(format!("p{}", i - 1), Some(Offset::simple(p.0 - pp.0, p.1 - pp.0)))),
            };
            s.annotate(b).ok()?;
            prev = Some(*p);
        }
        Some(s)
    };
    for (i, b) in curs.iter().enumerate() {
        for (j, e) in curs.iter().enumerate() {
            let ord = ord0 * 10_000 + (i * curs.len() + j) as u64;
            let offset = Offset::new(b.to_cursor(), e.to_cursor());
            // (1) annotate
            let mut store = match build() {
                Some(s) => s,
                None => return,
            };
            let entry = if depth == 0 { "annotate:TextSelector" } else { "annotate:AnnotationSelector" };
            let got = catch(|| {
                let target = if depth == 0 {
                    SelectorBuilder::textselector("r", offset.clone())
                } else {
                    SelectorBuilder::annotationselector(format!("p{}", depth - 1), Some(offset.clone()))
                };
                match store.annotate(AnnotationBuilder::new().with_id("x").with_target(target)) {
                    Ok(_) => Ok(store.annotation("x").map(|a| a.text_join("")).unwrap_or_default()),
                    Err(e) => Err(format!("{}", e)),
                }
            });
            let accepted_ok = matches!(&got, Ok(Ok(_)));
            judge(ctx, entry, depth, text, parents, *b, *e, container, got, ord);
            if accepted_ok {
                if let Some((x, y)) = expected(*b, *e, len) {
                    let abs = (container.0 + x, container.0 + y);
                    check_reporting(ctx, &store, "x", text, container, abs, entry, depth, *b, *e, ord);
                    // text(), text_simple(), textselections() agree
                    let ann = store.annotation("x").unwrap();
                    let ts: Vec<(usize, usize)> = ann.textselections().map(|t| (t.begin(), t.end())).collect();
                    if ts != vec![abs] {
                        ctx.rep.fail(&sig(entry, depth, *b, *e, len, "textselections-differ"), ord, || format!("textselections() = {:?}, expected [{:?}]", ts, abs), || json!({"text": text, "entry": entry, "parents": parents, "b": b.json(), "e": e.json()}));
                    }
                }
            }
            // (2) FindText::textselection on the resource / on the innermost selection, (3) text_by_offset
            let store = match build() {
                Some(s) => s,
                None => return,
            };
            let res = store.resource("r").unwrap();
            if depth == 0 {
                judge(ctx, "resource.textselection", 0, text, parents, *b, *e, container, catch(|| res.textselection(&offset).map(|t| t.text().to_string()).map_err(|e| format!("{}", e))), ord);
                judge(ctx, "resource.text_by_offset", 0, text, parents, *b, *e, container, catch(|| res.text_by_offset(&offset).map(|t| t.to_string()).map_err(|e| format!("{}", e))), ord);
            } else if depth == 1 {
                // resource-level entry points again, now with an annotation already present (populated position index):
                // the same cursor values are read against the whole text
                let whole = (0, textlen);
                judge(ctx, "resource.textselection:after-annotation", 0, text, &[], *b, *e, whole, catch(|| res.textselection(&offset).map(|t| t.text().to_string()).map_err(|e| format!("{}", e))), ord);
                judge(ctx, "resource.text_by_offset:after-annotation", 0, text, &[], *b, *e, whole, catch(|| res.text_by_offset(&offset).map(|t| t.to_string()).map_err(|e| format!("{}", e))), ord);
                if let Ok(sel) = res.textselection(&Offset::simple(container.0, container.1)) {
                    judge(ctx, "selection.textselection", 1, text, parents, *b, *e, container, catch(|| sel.textselection(&offset).map(|t| t.text().to_string()).map_err(|e| format!("{}", e))), ord);
                    judge(ctx, "selection.text_by_offset", 1, text, parents, *b, *e, container, catch(|| sel.text_by_offset(&offset).map(|t| t.to_string()).map_err(|e| format!("{}", e))), ord);
                }
            }
        }
    }
}

pub fn texts(tier: Tier) -> Vec<&'static str> {
    match tier {
        Tier::Quick => vec!["", "a", "ab", "\u{e9}\u{1d11e}x\u{e9}", "ab cd"],
        Tier::Thorough => vec!["", "a", "ab", "\u{e9}\u{1d11e}x\u{e9}", "ab cd", "a\u{e9} \u{1d11e}d\u{df}z"],
    }
}

/// Reported offsets through the text-selection API: for every container range and every range embedded in it, in all
/// four modes: `inner.relative_offset(container, mode)` must exist, be well-formed, resolve inside the container to the
/// inner range again, and `container.absolute_offset(that)` must be the inner range in resource coordinates; for a range
/// that is not embedded in the container there is no relative offset.
pub fn relative_api(rep: &Reporter, tier: Tier) -> (u64, u64) {
    let evals = AtomicU64::new(0);
    let cases = AtomicU64::new(0);
    let modes = [("BeginBegin", OffsetMode::BeginBegin), ("BeginEnd", OffsetMode::BeginEnd), ("EndBegin", OffsetMode::EndBegin), ("EndEnd", OffsetMode::EndEnd)];
    for text in texts(tier) {
        let len = text.chars().count();
        let mut store = AnnotationStore::new(Config::default());
        store.add_resource(TextResourceBuilder::new().with_id("r").with_text(text)).expect("resource");
        let res = store.resource("r").expect("resource r");
        let ranges = all_ranges(len);
        ranges.par_iter().enumerate().for_each(|(ci, c)| {
            let csel = match res.textselection(&Offset::simple(c.0, c.1)) {
                Ok(s) => s,
                Err(_) => return,
            };
            for (ii, i) in ranges.iter().enumerate() {
                let isel = match res.textselection(&Offset::simple(i.0, i.1)) {
                    Ok(s) => s,
                    Err(_) => continue,
                };
                let embedded = c.0 <= i.0 && i.1 <= c.1;
                for (mname, mode) in modes {
                    cases.fetch_add(1, Ordering::Relaxed);
                    evals.fetch_add(1, Ordering::Relaxed);
                    let geometry = if !embedded {
                        "not-embedded"
                    } else if i.0 == i.1 {
                        "zero-width"
                    } else if *i == *c {
                        "whole"
                    } else if i.0 == c.0 {
                        "at-begin"
                    } else if i.1 == c.1 {
                        "at-end"
                    } else {
                        "inside"
                    };
                    let fail = |symptom: &str, detail: String| {
                        rep.fail(
                            &format!("relative-api|mode={}|{}|{}", mname, geometry, symptom),
                            ((len * 1000 + ci) * 1000 + ii) as u64,
                            || format!("text={:?} container={:?} inner={:?} mode={}: {}", text, c, i, mname, detail),
                            || json!({"relative_api": {"text": text, "container": [c.0, c.1], "inner": [i.0, i.1], "mode": mname}}),
                        );
                    };
                    let got = match catch(|| isel.relative_offset(&csel, mode)) {
                        Ok(g) => g,
                        Err(p) => {
                            fail(&format!("panic:{}", msg_class(&p)), "relative_offset panicked".into());
                            continue;
                        }
                    };
                    match (embedded, got) {
                        (false, None) => {}
                        (false, Some(o)) => fail("offset-for-non-embedded", format!("relative_offset = {:?} although the range is not inside the container", o)),
                        (true, None) => fail("no-offset-for-embedded", "relative_offset = None although the range lies inside the container".into()),
                        (true, Some(o)) => {
                            let bad_sign = matches!(o.begin, Cursor::EndAligned(x) if x > 0) || matches!(o.end, Cursor::EndAligned(x) if x > 0);
                            if bad_sign {
                                fail("positive-end-aligned-cursor", format!("reported {:?}", o));
                                continue;
                            }
                            evals.fetch_add(2, Ordering::Relaxed);
                            match catch(|| csel.textselection(&o).map(|t| (t.begin(), t.end()))) {
                                Ok(Ok(r)) if r == *i => {}
                                Ok(Ok(r)) => fail("re-resolves-differently", format!("reported {:?}, which resolves inside the container to {:?}", o, r)),
                                Ok(Err(e)) => fail("reported-offset-refused", format!("reported {:?}, refused with {}", o, e)),
                                Err(p) => fail(&format!("panic:{}", msg_class(&p)), format!("resolving the reported {:?} panicked", o)),
                            }
                            match catch(|| csel.absolute_offset(&o)) {
                                Ok(Ok(a)) if a == Offset::simple(i.0, i.1) => {}
                                Ok(Ok(a)) => fail("absolute-offset-differs", format!("reported {:?}; absolute_offset gives {:?}", o, a)),
                                Ok(Err(e)) => fail("absolute-offset-refused", format!("reported {:?}; absolute_offset refused it with {}", o, e)),
                                Err(p) => fail(&format!("panic:{}", msg_class(&p)), format!("absolute_offset({:?}) panicked", o)),
                            }
                        }
                    }
                }
            }
        });
    }
    (cases.load(Ordering::Relaxed), evals.load(Ordering::Relaxed))
}

pub fn run(rep: &Reporter) -> Coverage {
    let evals = AtomicU64::new(0);
    let maxdepth = rep.tier.pick(1, 3);
    let mut jobs: Vec<(String, Vec<(usize, usize)>)> = Vec::new();
    for t in texts(rep.tier) {
        let len = t.chars().count();
        jobs.push((t.to_string(), vec![]));
        // nesting: every sub-range as parent at depth 1; deeper levels: every sub-range of the parent again (thorough)
        let mut level: Vec<Vec<(usize, usize)>> = all_ranges(len).into_iter().map(|r| vec![r]).collect();
        for d in 1..=maxdepth {
            for chain in &level {
                jobs.push((t.to_string(), chain.clone()));
            }
            if d == maxdepth || len > 5 {
                break;
            }
            let mut next = Vec::new();
            for chain in &level {
                let p = *chain.last().unwrap();
                for r in all_ranges(p.1 - p.0) {
                    let mut c = chain.clone();
                    c.push((p.0 + r.0, p.0 + r.1));
                    next.push(c);
                }
            }
            level = next;
        }
    }
    let ctx = Ctx { rep, evals: &evals };
    let njobs = jobs.len();
    jobs.par_iter().enumerate().for_each(|(i, (text, parents))| {
        let container = parents.last().copied().unwrap_or((0, text.chars().count()));
        let span = if parents.len() == 1 { text.chars().count() } else { container.1 - container.0 };
        let curs = cursors(span, parents.len() <= 1);
        check_container(&ctx, text, parents, &curs, i as u64);
    });
    let (rcases, revals) = relative_api(rep, rep.tier);
    let mut cov = Coverage::default();
    let total: u64 = jobs
        .iter()
        .map(|(t, p)| {
            let container = p.last().copied().unwrap_or((0, t.chars().count()));
            let span = if p.len() == 1 { t.chars().count() } else { container.1 - container.0 };
            let n = cursors(span, p.len() <= 1).len() as u64;
            n * n
        })
        .sum();
    cov.states = total + rcases;
    cov.transitions = evals.load(Ordering::Relaxed) + revals;
    cov.evaluations = cov.transitions;
    cov.traces_validated = cov.transitions;
    cov.distinct_nontrivial = jobs.iter().filter(|(_, p)| !p.is_empty()).count() as u64;
    cov.rule = "for every text, every chain of parent ranges up to the nesting depth (each level every sub-range of the previous one) and every ordered pair of cursors (begin-aligned 0..len+2, end-aligned -(len+2)..+2, plus usize::MAX/2, isize::MIN, isize::MAX at depth <= 1): annotate (TextSelector at depth 0, AnnotationSelector with relative offset below), FindText::textselection and text_by_offset on the resource / on the sub-selection; accepted exactly when the resolved cursors satisfy 0 <= begin <= end <= len(container), then text = the codepoint slice of the plain string; for every accepted annotation Selector::offset and offset_with_mode in all four modes must be well-formed and re-resolve to the same range; through the text-selection API: for every container range and every range of the text in all four modes relative_offset exists exactly for embedded ranges, is well-formed, resolves inside the container to the same range and absolute_offset maps it back to resource coordinates; states = (container, cursor pair) cases + (container, range, mode) cases; non-trivial = containers below the resource level".into();
    cov.samples = vec![
        json!({"text": "\u{e9}\u{1d11e}x\u{e9}", "parents": [], "b": {"E": -3}, "e": {"B": 3}}),
        json!({"text": "ab cd", "parents": [[1, 4]], "b": {"B": 1}, "e": {"E": -1}}),
        json!({"text": "ab", "parents": [], "b": {"B": 2}, "e": {"B": 1}}),
    ];
    cov.exhaustive = true;
    cov.extra.insert("space".into(), json!({"texts": texts(rep.tier), "containers": njobs, "max_nesting_depth": maxdepth, "cursor_pairs": total}));
    cov.assumptions = vec!["acceptance rule = the property statement: 0 <= begin <= end <= length of the addressed text after resolving end-aligned cursors (positive end-aligned cursors denote no position)".into()];
    cov
}

pub fn replay(rep: &Reporter, case: &Value) {
    if case.get("relative_api").is_some() {
        println!("replay C04 relative API: {}", case["relative_api"]);
        relative_api(rep, rep.tier);
        return;
    }
    let text = case["text"].as_str().unwrap_or("").to_string();
    let parents: Vec<(usize, usize)> = case["parents"]
        .as_array()
        .or(case["container"].as_array().map(|_| &*Box::leak(Box::new(vec![case["container"].clone()]))))
        .map(|a| a.iter().filter_map(|p| Some((p[0].as_u64()? as usize, p[1].as_u64()? as usize))).collect())
        .unwrap_or_default();
    let (b, e) = match (Cur::from_json(&case["b"]), Cur::from_json(&case["e"])) {
        (Some(b), Some(e)) => (b, e),
        _ => return,
    };
    println!("replay C04: text={:?} parents={:?} offset=({:?},{:?})", text, parents, b, e);
    let evals = AtomicU64::new(0);
    let ctx = Ctx { rep, evals: &evals };
    // the pair is checked in isolation by using a one-element cursor list for each side
    let textlen = text.chars().count();
    let _ = textlen;
    check_container(&ctx, &text, &parents, &[b, e], 0);
}
