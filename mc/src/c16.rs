//! C16 — transposition preserves text.
//!
//! Bounded-exhaustive enumeration of *worlds* (a pair or triple of texts sharing 1..3 fragments, linked
//! by a simple or complex transposition, fragments listed and arranged in every order), crossed with
//! every source range (and every ordered pair of ranges) of the source text, the form in which the source
//! is given (annotation with id / without id / text selection set) and the `TransposeConfig` switches.
//! Every case builds a fresh store, calls the real `Transposable::transpose`, adds the returned builders
//! with `annotate_from_iter`, inspects the new annotations through the public API and transposes the
//! result back. The oracle is plain interval arithmetic on the fragment lists.
//!
//! A failing case is *minimised* (drop a source range, drop the third side, drop a fragment, switch
//! config flags off) while the symptom persists; the signature is computed from the minimal case, so
//! that one defect does not produce one signature per configuration.

use crate::report::{Coverage, Reporter, Tier};
use crate::util::{catch, char_slice, msg_class};
use rayon::prelude::*;
use serde_json::{json, Value};
use stam::*;
use std::collections::{BTreeMap, HashMap};
use std::sync::atomic::{AtomicU64, Ordering};
use std::sync::{Arc, Mutex};

type R = (usize, usize);

const TSET: &str = "https://w3id.org/stam/extensions/stam-transpose/";

// ------------------------------------------------------------------------------------------------
// case description
// ------------------------------------------------------------------------------------------------

#[derive(Clone, Debug, PartialEq, Eq)]
pub struct Side {
    pub text: String,
    /// fragments in *listing* order: the i-th fragment of every side carries the same text
    pub frags: Vec<R>,
}

#[derive(Clone, Debug, PartialEq, Eq)]
pub struct World {
    /// simple transposition (one DirectionalSelector of TextSelectors, one fragment per side) or
    /// complex (one annotation per side, linked by a DirectionalSelector of AnnotationSelectors)
    pub simple: bool,
    pub sides: Vec<Side>,
}

#[derive(Clone, Copy, Debug, PartialEq, Eq)]
pub enum Form {
    /// source is an annotation with public id "src"
    AnnId,
    /// source is an annotation without public id
    AnnNoId,
    /// source is a ResultTextSelectionSet, no source id configured
    TSet,
    /// source is a ResultTextSelectionSet, `source_side_id` = a fresh id
    TSetNewId,
    /// source is a ResultTextSelectionSet equal to the text of the existing annotation "src";
    /// `source_side_id = "src"`, `existing_source_side = true`
    TSetExisting,
}

const FORMS: [Form; 5] = [Form::AnnId, Form::AnnNoId, Form::TSet, Form::TSetNewId, Form::TSetExisting];

#[derive(Clone, Copy, Debug, PartialEq, Eq)]
pub enum SideMode {
    Auto,
    /// `TranspositionSide::ByIndex(the side the source really is in)`
    Index,
    /// `TranspositionSide::ByIndex(the next side)`: the source is not in that side at all
    WrongIndex,
}

const SIDEMODES: [SideMode; 3] = [SideMode::Auto, SideMode::Index, SideMode::WrongIndex];

#[derive(Clone, Copy, Debug, PartialEq, Eq)]
pub struct Cfg {
    pub form: Form,
    pub allow_simple: bool,
    pub no_transposition: bool,
    pub no_resegmentation: bool,
    pub side: SideMode,
}

impl Cfg {
    const BASE: Cfg = Cfg { form: Form::AnnId, allow_simple: false, no_transposition: false, no_resegmentation: false, side: SideMode::Auto };

    fn name(&self) -> String {
        let mut s = format!("{:?}", self.form);
        if self.allow_simple {
            s.push_str("+simple");
        }
        if self.no_transposition {
            s.push_str("+notr");
        }
        if self.no_resegmentation {
            s.push_str("+noreseg");
        }
        s.push_str(match self.side {
            SideMode::Auto => "/auto",
            SideMode::Index => "/idx",
            SideMode::WrongIndex => "/wrongidx",
        });
        s
    }
    fn complexity(&self) -> u64 {
        (self.form != Form::AnnId) as u64
            + self.allow_simple as u64
            + self.no_transposition as u64
            + self.no_resegmentation as u64
            + (self.side != SideMode::Auto) as u64
    }
    fn to_json(&self) -> Value {
        json!({"form": format!("{:?}", self.form), "allow_simple": self.allow_simple, "no_transposition": self.no_transposition,
               "no_resegmentation": self.no_resegmentation, "side": format!("{:?}", self.side)})
    }
    fn from_json(v: &Value) -> Option<Cfg> {
        let f = v["form"].as_str()?;
        let s = v["side"].as_str()?;
        Some(Cfg {
            form: *FORMS.iter().find(|x| format!("{:?}", x) == f)?,
            allow_simple: v["allow_simple"].as_bool()?,
            no_transposition: v["no_transposition"].as_bool()?,
            no_resegmentation: v["no_resegmentation"].as_bool()?,
            side: *SIDEMODES.iter().find(|x| format!("{:?}", x) == s)?,
        })
    }
}

#[derive(Clone, Debug)]
pub struct Case {
    pub world: World,
    /// index of the side whose resource holds the source
    pub src_side: usize,
    /// source ranges (codepoints in the text of side `src_side`), in the order given to the library
    pub source: Vec<R>,
    pub cfg: Cfg,
}

impl Case {
    fn to_json(&self) -> Value {
        json!({
            "simple": self.world.simple,
            "sides": self.world.sides.iter().map(|s| json!({"text": s.text, "frags": s.frags})).collect::<Vec<_>>(),
            "src_side": self.src_side,
            "source": self.source,
            "cfg": self.cfg.to_json(),
        })
    }
    fn from_json(v: &Value) -> Option<Case> {
        let ranges = |v: &Value| -> Option<Vec<R>> {
            v.as_array()?.iter().map(|p| Some((p[0].as_u64()? as usize, p[1].as_u64()? as usize))).collect()
        };
        let mut sides = Vec::new();
        for s in v["sides"].as_array()? {
            sides.push(Side { text: s["text"].as_str()?.to_string(), frags: ranges(&s["frags"])? });
        }
        Some(Case {
            world: World { simple: v["simple"].as_bool()?, sides },
            src_side: v["src_side"].as_u64()? as usize,
            source: ranges(&v["source"])?,
            cfg: Cfg::from_json(&v["cfg"])?,
        })
    }
    fn describe(&self) -> String {
        let w = &self.world;
        let sides: Vec<String> = w.sides.iter().map(|s| format!("{:?}{:?}", s.text, s.frags)).collect();
        format!(
            "{} transposition over sides [{}], source {:?} in side {} ({:?}), cfg {}",
            if w.simple { "simple" } else { "complex" },
            sides.join(" ; "),
            self.source,
            self.src_side,
            self.source.iter().map(|r| char_slice(&w.sides[self.src_side].text, r.0, r.1)).collect::<Vec<_>>(),
            self.cfg.name()
        )
    }
    /// simplest first
    fn ord(&self) -> u64 {
        let w = &self.world;
        let k = w.sides[0].frags.len() as u64;
        let tl: u64 = w.sides.iter().map(|s| s.text.chars().count() as u64).sum();
        let re: u64 = self.source.iter().map(|r| (r.0 + r.1) as u64).sum();
        ((w.sides.len() as u64) << 44)
            | (k << 40)
            | ((self.source.len() as u64) << 36)
            | (self.cfg.complexity() << 32)
            | ((!w.simple as u64) << 31)
            | ((self.src_side as u64) << 28)
            | (tl.min(255) << 16)
            | re.min(65535)
    }
}

// ------------------------------------------------------------------------------------------------
// the oracle: interval arithmetic on the fragment lists
// ------------------------------------------------------------------------------------------------

/// Split a non-empty source range at the fragment boundaries of its side. `None` = some codepoint of
/// the range lies in no fragment (not covered). Result: (listing index of the fragment, piece).
fn split(frags: &[R], src: R) -> Option<Vec<(usize, R)>> {
    let mut p = src.0;
    let mut out = Vec::new();
    while p < src.1 {
        let i = frags.iter().position(|f| f.0 <= p && p < f.1)?;
        let e = src.1.min(frags[i].1);
        out.push((i, (p, e)));
        p = e;
    }
    Some(out)
}

#[derive(Clone, Debug, PartialEq)]
enum Expect {
    /// every codepoint of the source lies in a fragment of the side that is searched: must succeed.
    /// Content: the source pieces (fragment index, piece) in order.
    Covered(Vec<(usize, R)>),
    /// some codepoint lies outside: must fail
    Uncovered,
    /// zero-width source: the documentation does not say whether it is "covered"
    Unspecified,
}

fn expectation(case: &Case) -> Expect {
    if case.cfg.side == SideMode::WrongIndex {
        // the side that is named lies in a different resource: the source (of any width) is not covered by it
        return Expect::Uncovered;
    }
    if case.source.iter().any(|r| r.0 == r.1) {
        return Expect::Unspecified;
    }
    let frags = &case.world.sides[case.src_side].frags;
    let mut all = Vec::new();
    for r in &case.source {
        match split(frags, *r) {
            Some(p) => all.extend(p),
            None => return Expect::Uncovered,
        }
    }
    Expect::Covered(all)
}

fn flatten(rs: &[R]) -> Vec<usize> {
    rs.iter().flat_map(|r| r.0..r.1).collect()
}

/// where the codepoints of the source pieces must end up in side `t`
fn mapped_positions(world: &World, s: usize, t: usize, pieces: &[(usize, R)]) -> Vec<usize> {
    let mut out = Vec::new();
    for (i, (b, e)) in pieces {
        let fs = world.sides[s].frags[*i];
        let ft = world.sides[t].frags[*i];
        for x in *b..*e {
            out.push(ft.0 + (x - fs.0));
        }
    }
    out
}

/// alignment class of one source range against the fragments of its side (listing order)
fn align1(frags: &[R], r: R, coarse: bool) -> String {
    if r.0 == r.1 {
        return if frags.iter().any(|f| f.0 < r.0 && r.0 < f.1) {
            "zw-in".into()
        } else if frags.iter().any(|f| f.0 <= r.0 && r.0 <= f.1) {
            "zw-edge".into()
        } else {
            "zw-out".into()
        };
    }
    match split(frags, r) {
        Some(p) if p.len() == 1 => {
            if coarse {
                return "in".into();
            }
            let f = frags[p[0].0];
            if r == f {
                "eq".into()
            } else if r.0 == f.0 {
                "in-b".into()
            } else if r.1 == f.1 {
                "in-e".into()
            } else {
                "in-m".into()
            }
        }
        Some(p) => {
            let fwd = p.windows(2).all(|w| w[0].0 < w[1].0);
            format!("span{}-{}", p.len(), if fwd { "fwd" } else { "rev" })
        }
        None => {
            let covered = |x: usize| frags.iter().any(|f| f.0 <= x && x < f.1);
            if !(r.0..r.1).any(covered) {
                "out".into()
            } else if coarse {
                "part".into()
            } else {
                format!(
                    "part-{}{}",
                    if covered(r.0) { 'c' } else { 'u' },
                    if covered(r.1 - 1) { 'c' } else { 'u' }
                )
            }
        }
    }
}

fn align(case: &Case) -> String {
    let frags = &case.world.sides[case.src_side].frags;
    match case.source.len() {
        1 => align1(frags, case.source[0], false),
        _ => {
            let cls: Vec<String> = case.source.iter().map(|r| align1(frags, *r, true)).collect();
            let (a, b) = (case.source[0], case.source[1]);
            let rel = if a.1 <= b.0 {
                "asc"
            } else if b.1 <= a.0 {
                "desc"
            } else {
                "ovl"
            };
            format!("{}:{}", cls.join(","), rel)
        }
    }
}

fn shape(case: &Case) -> String {
    let w = &case.world;
    let n = w.sides.len();
    if w.simple {
        return format!("simple{}", n);
    }
    let frags = &w.sides[case.src_side].frags;
    let k = frags.len();
    if k == 1 {
        format!("complex{}k1", n)
    } else {
        let sorted = frags.windows(2).all(|w| w[0].0 < w[1].0);
        format!("complex{}k{}{}", n, k, if sorted { "s" } else { "u" })
    }
}

fn err_code(msg: &str) -> String {
    let table = [
        ("Not all source fragments were found", "not-all-found"),
        ("source side could not be identified", "no-source-side"),
        ("source side has 0 fragments", "zero-fragments"),
        ("were covered by the simple transposition", "simple-not-covered"),
        ("Expected existing source annotation", "expected-existing-source"),
        ("Expected two sides", "fewer-than-two-sides"),
        ("is not a valid transposition", "via-invalid"),
        ("references no text or text in multiple resources", "source-no-text"),
    ];
    for (pat, code) in table {
        if msg.contains(pat) {
            return code.to_string();
        }
    }
    // any other error: the variant name (text before the first colon), without blanks
    let m = msg.strip_prefix("[StamError] ").unwrap_or(msg);
    let head = m.split(':').next().unwrap_or(m);
    let mut c: String = msg_class(head).chars().map(|ch| if ch.is_whitespace() { '_' } else { ch }).collect();
    if c.len() > 48 {
        let mut cut = 48;
        while !c.is_char_boundary(cut) {
            cut -= 1;
        }
        c.truncate(cut);
    }
    c
}

/// panic messages carry no blanks in signatures either
fn panic_code(msg: &str) -> String {
    let mut c: String = msg_class(msg).chars().map(|ch| if ch.is_whitespace() { '_' } else { ch }).collect();
    if c.len() > 80 {
        let mut cut = 80;
        while !c.is_char_boundary(cut) {
            cut -= 1;
        }
        c.truncate(cut);
    }
    c
}

// ------------------------------------------------------------------------------------------------
// evaluation of one case on the real library
// ------------------------------------------------------------------------------------------------

fn rid(i: usize) -> String {
    format!("r{}", i)
}

fn tsel_builder(res: &str, r: R) -> SelectorBuilder<'static> {
    SelectorBuilder::textselector(res.to_string(), Offset::simple(r.0, r.1))
}

fn target_builder(res: &str, rs: &[R]) -> SelectorBuilder<'static> {
    if rs.len() == 1 {
        tsel_builder(res, rs[0])
    } else {
        SelectorBuilder::DirectionalSelector(rs.iter().map(|r| tsel_builder(res, *r)).collect())
    }
}

fn build_store(w: &World) -> Result<AnnotationStore, StamError> {
    let mut store = AnnotationStore::new(Config::default());
    for (i, s) in w.sides.iter().enumerate() {
        store.add_resource(TextResourceBuilder::new().with_id(rid(i)).with_text(s.text.clone()))?;
    }
    let n = w.sides.len();
    if w.simple {
        let sels: Vec<SelectorBuilder<'static>> =
            w.sides.iter().enumerate().map(|(i, s)| tsel_builder(&rid(i), s.frags[0])).collect();
        store.annotate(
            AnnotationBuilder::new()
                .with_id("VIA")
                .with_target(SelectorBuilder::DirectionalSelector(sels))
                .with_data(TSET, "Transposition", DataValue::Null),
        )?;
    } else {
        for (i, s) in w.sides.iter().enumerate() {
            store.annotate(AnnotationBuilder::new().with_id(format!("A{}", i)).with_target(target_builder(&rid(i), &s.frags)))?;
        }
        let sels: Vec<SelectorBuilder<'static>> =
            (0..n).map(|i| SelectorBuilder::annotationselector(format!("A{}", i), None)).collect();
        store.annotate(
            AnnotationBuilder::new()
                .with_id("VIA")
                .with_target(SelectorBuilder::DirectionalSelector(sels))
                .with_data(TSET, "Transposition", DataValue::Null),
        )?;
    }
    Ok(store)
}

#[derive(Clone, Debug)]
struct Piece {
    res: String,
    r: R,
    text: String,
}

#[derive(Clone, Debug)]
struct Ann {
    handle: AnnotationHandle,
    id: Option<String>,
    /// 0 = none, 1 = Transposition, 2 = Resegmentation
    marker: u8,
    pieces: Vec<Piece>,
    subs: Vec<AnnotationHandle>,
    joined: String,
}

fn inspect(store: &AnnotationStore, h: AnnotationHandle) -> Option<Ann> {
    let a = store.annotation(h)?;
    let mut marker = 0;
    for d in a.data() {
        if d.set().id() == Some(TSET) {
            match d.key().id() {
                Some("Transposition") => marker = 1,
                Some("Resegmentation") => marker = 2,
                _ => {}
            }
        }
    }
    let pieces: Vec<Piece> = a
        .textselections()
        .map(|t| Piece { res: t.resource().id().unwrap_or("?").to_string(), r: (t.begin(), t.end()), text: t.text().to_string() })
        .collect();
    let subs: Vec<AnnotationHandle> = a.annotations_in_targets(AnnotationDepth::One).map(|x| x.handle()).collect();
    let joined = a.text_join("");
    Some(Ann { handle: h, id: a.id().map(|s| s.to_string()), marker, pieces, subs, joined })
}

#[derive(Default, Debug)]
pub struct Outcome {
    /// (symptom code, human detail)
    pub symptoms: Vec<(String, String)>,
    /// library calls made (transpose / annotate_from_iter)
    pub calls: u64,
    /// transpose returned Ok and all obligations of the success path were evaluated
    pub ok_path: bool,
    /// transpose returned Err
    pub rejected: bool,
    /// human-readable trace for replay
    pub trace: Vec<String>,
    pub verbose: bool,
}

impl Outcome {
    fn sym(&mut self, code: impl Into<String>, detail: impl Into<String>) {
        self.symptoms.push((code.into(), detail.into()));
    }
    fn note(&mut self, f: impl FnOnce() -> String) {
        if self.verbose {
            self.trace.push(f());
        }
    }
}

fn tconfig(case: &Case) -> TransposeConfig {
    let n = case.world.sides.len();
    let s = case.src_side;
    let c = &case.cfg;
    TransposeConfig {
        source_side: match c.side {
            SideMode::Auto => TranspositionSide::Auto,
            SideMode::Index => TranspositionSide::ByIndex(s),
            SideMode::WrongIndex => TranspositionSide::ByIndex((s + 1) % n),
        },
        allow_simple: c.allow_simple,
        no_transposition: c.no_transposition,
        no_resegmentation: c.no_resegmentation,
        transposition_id: Some("NT".to_string()),
        resegmentation_id: Some("NR".to_string()),
        source_side_id: match c.form {
            Form::TSetNewId => Some("S".to_string()),
            Form::TSetExisting => Some("src".to_string()),
            _ => None,
        },
        existing_source_side: c.form == Form::TSetExisting,
        target_side_ids: (0..n - 1).map(|j| format!("T{}", j)).collect(),
        debug: false,
    }
}

type TResult = Result<Result<Vec<AnnotationBuilder<'static>>, StamError>, String>;

fn tset_of<'s>(store: &'s AnnotationStore, res: &str, ranges: &[R]) -> Result<ResultTextSelectionSet<'s>, String> {
    let resource = store.resource(res).ok_or_else(|| "resource not found".to_string())?;
    let mut v = Vec::new();
    for r in ranges {
        v.push(resource.textselection(&Offset::simple(r.0, r.1)).map_err(|e| e.to_string())?);
    }
    Ok(v.into_iter().collect())
}

pub fn evaluate(case: &Case, verbose: bool) -> Outcome {
    let mut out = Outcome::default();
    out.verbose = verbose;
    let w = &case.world;
    let n = w.sides.len();
    let s = case.src_side;
    let cfg = &case.cfg;
    // --- build (harness side; a failure here is reported, never hidden)
    let mut store = match catch(|| build_store(w)) {
        Ok(Ok(st)) => st,
        Ok(Err(e)) => {
            out.sym("harness:build-failed", e.to_string());
            return out;
        }
        Err(p) => {
            out.sym("harness:build-panicked", p);
            return out;
        }
    };
    let mut src_handle: Option<AnnotationHandle> = None;
    if matches!(cfg.form, Form::AnnId | Form::AnnNoId | Form::TSetExisting) {
        let mut b = AnnotationBuilder::new().with_target(target_builder(&rid(s), &case.source));
        if cfg.form != Form::AnnNoId {
            b = b.with_id("src");
        }
        match catch(|| store.annotate(b)) {
            Ok(Ok(h)) => src_handle = Some(h),
            Ok(Err(e)) => {
                out.sym("harness:source-annotate-failed", e.to_string());
                return out;
            }
            Err(p) => {
                out.sym("harness:source-annotate-panicked", p);
                return out;
            }
        }
    }
    // full internal dump for the base configuration, item counts for all others
    let full_dump = *cfg == Cfg::BASE;
    let snapshot = |st: &AnnotationStore| -> String {
        if full_dump {
            st.verif_dump()
        } else {
            format!("{}/{}/{}", st.annotations_len(), st.resources_len(), st.datasets_len())
        }
    };
    let dump0 = snapshot(&store);
    // --- the call under test
    let res: TResult = {
        let st = &store;
        let tc = tconfig(case);
        match st.annotation("VIA") {
            None => Err("harness: VIA not found".to_string()),
            Some(via) => match cfg.form {
                Form::AnnId | Form::AnnNoId => match st.annotation(src_handle.unwrap()) {
                    Some(src) => catch(|| src.transpose(&via, tc)),
                    None => Err("harness: source annotation not found".to_string()),
                },
                _ => match catch(|| tset_of(st, &rid(s), &case.source)) {
                    Ok(Ok(tset)) => catch(|| tset.transpose(&via, tc)),
                    Ok(Err(e)) => Err(format!("harness: cannot select source: {}", e)),
                    Err(p) => Err(format!("harness: selecting source panicked: {}", p)),
                },
            },
        }
    };
    out.calls += 1;
    if snapshot(&store) != dump0 {
        out.sym("transpose-changed-store", "the store dump differs after transpose() although it takes &self");
    }
    let exp = expectation(case);
    let builders = match res {
        Err(p) => {
            out.note(|| format!("transpose panicked: {}", p));
            out.sym(format!("panic:{}", panic_code(&p)), format!("transpose panicked: {}", p));
            return out;
        }
        Ok(Err(e)) => {
            out.rejected = true;
            out.note(|| format!("transpose -> Err({})", e));
            if let Expect::Covered(p) = &exp {
                out.sym(
                    format!("covered-but-rejected:{}", err_code(&e.to_string())),
                    format!("every codepoint of the source lies in a fragment (pieces {:?}) but transpose failed: {}", p, e),
                );
            }
            return out;
        }
        Ok(Ok(b)) => b,
    };
    out.note(|| format!("transpose -> Ok({} builders)", builders.len()));
    if exp == Expect::Uncovered {
        out.sym(
            "uncovered-but-accepted",
            format!("part of the source lies outside the fragments of the searched side, yet transpose returned Ok with {} builders", builders.len()),
        );
        return out;
    }
    // --- add the returned annotations
    let handles = match catch(|| store.annotate_from_iter(builders)) {
        Err(p) => {
            out.calls += 1;
            out.sym(format!("annotate-panic:{}", panic_code(&p)), format!("annotate_from_iter panicked: {}", p));
            return out;
        }
        Ok(Err(e)) => {
            out.calls += 1;
            out.sym(format!("annotate-failed:{}", err_code(&e.to_string())), format!("annotate_from_iter failed: {}", e));
            return out;
        }
        Ok(Ok(h)) => h,
    };
    out.calls += 1;
    // --- inspect through the public API (may panic on broken offsets)
    let inspected = catch(|| {
        let anns: Vec<Option<Ann>> = handles.iter().map(|h| inspect(&store, *h)).collect();
        let mut subs: BTreeMap<usize, Ann> = BTreeMap::new();
        for a in anns.iter().flatten() {
            if a.marker == 1 {
                for h in &a.subs {
                    if let Some(x) = inspect(&store, *h) {
                        subs.insert(h.as_usize(), x);
                    }
                }
            }
        }
        (anns, subs)
    });
    let (anns, subs) = match inspected {
        Ok(x) => x,
        Err(p) => {
            out.sym(format!("inspect-panic:{}", panic_code(&p)), format!("reading the new annotations panicked: {}", p));
            return out;
        }
    };
    if anns.iter().any(|a| a.is_none()) {
        out.sym("returned-handle-dangling", "a handle returned by annotate_from_iter does not resolve");
        return out;
    }
    let anns: Vec<Ann> = anns.into_iter().flatten().collect();
    for a in &anns {
        out.note(|| {
            format!(
                "new annotation id={:?} marker={} pieces={:?} targets={:?}",
                a.id,
                a.marker,
                a.pieces.iter().map(|p| (p.res.as_str(), p.r, p.text.as_str())).collect::<Vec<_>>(),
                a.subs.iter().map(|h| h.as_usize()).collect::<Vec<_>>()
            )
        });
    }
    // sides of the result: (annotation handle if the side is an annotation, pieces, joined text)
    let mut sides: Vec<(Option<AnnotationHandle>, Vec<Piece>, String)> = Vec::new();
    let mut new_tr: Option<&Ann> = None;
    if !cfg.no_transposition {
        let trs: Vec<&Ann> = anns.iter().filter(|a| a.marker == 1).collect();
        if trs.len() != 1 || trs[0].id.as_deref() != Some("NT") {
            out.sym(
                "no-new-transposition",
                format!("expected exactly one new annotation marked Transposition with id NT, found {:?}", trs.iter().map(|a| a.id.clone()).collect::<Vec<_>>()),
            );
            return out;
        }
        let t = trs[0];
        new_tr = Some(t);
        if t.subs.is_empty() {
            for p in &t.pieces {
                sides.push((None, vec![p.clone()], p.text.clone()));
            }
        } else {
            for h in &t.subs {
                match subs.get(&h.as_usize()) {
                    Some(a) => sides.push((Some(*h), a.pieces.clone(), a.joined.clone())),
                    None => {
                        out.sym("side-unresolvable", "a side of the new transposition does not resolve");
                        return out;
                    }
                }
            }
        }
    } else {
        for a in anns.iter().filter(|a| a.marker == 0) {
            sides.push((Some(a.handle), a.pieces.clone(), a.joined.clone()));
        }
        if !sides.iter().any(|sd| sd.1.iter().all(|p| p.res == rid(s)) && !sd.1.is_empty()) {
            // no copy / resegmentation of the source was returned: the source itself is the source side
            let pieces: Vec<Piece> = case
                .source
                .iter()
                .map(|r| Piece { res: rid(s), r: *r, text: char_slice(&w.sides[s].text, r.0, r.1) })
                .collect();
            let joined = pieces.iter().map(|p| p.text.as_str()).collect::<String>();
            sides.push((None, pieces, joined));
        }
    }
    // one side per resource of the transposition that was used
    let mut by_side: Vec<Option<usize>> = vec![None; n];
    for (j, sd) in sides.iter().enumerate() {
        if sd.1.is_empty() {
            out.sym("side-without-text", format!("side #{} of the result selects no text", j));
            return out;
        }
        let res = sd.1[0].res.clone();
        if sd.1.iter().any(|p| p.res != res) {
            out.sym("side-mixed-resources", format!("side #{} of the result selects text in several resources", j));
            return out;
        }
        match (0..n).find(|i| rid(*i) == res) {
            Some(i) if by_side[i].is_none() => by_side[i] = Some(j),
            _ => {
                out.sym("sides-mismatch", format!("the result has two sides in resource {} (or a side in an unknown resource)", res));
                return out;
            }
        }
    }
    if by_side.iter().any(|x| x.is_none()) {
        out.sym(
            "sides-mismatch",
            format!("the result has no side in resource(s) {:?}", (0..n).filter(|i| by_side[*i].is_none()).map(rid).collect::<Vec<_>>()),
        );
        return out;
    }
    let src_pieces: Vec<Piece> = sides[by_side[s].unwrap()].1.clone();
    let src_ranges: Vec<R> = src_pieces.iter().map(|p| p.r).collect();
    let zw = exp == Expect::Unspecified;
    if zw {
        if src_ranges != case.source {
            out.sym("source-side-offsets", format!("source side of the result selects {:?}, the source was {:?}", src_ranges, case.source));
        }
    } else if flatten(&src_ranges) != flatten(&case.source) {
        out.sym(
            "source-side-offsets",
            format!("source side of the result selects {:?}, which does not cover the codepoints of the source {:?} in order", src_ranges, case.source),
        );
    }
    let source_side_ok = out.symptoms.is_empty();
    for t in 0..n {
        if t == s || !source_side_ok {
            continue; // the other sides are derived from the source side: one report per root cause
        }
        let tp = &sides[by_side[t].unwrap()].1;
        let tjoined = &sides[by_side[t].unwrap()].2;
        let sjoined = &sides[by_side[s].unwrap()].2;
        let before = out.symptoms.len();
        if tp.len() != src_pieces.len() {
            out.sym(
                "piece-count",
                format!("side {} has {} pieces {:?} but the source side has {} pieces {:?}", t, tp.len(), tp.iter().map(|p| p.r).collect::<Vec<_>>(), src_pieces.len(), src_ranges),
            );
        } else if let Some(j) = (0..tp.len()).find(|j| tp[*j].text != src_pieces[*j].text) {
            out.sym(
                "target-text",
                format!("piece #{} of side {} is {:?} {:?} but the source piece is {:?} {:?}", j, t, tp[j].r, tp[j].text, src_pieces[j].r, src_pieces[j].text),
            );
        }
        if out.symptoms.len() == before && tjoined != sjoined {
            out.sym("sides-text-differ", format!("text_join of side {} is {:?}, of the source side {:?}", t, tjoined, sjoined));
        }
        if out.symptoms.len() > before {
            continue; // one report per side: the text obligations come first, the offsets are derived
        }
        if let Expect::Covered(pieces) = &exp {
            let want = mapped_positions(w, s, t, pieces);
            let got = flatten(&tp.iter().map(|p| p.r).collect::<Vec<_>>());
            if want != got {
                out.sym(
                    "target-offsets",
                    format!("side {} selects codepoints {:?} ({:?}); the fragments map the source to codepoints {:?}", t, got, tp.iter().map(|p| p.r).collect::<Vec<_>>(), want),
                );
            }
        } else if zw && case.source.len() == 1 {
            // a zero-width source strictly inside a fragment has exactly one image
            let p = case.source[0].0;
            if let Some(i) = w.sides[s].frags.iter().position(|f| f.0 < p && p < f.1) {
                let q = w.sides[t].frags[i].0 + (p - w.sides[s].frags[i].0);
                let got: Vec<R> = tp.iter().map(|p| p.r).collect();
                if got != vec![(q, q)] {
                    out.sym("target-offsets", format!("side {} selects {:?}; the zero-width source at {} maps to ({},{})", t, got, p, q, q));
                }
            }
        }
    }
    out.ok_path = true;
    if !out.symptoms.is_empty() || zw {
        return out;
    }
    // --- transpose back over the new transposition
    if let Some(t_ann) = new_tr {
        let complex = !t_ann.subs.is_empty();
        for t in 0..n {
            if t == s {
                continue;
            }
            let (side_handle, side_pieces, _) = sides[by_side[t].unwrap()].clone();
            let tc = TransposeConfig {
                transposition_id: Some(format!("BT{}", t)),
                resegmentation_id: Some(format!("BR{}", t)),
                target_side_ids: (0..n - 1).map(|j| format!("B{}x{}", t, j)).collect(),
                ..Default::default()
            };
            let res: TResult = {
                let st = &store;
                match st.annotation("NT") {
                    None => Err("harness: NT not found".to_string()),
                    Some(via2) => {
                        if complex {
                            match st.annotation(side_handle.unwrap()) {
                                Some(src) => catch(|| src.transpose(&via2, tc)),
                                None => Err("harness: side annotation not found".to_string()),
                            }
                        } else {
                            let rs: Vec<R> = side_pieces.iter().map(|p| p.r).collect();
                            match catch(|| tset_of(st, &rid(t), &rs)) {
                                Ok(Ok(tset)) => catch(|| tset.transpose(&via2, tc)),
                                Ok(Err(e)) => Err(format!("harness: cannot select: {}", e)),
                                Err(p) => Err(format!("harness: selecting panicked: {}", p)),
                            }
                        }
                    }
                }
            };
            out.calls += 1;
            let b = match res {
                Err(p) => {
                    out.sym(format!("back-panic:{}", panic_code(&p)), format!("transposing side {} back over NT panicked: {}", t, p));
                    continue;
                }
                Ok(Err(e)) => {
                    out.sym(format!("back-rejected:{}", err_code(&e.to_string())), format!("transposing side {} {:?} back over NT failed: {}", t, side_pieces.iter().map(|p| p.r).collect::<Vec<_>>(), e));
                    continue;
                }
                Ok(Ok(b)) => b,
            };
            out.calls += 1;
            let hs = match catch(|| store.annotate_from_iter(b)) {
                Err(p) => {
                    out.sym(format!("back-annotate-panic:{}", panic_code(&p)), format!("adding the back-transposed annotations panicked: {}", p));
                    continue;
                }
                Ok(Err(e)) => {
                    out.sym(format!("back-annotate-failed:{}", err_code(&e.to_string())), format!("adding the back-transposed annotations failed: {}", e));
                    continue;
                }
                Ok(Ok(h)) => h,
            };
            let back = catch(|| hs.iter().filter_map(|h| inspect(&store, *h)).collect::<Vec<Ann>>());
            let back = match back {
                Ok(b) => b,
                Err(p) => {
                    out.sym(format!("back-inspect-panic:{}", panic_code(&p)), format!("reading the back-transposed annotations panicked: {}", p));
                    continue;
                }
            };
            let in_src: Vec<Vec<R>> = back
                .iter()
                .filter(|a| a.marker == 0 && !a.pieces.is_empty() && a.pieces.iter().all(|p| p.res == rid(s)))
                .map(|a| a.pieces.iter().map(|p| p.r).collect())
                .collect();
            out.note(|| format!("back-transposition of side {}: annotations in {} select {:?}", t, rid(s), in_src));
            // with overlapping source ranges the new transposition has overlapping fragments and the
            // segmentation of the way back is not determined: compare as codepoint sequences then
            let disjoint = case.source.iter().enumerate().all(|(i, a)| case.source.iter().skip(i + 1).all(|b| a.1 <= b.0 || b.1 <= a.0));
            let same = in_src.len() == 1 && if disjoint { in_src[0] == src_ranges } else { flatten(&in_src[0]) == flatten(&src_ranges) };
            if !same {
                out.sym(
                    "back-offsets",
                    format!("transposing side {} back over NT gives {:?} in {}, the original offsets are {:?}", t, in_src, rid(s), src_ranges),
                );
            }
        }
    }
    out
}

// ------------------------------------------------------------------------------------------------
// minimisation of failing cases
// ------------------------------------------------------------------------------------------------

fn candidates(case: &Case) -> Vec<Case> {
    let mut v = Vec::new();
    let w = &case.world;
    let n = w.sides.len();
    // drop a source range
    if case.source.len() > 1 {
        for j in 0..case.source.len() {
            let mut c = case.clone();
            c.source.remove(j);
            v.push(c);
        }
    }
    // simplify the configuration
    let cfg = case.cfg;
    if cfg.form != Form::AnnId {
        v.push(Case { cfg: Cfg { form: Form::AnnId, ..cfg }, ..case.clone() });
    }
    if cfg.allow_simple {
        v.push(Case { cfg: Cfg { allow_simple: false, ..cfg }, ..case.clone() });
    }
    if cfg.no_transposition {
        v.push(Case { cfg: Cfg { no_transposition: false, ..cfg }, ..case.clone() });
    }
    if cfg.no_resegmentation {
        v.push(Case { cfg: Cfg { no_resegmentation: false, ..cfg }, ..case.clone() });
    }
    if cfg.side == SideMode::Index {
        v.push(Case { cfg: Cfg { side: SideMode::Auto, ..cfg }, ..case.clone() });
    }
    // drop a side other than the source side
    if n > 2 {
        for j in (0..n).rev() {
            if j == case.src_side {
                continue;
            }
            let mut c = case.clone();
            c.world.sides.remove(j);
            if j < case.src_side {
                c.src_side -= 1;
            }
            v.push(c);
        }
    }
    // drop a fragment
    let k = w.sides[0].frags.len();
    if !w.simple && k > 1 {
        for i in 0..k {
            let mut c = case.clone();
            for sd in c.world.sides.iter_mut() {
                sd.frags.remove(i);
            }
            v.push(c);
        }
    }
    // shrink a source range by one codepoint at either end
    for j in 0..case.source.len() {
        let (b, e) = case.source[j];
        if e - b > 1 {
            for r in [(b, e - 1), (b + 1, e)] {
                let mut c = case.clone();
                c.source[j] = r;
                if c.source.len() == 2 && c.source[0] == c.source[1] {
                    continue;
                }
                v.push(c);
            }
        }
    }
    v
}

fn case_key(case: &Case, extra: &str) -> u128 {
    let mut b: Vec<u8> = Vec::with_capacity(96);
    b.push(case.world.simple as u8);
    b.push(case.world.sides.len() as u8);
    for sd in &case.world.sides {
        b.extend_from_slice(sd.text.as_bytes());
        b.push(0xff);
        for f in &sd.frags {
            b.push(f.0 as u8);
            b.push(f.1 as u8);
        }
        b.push(0xfe);
    }
    b.push(case.src_side as u8);
    for r in &case.source {
        b.push(r.0 as u8);
        b.push(r.1 as u8);
    }
    b.push(0xfd);
    let c = &case.cfg;
    b.push(FORMS.iter().position(|f| *f == c.form).unwrap() as u8);
    b.push(c.allow_simple as u8 | (c.no_transposition as u8) << 1 | (c.no_resegmentation as u8) << 2);
    b.push(SIDEMODES.iter().position(|f| *f == c.side).unwrap() as u8);
    b.extend_from_slice(extra.as_bytes());
    crate::util::key128(&b)
}

const SHARDS: usize = 256;

/// Memo tables used only while minimising failing cases (many failing cases shrink along the same path)
pub struct Caches {
    eval: Vec<Mutex<HashMap<u128, Arc<Vec<(String, String)>>>>>,
    mini: Vec<Mutex<HashMap<u128, Arc<(Case, String)>>>>,
}

impl Caches {
    pub fn new() -> Self {
        Caches {
            eval: (0..SHARDS).map(|_| Mutex::new(HashMap::new())).collect(),
            mini: (0..SHARDS).map(|_| Mutex::new(HashMap::new())).collect(),
        }
    }
    fn symptoms(&self, case: &Case, calls: &AtomicU64) -> Arc<Vec<(String, String)>> {
        let k = case_key(case, "");
        let shard = &self.eval[(k as usize) % SHARDS];
        if let Some(v) = shard.lock().unwrap().get(&k) {
            return v.clone();
        }
        let o = evaluate(case, false);
        calls.fetch_add(o.calls, Ordering::Relaxed);
        let v = Arc::new(o.symptoms);
        shard.lock().unwrap().insert(k, v.clone());
        v
    }
}

/// Greedy minimisation: apply the first simplification under which the same symptom persists, repeat.
fn minimise(case: &Case, symptom: &str, detail: &str, caches: &Caches, calls: &AtomicU64) -> Arc<(Case, String)> {
    let mut cur = case.clone();
    let mut detail = detail.to_string();
    let mut path: Vec<u128> = Vec::new();
    let result: Arc<(Case, String)> = 'outer: loop {
        let k = case_key(&cur, symptom);
        if let Some(hit) = caches.mini[(k as usize) % SHARDS].lock().unwrap().get(&k) {
            break hit.clone();
        }
        path.push(k);
        for c in candidates(&cur) {
            let syms = caches.symptoms(&c, calls);
            if let Some((_, d)) = syms.iter().find(|(s, _)| s == symptom) {
                cur = c;
                detail = d.clone();
                continue 'outer;
            }
        }
        break Arc::new((cur, detail));
    };
    for k in path {
        caches.mini[(k as usize) % SHARDS].lock().unwrap().insert(k, result.clone());
    }
    result
}

fn signature(case: &Case, symptom: &str) -> String {
    if case.cfg.side == SideMode::WrongIndex {
        // the source does not lie in the named side at all: its alignment with the fragments is immaterial
        let w = &case.world;
        let sh = if w.simple { "simple" } else { "complex" };
        return format!("{}|any|{}|{}", sh, case.cfg.name(), symptom);
    }
    format!("{}|{}|{}|{}", shape(case), align(case), case.cfg.name(), symptom)
}

struct Stats {
    cases: AtomicU64,
    calls: AtomicU64,
    ok_path: AtomicU64,
    rejected: AtomicU64,
    failing: AtomicU64,
}

fn check_case(rep: &Reporter, case: &Case, stats: &Stats, caches: &Caches) {
    let o = evaluate(case, false);
    stats.cases.fetch_add(1, Ordering::Relaxed);
    stats.calls.fetch_add(o.calls, Ordering::Relaxed);
    if o.ok_path {
        stats.ok_path.fetch_add(1, Ordering::Relaxed);
    }
    if o.rejected {
        stats.rejected.fetch_add(1, Ordering::Relaxed);
    }
    if o.symptoms.is_empty() {
        return;
    }
    stats.failing.fetch_add(1, Ordering::Relaxed);
    for (sym, detail) in &o.symptoms {
        let m = minimise(case, sym, detail, caches, &stats.calls);
        let (min, d) = (&m.0, &m.1);
        let sig = signature(min, sym);
        rep.fail(&sig, min.ord(), || format!("{}: {}", min.describe(), d), || min.to_json());
    }
}

// ------------------------------------------------------------------------------------------------
// the enumerated space
// ------------------------------------------------------------------------------------------------

fn nonempty_ranges(len: usize) -> Vec<R> {
    let mut v = Vec::new();
    for b in 0..len {
        for e in b + 1..=len {
            v.push((b, e));
        }
    }
    v
}

/// all sets of k pairwise disjoint non-empty ranges within 0..len, in ascending textual order
fn disjoint_sets(len: usize, k: usize) -> Vec<Vec<R>> {
    fn rec(len: usize, k: usize, from: usize, cur: &mut Vec<R>, out: &mut Vec<Vec<R>>) {
        if cur.len() == k {
            out.push(cur.clone());
            return;
        }
        for b in from..len {
            for e in b + 1..=len {
                cur.push((b, e));
                rec(len, k, e, cur, out);
                cur.pop();
            }
        }
    }
    let mut out = Vec::new();
    rec(len, k, 0, &mut Vec::new(), &mut out);
    out
}

fn perms(k: usize) -> Vec<Vec<usize>> {
    fn rec(k: usize, cur: &mut Vec<usize>, out: &mut Vec<Vec<usize>>) {
        if cur.len() == k {
            out.push(cur.clone());
            return;
        }
        for i in 0..k {
            if !cur.contains(&i) {
                cur.push(i);
                rec(k, cur, out);
                cur.pop();
            }
        }
    }
    let mut out = Vec::new();
    rec(k, &mut Vec::new(), &mut out);
    out
}

/// Build a further side: the fragments (given by listing index) are laid out in positional order
/// `order`, each preceded by `gap` filler characters, plus `gap` trailing filler characters.
fn arrange(text0: &str, listing: &[R], order: &[usize], gap: usize, filler: char) -> Side {
    let mut text = String::new();
    let mut pos = 0usize;
    let mut frags = vec![(0, 0); listing.len()];
    for li in order {
        for _ in 0..gap {
            text.push(filler);
            pos += 1;
        }
        let f = listing[*li];
        let piece = char_slice(text0, f.0, f.1);
        let l = f.1 - f.0;
        text.push_str(&piece);
        frags[*li] = (pos, pos + l);
        pos += l;
    }
    for _ in 0..gap {
        text.push(filler);
    }
    Side { text, frags }
}

pub struct WorldSpace {
    pub text0: &'static str,
    pub maxk: usize,
    /// 3-sided worlds are built for fragment counts up to this
    pub maxk3: usize,
    pub gaps: &'static [usize],
    /// gap widths used for worlds with three fragments
    pub gaps_k3: &'static [usize],
    pub fillers: (char, char),
}

fn worlds(sp: &WorldSpace) -> Vec<World> {
    let len = sp.text0.chars().count();
    let mut out = Vec::new();
    for k in 1..=sp.maxk {
        for set in disjoint_sets(len, k) {
            for sigma in perms(k) {
                let listing: Vec<R> = sigma.iter().map(|i| set[*i]).collect();
                for pi in perms(k) {
                    for gap in if k >= 3 { sp.gaps_k3 } else { sp.gaps } {
                        let side0 = Side { text: sp.text0.to_string(), frags: listing.clone() };
                        let side1 = arrange(sp.text0, &listing, &pi, *gap, sp.fillers.0);
                        let rev: Vec<usize> = pi.iter().rev().copied().collect();
                        let side2 = arrange(sp.text0, &listing, &rev, 1 - *gap, sp.fillers.1);
                        let kinds: &[bool] = if k == 1 { &[true, false] } else { &[false] };
                        for simple in kinds {
                            out.push(World { simple: *simple, sides: vec![side0.clone(), side1.clone()] });
                            if k <= sp.maxk3 {
                                out.push(World { simple: *simple, sides: vec![side0.clone(), side1.clone(), side2.clone()] });
                            }
                        }
                    }
                }
            }
        }
    }
    out
}

/// configurations of the geometry sweep: the base configuration and every configuration that differs
/// from it in exactly one switch
fn cfgs_onestep() -> Vec<Cfg> {
    let b = Cfg::BASE;
    vec![
        b,
        Cfg { allow_simple: true, ..b },
        Cfg { no_transposition: true, ..b },
        Cfg { no_resegmentation: true, ..b },
        Cfg { form: Form::AnnNoId, ..b },
        Cfg { form: Form::TSet, ..b },
        Cfg { form: Form::TSetNewId, ..b },
        Cfg { form: Form::TSetExisting, ..b },
        Cfg { side: SideMode::Index, ..b },
        Cfg { side: SideMode::WrongIndex, ..b },
    ]
}

fn cfgs_pairs() -> Vec<Cfg> {
    let b = Cfg::BASE;
    vec![b, Cfg { form: Form::TSet, ..b }, Cfg { no_transposition: true, ..b }]
}

fn cfgs_all() -> Vec<Cfg> {
    let mut v = Vec::new();
    for form in FORMS {
        for allow_simple in [false, true] {
            for no_transposition in [false, true] {
                for no_resegmentation in [false, true] {
                    for side in SIDEMODES {
                        v.push(Cfg { form, allow_simple, no_transposition, no_resegmentation, side });
                    }
                }
            }
        }
    }
    v
}

struct Part {
    name: &'static str,
    space: WorldSpace,
    /// configurations applied to single-range sources
    cfg_single: Vec<Cfg>,
    /// configurations applied to two-range sources (side 0 only)
    cfg_pair: Vec<Cfg>,
    /// sources in the other sides (single ranges) as well
    other_sides: bool,
}

fn parts(tier: Tier) -> Vec<Part> {
    let b = Cfg::BASE;
    match tier {
        Tier::Quick => vec![
            Part {
                name: "geometry",
                space: WorldSpace { text0: "abcde", maxk: 3, maxk3: 2, gaps: &[0, 1], gaps_k3: &[0], fillers: ('-', '=') },
                cfg_single: cfgs_onestep(),
                cfg_pair: vec![b, Cfg { form: Form::TSet, ..b }],
                other_sides: true,
            },
            Part {
                name: "configuration",
                space: WorldSpace { text0: "abc", maxk: 2, maxk3: 2, gaps: &[1], gaps_k3: &[1], fillers: ('-', '=') },
                cfg_single: cfgs_all(),
                cfg_pair: cfgs_all(),
                other_sides: false,
            },
            Part {
                name: "multibyte",
                space: WorldSpace { text0: "a\u{e9}\u{1d11e}d", maxk: 2, maxk3: 0, gaps: &[1], gaps_k3: &[1], fillers: ('\u{2013}', '\u{df}') },
                cfg_single: vec![b, Cfg { form: Form::TSet, ..b }],
                cfg_pair: vec![b],
                other_sides: true,
            },
        ],
        Tier::Thorough => vec![
            Part {
                name: "geometry",
                space: WorldSpace { text0: "abcdef", maxk: 3, maxk3: 2, gaps: &[0, 1], gaps_k3: &[0, 1], fillers: ('-', '=') },
                cfg_single: cfgs_onestep(),
                cfg_pair: cfgs_pairs(),
                other_sides: true,
            },
            Part {
                name: "geometry-three-sided",
                space: WorldSpace { text0: "abcde", maxk: 3, maxk3: 3, gaps: &[0, 1], gaps_k3: &[0, 1], fillers: ('-', '=') },
                cfg_single: cfgs_onestep(),
                cfg_pair: cfgs_pairs(),
                other_sides: true,
            },
            Part {
                name: "configuration",
                space: WorldSpace { text0: "abcd", maxk: 2, maxk3: 2, gaps: &[0, 1], gaps_k3: &[0, 1], fillers: ('-', '=') },
                cfg_single: cfgs_all(),
                cfg_pair: cfgs_all(),
                other_sides: true,
            },
            Part {
                name: "multibyte",
                space: WorldSpace { text0: "a\u{e9}\u{1d11e}d\u{df}", maxk: 2, maxk3: 2, gaps: &[0, 1], gaps_k3: &[0, 1], fillers: ('\u{2013}', '\u{1f600}') },
                cfg_single: cfgs_onestep(),
                cfg_pair: cfgs_pairs(),
                other_sides: true,
            },
        ],
    }
}

/// all cases of one world
fn cases_of(world: &World, part: &Part) -> Vec<Case> {
    let mut v = Vec::new();
    let n = world.sides.len();
    for s in 0..n {
        if s > 0 && !part.other_sides {
            break;
        }
        let len = world.sides[s].text.chars().count();
        for source in crate::util::all_ranges(len) {
            for cfg in &part.cfg_single {
                v.push(Case { world: world.clone(), src_side: s, source: vec![source], cfg: *cfg });
            }
        }
        if s == 0 {
            let rs = nonempty_ranges(len);
            for a in &rs {
                for b in &rs {
                    if a == b {
                        continue;
                    }
                    for cfg in &part.cfg_pair {
                        v.push(Case { world: world.clone(), src_side: 0, source: vec![*a, *b], cfg: *cfg });
                    }
                }
            }
        }
    }
    v
}

/// Sources whose pieces lie in two resources (the source side's and another side's): such a source is never covered by one
/// side of the transposition, so the call must fail and change nothing - whatever part of it a single side would cover.
fn foreign_piece_family(rep: &Reporter, tier: Tier, stats: &Stats) -> u64 {
    let sp = WorldSpace { text0: "a\u{e9}cd", maxk: rep_tier_pick(tier, 1, 2), maxk3: 1, gaps: &[0, 1], gaps_k3: &[0], fillers: ('x', 'y') };
    let ws = worlds(&sp);
    let n = AtomicU64::new(0);
    ws.par_iter().enumerate().for_each(|(wi, w)| {
        for (fi, f0) in w.sides[0].frags.iter().enumerate() {
            for simple_first in [true, false] {
                for idless in [false, true] {
                    n.fetch_add(1, Ordering::Relaxed);
                    stats.cases.fetch_add(1, Ordering::Relaxed);
                    let f1 = w.sides[1].frags[fi];
                    let case = || json!({"foreign_piece": {"world": wi, "fragment": fi, "own_side_first": simple_first, "idless": idless, "simple": w.simple, "sides": w.sides.iter().map(|s| json!({"text": s.text, "frags": s.frags})).collect::<Vec<_>>()}});
                    let class = format!("{}|{}|{}", if w.simple { "simple" } else { "complex" }, if simple_first { "own-side-piece-first" } else { "foreign-piece-first" }, if idless { "AnnNoId" } else { "AnnId" });
                    let fail = |symptom: &str, detail: String| {
                        rep.fail(&format!("foreign-piece|{}|{}", class, symptom), wi as u64, || format!("sides {:?}: source = [{} {:?}, {} {:?}]: {}", w.sides.iter().map(|s| (&s.text, &s.frags)).collect::<Vec<_>>(), rid(0), f0, rid(1), f1, detail), case);
                    };
                    let mut store = match catch(|| build_store(w)) {
                        Ok(Ok(s)) => s,
                        _ => continue,
                    };
                    let parts = if simple_first { vec![tsel_builder(&rid(0), *f0), tsel_builder(&rid(1), f1)] } else { vec![tsel_builder(&rid(1), f1), tsel_builder(&rid(0), *f0)] };
                    let mut b = AnnotationBuilder::new().with_target(SelectorBuilder::DirectionalSelector(parts));
                    if !idless {
                        b = b.with_id("src");
                    }
                    let h = match catch(|| store.annotate(b)) {
                        Ok(Ok(h)) => h,
                        _ => continue,
                    };
                    let dump0 = store.verif_dump();
                    let tc = TransposeConfig { transposition_id: Some("NT".to_string()), resegmentation_id: Some("NR".to_string()), target_side_ids: vec!["T0".to_string(), "T1".to_string()], ..Default::default() };
                    let res = {
                        let st = &store;
                        let via = st.annotation("VIA").expect("VIA");
                        let src = st.annotation(h).expect("source");
                        catch(|| src.transpose(&via, tc).map(|b| b.len()))
                    };
                    stats.calls.fetch_add(1, Ordering::Relaxed);
                    match res {
                        Err(p) => fail(&format!("panic:{}", panic_code(&p)), format!("transpose panicked: {}", p)),
                        Ok(Ok(nb)) => fail("accepted", format!("transpose returned Ok with {} builders although one piece of the source lies in another resource than the rest", nb)),
                        Ok(Err(_)) => {
                            stats.rejected.fetch_add(1, Ordering::Relaxed);
                            if store.verif_dump() != dump0 {
                                fail("rejected-but-store-changed", "the store dump differs after the refused call".into());
                            }
                        }
                    }
                }
            }
        }
    });
    n.load(Ordering::Relaxed)
}

fn rep_tier_pick(tier: Tier, q: usize, t: usize) -> usize {
    match tier {
        Tier::Quick => q,
        Tier::Thorough => t,
    }
}

pub fn run(rep: &Reporter) -> Coverage {
    let stats = Stats {
        cases: AtomicU64::new(0),
        calls: AtomicU64::new(0),
        ok_path: AtomicU64::new(0),
        rejected: AtomicU64::new(0),
        failing: AtomicU64::new(0),
    };
    let mut space = Vec::new();
    let mut samples = Vec::new();
    let caches = Caches::new();
    for part in parts(rep.tier) {
        let ws = worlds(&part.space);
        let before = stats.cases.load(Ordering::Relaxed);
        ws.par_iter().for_each(|w| {
            for case in cases_of(w, &part) {
                check_case(rep, &case, &stats, &caches);
            }
        });
        let ncases = stats.cases.load(Ordering::Relaxed) - before;
        space.push(json!({
            "part": part.name,
            "source_text": part.space.text0,
            "fragments_per_side": format!("1..={}", part.space.maxk),
            "three_sided_up_to_fragments": part.space.maxk3,
            "gap_widths_in_target": part.space.gaps,
            "gap_widths_in_target_three_fragments": part.space.gaps_k3,
            "worlds": ws.len(),
            "configurations_single_range": part.cfg_single.len(),
            "configurations_two_ranges": part.cfg_pair.len(),
            "sources_in_other_sides": part.other_sides,
            "cases": ncases,
        }));
        if let Some(w) = ws.get(ws.len() / 2) {
            let cs = cases_of(w, &part);
            samples.push(cs[cs.len() / 3].to_json());
            samples.push(cs[cs.len() - 1].to_json());
        }
        eprintln!(
            "C16 part {}: {} worlds, {} cases, t={:.1}s (so far: {} accepted+checked, {} rejected, {} with symptoms)",
            part.name,
            ws.len(),
            ncases,
            rep.elapsed(),
            stats.ok_path.load(Ordering::Relaxed),
            stats.rejected.load(Ordering::Relaxed),
            stats.failing.load(Ordering::Relaxed)
        );
    }
    let nforeign = foreign_piece_family(rep, rep.tier, &stats);
    space.push(json!({"part": "foreign-piece", "cases": nforeign, "what": "source annotation = one fragment of side 0 + the corresponding fragment of side 1 (another resource), either order, with and without id"}));
    let mut cov = Coverage::default();
    cov.states = stats.cases.load(Ordering::Relaxed);
    cov.transitions = stats.calls.load(Ordering::Relaxed);
    cov.evaluations = cov.transitions;
    cov.traces_validated = cov.states;
    cov.distinct_nontrivial = stats.ok_path.load(Ordering::Relaxed);
    cov.rule = "world = source text x every set of 1..k pairwise disjoint non-empty fragments x every listing order x every positional order of the fragments in the second text x gap width (filler characters around the fragments) x {2,3} sides x {simple (k=1), complex}; case = world x source side x every range [b,e) of that side's text (side 0 also: every ordered pair of distinct non-empty ranges) x configuration (form of the source x allow_simple x no_transposition x no_resegmentation x source_side mode); foreign-piece family: a source annotation made of one fragment of side 0 and the corresponding fragment of side 1 (two resources) must be refused and leave the store unchanged; states = cases, transitions = calls of transpose / annotate_from_iter (including those made while minimising failing cases); non-trivial = cases in which transpose returned Ok on a source that the oracle does not call uncovered, so that the resource / piecewise text / offset / identical-sides obligations were evaluated on the stored result (and, when these hold, the back-transposition)".into();
    cov.samples = samples;
    cov.exhaustive = true;
    cov.extra.insert("space".into(), Value::Array(space));
    cov.extra.insert("cases_rejected_by_transpose".into(), json!(stats.rejected.load(Ordering::Relaxed)));
    cov.extra.insert("cases_with_symptoms".into(), json!(stats.failing.load(Ordering::Relaxed)));
    cov.assumptions = vec![
        "fragments of one side are pairwise disjoint and non-empty, every side lies in its own resource; 'covered' = every codepoint of every source range lies in a fragment of the source side".into(),
        "a covered source must be accepted (rustdoc of Transposable::transpose: 'any annotations within the bounds of such a mapping can then be transposed'); an uncovered one must be rejected (property statement)".into(),
        "TranspositionSide::ByIndex naming a side in another resource counts as 'not covered'".into(),
        "zero-width sources: acceptance/rejection is unspecified; only the obligations on a successful result are checked".into(),
        "'store unchanged' is compared on the full internal dump (verif_dump) for the base configuration and on the item counts for the other configurations (transpose takes &self)".into(),
        "transposing back: exact offsets are required when the source ranges are pairwise disjoint; for overlapping source ranges (the new transposition then has overlapping fragments) the codepoint sequence must be the original one".into(),
        "the segmentation of a re-segmented source is not prescribed: source and target sides are compared as codepoint sequences in order, plus piece-by-piece text equality between the sides that were returned".into(),
        "whether a needless resegmentation annotation is produced, which ids copies get, and copying of annotation data are not checked".into(),
        "TransposeConfig::debug is left off (it only adds stderr output and an internal self-check)".into(),
    ];
    cov
}

/// Re-execute one recorded case without the sweep.
pub fn replay(rep: &Reporter, case: &Value) {
    if case.get("foreign_piece").is_some() {
        println!("replay C16 foreign-piece family: {}", case["foreign_piece"]);
        let stats = Stats { cases: AtomicU64::new(0), calls: AtomicU64::new(0), ok_path: AtomicU64::new(0), rejected: AtomicU64::new(0), failing: AtomicU64::new(0) };
        foreign_piece_family(rep, rep.tier, &stats);
        return;
    }
    let case = match Case::from_json(case) {
        Some(c) => c,
        None => {
            println!("replay C16: cannot parse case");
            return;
        }
    };
    println!("replay C16: {}", case.describe());
    println!("  oracle: {:?}", expectation(&case));
    let o = evaluate(&case, true);
    for t in &o.trace {
        println!("  {}", t);
    }
    if o.symptoms.is_empty() {
        println!("  no symptom: the case satisfies the property");
    }
    for (sym, detail) in &o.symptoms {
        println!("  SYMPTOM {}: {}", sym, detail);
        let sig = signature(&case, sym);
        rep.fail(&sig, case.ord(), || format!("{}: {}", case.describe(), detail), || case.to_json());
    }
}
