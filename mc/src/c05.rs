//! C05 — STAM JSON round trip preserves the whole model.
//! (1) every state of the history exploration, pretty and compact, in memory; stand-off (@include) files and one
//!     sub-store level for the states up to a shallower depth; (2) a value sweep over all DataValue types and
//!     awkward strings used as values and identifiers.

use crate::c01::plans;
use crate::hist::*;
use crate::ops::*;
use crate::report::{Coverage, Reporter};
use crate::ser::*;
use crate::util::{catch, msg_class};
use rayon::prelude::*;
use serde_json::{json, Value};
use stam::*;
use std::sync::atomic::{AtomicU64, Ordering};

pub struct C05 {
    pub roundtrips: AtomicU64,
    pub workdir: String,
    pub file_depth: usize,
}

fn report(rep: &Reporter, cfg: &str, f: RoundTripFail, store: &AnnotationStore, ord: u64, case: &dyn Fn() -> Value) {
    let feat = String::new();
    let _ = store_features(store);
    rep.fail(&format!("{}|{}{}", cfg, f.symptom, feat), ord, || f.detail.chars().take(900).collect(), case);
}

/// Render a JSON object with its members in the given order first (serde_json's Value sorts keys, but the
/// STAM JSON loader streams the document and needs resources/datasets before annotations and keys before data).
fn ordered_object(v: &Value, order: &[&str]) -> Option<String> {
    let obj = v.as_object()?;
    let mut parts: Vec<String> = Vec::new();
    for k in order {
        if let Some(x) = obj.get(*k) {
            parts.push(format!("{}: {}", serde_json::to_string(k).ok()?, serde_json::to_string_pretty(x).ok()?));
        }
    }
    for (k, x) in obj {
        if !order.contains(&k.as_str()) {
            parts.push(format!("{}: {}", serde_json::to_string(k).ok()?, serde_json::to_string_pretty(x).ok()?));
        }
    }
    Some(format!("{{\n{}\n}}", parts.join(",\n")))
}

/// Rewrite an inline STAM JSON document so that resources and datasets live in stand-off files in `dir`.
/// Returns the root document (text) and the number of stand-off members; None if the store has a shape this does not cover.
fn to_include_form(doc: &Value, dir: &str) -> Option<(String, usize)> {
    let mut root = doc.clone();
    let obj = root.as_object_mut()?;
    let mut members = 0;
    if let Some(resources) = obj.get_mut("resources").and_then(|r| r.as_array_mut()) {
        for r in resources.iter_mut() {
            let id = r.get("@id")?.as_str()?.to_string();
            let text = r.get("text")?.as_str()?.to_string();
            // a plain-text stand-off file takes its file name as the resource id
            std::fs::write(format!("{}/{}", dir, id), text).ok()?;
            *r = json!({"@type": "TextResource", "@include": id});
            members += 1;
        }
    }
    if let Some(sets) = obj.get_mut("annotationsets").and_then(|r| r.as_array_mut()) {
        for s in sets.iter_mut() {
            let id = s.get("@id")?.as_str()?.to_string();
            let fname = format!("{}.annotationset.stam.json", id);
            std::fs::write(format!("{}/{}", dir, fname), ordered_object(s, &["@type", "@id", "keys", "data"])?).ok()?;
            *s = json!({"@type": "AnnotationDataSet", "@id": id, "@include": fname});
            members += 1;
        }
    }
    Some((ordered_object(&root, &["@type", "@id", "resources", "annotationsets", "annotations"])?, members))
}

impl C05 {
    fn files_roundtrip(&self, rep: &Reporter, store: &AnnotationStore, ord: u64, case: &dyn Fn() -> Value) {
        // (a) hand-written stand-off layout -> load -> same model; (b) save it again -> stand-off members are kept -> reload -> same model
        let cfg = Config::default();
        let json = match store.to_json_string(&cfg) {
            Ok(j) => j,
            Err(_) => return, // reported by the in-memory round trip
        };
        let doc: Value = match serde_json::from_str(&json) {
            Ok(d) => d,
            Err(_) => return,
        };
        let dir = format!("{}/{:?}", self.workdir, std::thread::current().id()).replace(['(', ')'], "");
        let _ = std::fs::remove_dir_all(&dir);
        std::fs::create_dir_all(&dir).expect("workdir");
        let (root, members) = match to_include_form(&doc, &dir) {
            Some(r) => r,
            None => return,
        };
        let rootfile = format!("{}/root.store.stam.json", dir);
        std::fs::write(&rootfile, root).expect("write root");
        self.roundtrips.fetch_add(1, Ordering::Relaxed);
        let original = ser_abstract(store, true, true);
        let loaded = match catch(|| AnnotationStore::from_file(&rootfile, Config::default().with_use_include(true))) {
            Err(p) => {
                report(rep, "include-load", RoundTripFail { symptom: format!("load-panic:{}", msg_class(&p)), detail: String::new() }, store, ord, case);
                return;
            }
            Ok(Err(e)) => {
                report(rep, "include-load", RoundTripFail { symptom: format!("load-err:{}", err_class(&e)), detail: format!("{}", e) }, store, ord, case);
                return;
            }
            Ok(Ok(s)) => s,
        };
        if let Some((section, detail)) = diff_ser(&original, &ser_abstract(&loaded, true, true)) {
            report(rep, "include-load", RoundTripFail { symptom: format!("differs@{}:{}", section, diff_aspect(&detail)), detail }, store, ord, case);
            return;
        }
        // save under another name in the same directory; members keep their stand-off files
        let mut loaded = loaded;
        let out = format!("{}/out.store.stam.json", dir);
        match catch(|| loaded.to_file(&out)) {
            Err(p) => {
                report(rep, "include-save", RoundTripFail { symptom: format!("serialise-panic:{}", msg_class(&p)), detail: String::new() }, store, ord, case);
                return;
            }
            Ok(Err(e)) => {
                report(rep, "include-save", RoundTripFail { symptom: format!("serialise-err:{}", err_class(&e)), detail: format!("{}", e) }, store, ord, case);
                return;
            }
            Ok(Ok(())) => {}
        }
        let written = std::fs::read_to_string(&out).unwrap_or_default();
        let (nres, nset) = (members, 0);
        if written.matches("\"@include\"").count() != nres + nset {
            report(
                rep,
                "include-save",
                RoundTripFail { symptom: "standoff-members-not-kept".into(), detail: format!("{} @include entries written, {} members were stand-off", written.matches("\"@include\"").count(), nres + nset) },
                store,
                ord,
                case,
            );
            return;
        }
        match catch(|| AnnotationStore::from_file(&out, Config::default().with_use_include(true))) {
            Err(p) => report(rep, "include-reload", RoundTripFail { symptom: format!("load-panic:{}", msg_class(&p)), detail: String::new() }, store, ord, case),
            Ok(Err(e)) => report(rep, "include-reload", RoundTripFail { symptom: format!("load-err:{}", err_class(&e)), detail: format!("{}", e) }, store, ord, case),
            Ok(Ok(s2)) => {
                if let Some((section, detail)) = diff_ser(&original, &ser_abstract(&s2, true, true)) {
                    report(rep, "include-reload", RoundTripFail { symptom: format!("differs@{}:{}", section, diff_aspect(&detail)), detail }, store, ord, case);
                }
            }
        }
        // (c) the saved store is modified (each kind of change that touches a stand-off member, one at a time), saved again under
        //     the same name and reloaded: the files must follow the store
        let mods: Vec<(&str, Box<dyn Fn(&mut AnnotationStore) -> Option<Result<(), StamError>>>)> = vec![
            (
                "remove_data",
                Box::new(|s: &mut AnnotationStore| {
                    let (set, d) = s.datasets().find_map(|ds| ds.data().next().map(|d| (ds.handle(), d.handle())))?;
                    Some(s.remove_data(set, d, false))
                }),
            ),
            (
                "remove_key",
                Box::new(|s: &mut AnnotationStore| {
                    let (set, k) = s.datasets().find_map(|ds| ds.keys().next().map(|k| (ds.handle(), k.handle())))?;
                    Some(s.remove_key(set, k, false))
                }),
            ),
            (
                "annotate-new-data",
                Box::new(|s: &mut AnnotationStore| {
                    let rid = s.resources().next()?.id()?.to_string();
                    let sid = s.datasets().next()?.id()?.to_string();
                    Some(s.annotate(AnnotationBuilder::new().with_id("zz-new").with_target(SelectorBuilder::resourceselector(rid)).with_data(sid, "zz-key", "zz-value")).map(|_| ()))
                }),
            ),
        ];
        for (mname, modify) in mods {
            let mut st = match catch(|| AnnotationStore::from_file(&out, Config::default().with_use_include(true))) {
                Ok(Ok(s)) => s,
                _ => break,
            };
            // first save: everything is written and the members are marked unchanged
            if !matches!(catch(|| st.save()), Ok(Ok(()))) {
                break;
            }
            match catch(|| modify(&mut st)) {
                Ok(Some(Ok(()))) => {}
                _ => continue, // nothing to modify in this state, or the modification itself fails (C01/C02)
            }
            self.roundtrips.fetch_add(1, Ordering::Relaxed);
            let want = ser_abstract(&st, true, true);
            match catch(|| st.save()) {
                Ok(Ok(())) => {}
                Ok(Err(e)) => {
                    report(rep, &format!("include-modify:{}", mname), RoundTripFail { symptom: format!("serialise-err:{}", err_class(&e)), detail: format!("{}", e) }, store, ord, case);
                    continue;
                }
                Err(p) => {
                    report(rep, &format!("include-modify:{}", mname), RoundTripFail { symptom: format!("serialise-panic:{}", msg_class(&p)), detail: String::new() }, store, ord, case);
                    continue;
                }
            }
            match catch(|| AnnotationStore::from_file(&out, Config::default().with_use_include(true))) {
                Err(p) => report(rep, &format!("include-modify:{}", mname), RoundTripFail { symptom: format!("load-panic:{}", msg_class(&p)), detail: String::new() }, store, ord, case),
                Ok(Err(e)) => report(rep, &format!("include-modify:{}", mname), RoundTripFail { symptom: format!("load-err:{}", err_class(&e)), detail: format!("{}", e) }, store, ord, case),
                Ok(Ok(s3)) => {
                    if let Some((section, detail)) = diff_ser(&want, &ser_abstract(&s3, true, true)) {
                        report(rep, &format!("include-modify:{}", mname), RoundTripFail { symptom: format!("differs@{}:{}", section, diff_aspect(&detail)), detail }, store, ord, case);
                    }
                }
            }
        }
        if std::env::var("VERIF_KEEP_WORK").is_err() {
            let _ = std::fs::remove_dir_all(&dir);
        }
    }
}

impl Oracle for C05 {
    fn transition(&self, rep: &Reporter, t: &Trans) -> bool {
        if t.divergence.is_some() || !t.new_state {
            return true;
        }
        let case = || json!({"history": history_json(t.hist, Some(t.op))});
        let mut healthy = true;
        for (name, compact) in [("pretty", false), ("compact", true)] {
            self.roundtrips.fetch_add(1, Ordering::Relaxed);
            if let Some(f) = json_roundtrip(t.post, compact) {
                healthy = false;
                report(rep, name, f, t.post, t.ord, &case);
            }
        }
        if healthy && t.depth <= self.file_depth {
            self.files_roundtrip(rep, t.post, t.ord, &case);
        }
        // a state that cannot be serialised is still a legitimate state for deeper exploration
        true
    }
    fn needs_conformance(&self) -> bool {
        true
    }
}

// ---------------------------------------------------------------------------------------------
// value sweep (shared with C11 / C15)

pub fn awkward_strings() -> Vec<String> {
    let syms = ['a', '"', '\\', '/', '\n', '\t', '\u{1}', '\u{e9}', '\u{1f600}', ' ', ';', '|'];
    let mut v: Vec<String> = vec![String::new()];
    for a in syms {
        v.push(a.to_string());
        for b in syms {
            v.push(format!("{}{}", a, b));
        }
    }
    v
}

pub fn value_menu(with_nonfinite: bool) -> Vec<DataValue> {
    use chrono::DateTime;
    let dt = |s: &str| DataValue::Datetime(DateTime::parse_from_rfc3339(s).unwrap());
    let mut v = vec![
        DataValue::Null,
        DataValue::Bool(true),
        DataValue::Bool(false),
        DataValue::Int(0),
        DataValue::Int(-1),
        DataValue::Int(isize::MAX),
        DataValue::Int(isize::MIN),
        DataValue::Float(0.0),
        DataValue::Float(-0.0),
        DataValue::Float(1.5),
        DataValue::Float(1e300),
        DataValue::Float(5e-324),
        DataValue::Float(2.0),
        dt("2024-03-01T12:30:45+00:00"),
        dt("2024-03-01T12:30:45+01:00"),
        dt("2024-03-01T12:30:45-05:30"),
        dt("2024-03-01T12:30:45.250+01:00"),
        dt("1999-12-31T23:59:59.999999999+00:00"),
        DataValue::List(vec![]),
        DataValue::List(vec![DataValue::Int(1), DataValue::Int(2)]),
        DataValue::List(vec![DataValue::String("a".into()), DataValue::Int(2), DataValue::Null, DataValue::Bool(true), DataValue::Float(0.5)]),
        DataValue::List(vec![DataValue::List(vec![DataValue::Int(1)]), DataValue::List(vec![]), DataValue::String("x".into())]),
        DataValue::List(vec![dt("2024-03-01T12:30:45.5+02:00")]),
    ];
    if with_nonfinite {
        v.push(DataValue::Float(f64::NAN));
        v.push(DataValue::Float(f64::INFINITY));
        v.push(DataValue::Float(f64::NEG_INFINITY));
    }
    for s in awkward_strings() {
        v.push(DataValue::String(s));
    }
    v
}

pub fn value_class(v: &DataValue) -> String {
    match v {
        DataValue::String(s) => format!("String:{}", crate::c03::str_class(s)),
        DataValue::List(l) => format!("List[{}]", l.iter().map(value_class).collect::<Vec<_>>().join(",")),
        DataValue::Float(f) => {
            if f.is_nan() {
                "Float:nan".into()
            } else if f.is_infinite() {
                "Float:inf".into()
            } else if f.fract() == 0.0 {
                "Float:integral".into()
            } else {
                "Float".into()
            }
        }
        DataValue::Datetime(d) => {
            let frac = if d.timestamp_subsec_nanos() != 0 { ":subsec" } else { "" };
            let off = if d.offset().local_minus_utc() != 0 { ":offset" } else { "" };
            format!("Datetime{}{}", frac, off)
        }
        other => format!("{:?}", other).chars().take_while(|c| c.is_alphabetic()).collect(),
    }
}

/// store with one resource, one annotation carrying `value` under key `key` with data id `did` and annotation id `aid`
pub fn value_store(value: &DataValue, key: &str, did: Option<&str>, aid: Option<&str>) -> Result<AnnotationStore, String> {
    let mut store = AnnotationStore::new(Config::default());
    catch(|| -> Result<(), StamError> {
        store.add_resource(TextResourceBuilder::new().with_id("r0").with_text("ab cd"))?;
        let mut b = AnnotationBuilder::new().with_target(SelectorBuilder::textselector("r0", Offset::simple(0, 2)));
        if let Some(aid) = aid {
            b = b.with_id(aid.to_string());
        }
        b = match did {
            Some(did) => b.with_data_with_id("s0", key.to_string(), value.clone(), did.to_string()),
            None => b.with_data("s0", key.to_string(), value.clone()),
        };
        store.annotate(b)?;
        // a second annotation that targets the first by its id, so that ids with special characters are also references
        if let Some(aid) = aid {
            store.annotate(AnnotationBuilder::new().with_id("second").with_target(SelectorBuilder::annotationselector(aid.to_string(), None)))?;
        }
        Ok(())
    })
    .map_err(|p| format!("panic:{}", msg_class(&p)))?
    .map_err(|e| format!("err:{}", err_class(&e)))?;
    Ok(store)
}

pub fn run_value_sweep(rep: &Reporter, counter: &AtomicU64) -> u64 {
    let values = value_menu(false);
    let strings = awkward_strings();
    let mut cases: Vec<(String, DataValue, String, Option<String>, Option<String>)> = Vec::new();
    for v in &values {
        cases.push((format!("value|{}", value_class(v)), v.clone(), "k".into(), Some("D".into()), Some("A".into())));
    }
    for s in &strings {
        if s.is_empty() {
            continue;
        }
        let c = crate::c03::str_class(s);
        cases.push((format!("key-id|{}", c), DataValue::Int(1), s.clone(), Some("D".into()), Some("A".into())));
        cases.push((format!("data-id|{}", c), DataValue::Int(1), "k".into(), Some(s.clone()), Some("A".into())));
        cases.push((format!("annotation-id|{}", c), DataValue::Int(1), "k".into(), None, Some(s.clone())));
    }
    let n = cases.len() as u64;
    cases.par_iter().enumerate().for_each(|(i, (class, v, key, did, aid))| {
        let store = match value_store(v, key, did.as_deref(), aid.as_deref()) {
            Ok(s) => s,
            Err(_) => return, // the builder refused the id/value: not a round-trip matter
        };
        for (name, compact) in [("pretty", false), ("compact", true)] {
            counter.fetch_add(1, Ordering::Relaxed);
            if let Some(f) = json_roundtrip(&store, compact) {
                rep.fail(
                    &format!("sweep|{}|{}|{}", name, class, f.symptom),
                    (1 << 60) + i as u64,
                    || format!("value={:?} key={:?} data id={:?} annotation id={:?}: {}", v, key, did, aid, f.detail.chars().take(600).collect::<String>()),
                    || json!({"sweep": {"value": format!("{:?}", v), "key": key, "data_id": did, "annotation_id": aid, "index": i}}),
                );
            }
        }
    });
    n
}

// ---------------------------------------------------------------------------------------------
// sub-store family: one level of sub-stores (STAM JSON "@include" of an AnnotationStore), bounded-exhaustive over layouts

const ROOT_FILE: &str = "root.store.stam.json";
const SUB_FILE: &str = "sub.store.stam.json";
const RS_FILE: &str = "rs.txt";
const SS_FILE: &str = "ss.annotationset.stam.json";

/// how the sub-store gets attached to the root store
#[derive(Clone, Copy, Debug, PartialEq, Eq)]
pub enum Attach {
    /// hand-written root document with "@include": "sub.store.stam.json", loaded with from_file
    Include,
    /// root store built through the API, hand-written sub-store file attached with add_substore(file)
    Add,
    /// everything built through the API: add_new_substore(id, file) and associate_substore per item
    New,
}

/// where the sub-store's resource / dataset lives
#[derive(Clone, Copy, Debug, PartialEq, Eq)]
pub enum Place {
    /// inline in the sub-store file
    Inline,
    /// stand-off file @included by the sub-store
    Standoff,
    /// the same stand-off file is @included by the sub-store and by the root
    Shared,
}

#[derive(Clone, Debug, PartialEq, Eq)]
pub struct SubLayout {
    pub attach: Attach,
    /// the root's own resource and dataset come before the sub-store: (Include) they stand before "@include" in the root
    /// document; (Add / New) they and the root's first annotation are made before the sub-store is attached
    pub root_first: bool,
    pub res: Place,
    pub set: Place,
    /// root annotation R2 with a text selector on the sub-store's resource and data of the sub-store's dataset
    pub r2: bool,
    /// root annotation R3 that targets the sub-store annotation S1: 0 absent, 1 AnnotationSelector without offset, 2 with offset
    pub r3: u8,
    pub multibyte: bool,
    pub endaligned: bool,
    /// S2, R1, R2 and the data made by S2 and R3 carry no public identifier
    pub idless: bool,
    /// removal before the first save: 0 none, 1 the root annotation R1, 2 the sub-store annotation S2
    pub removal: u8,
}

impl SubLayout {
    fn attach_name(&self) -> &'static str {
        match (self.attach, self.root_first) {
            (Attach::Include, false) => "include",
            (Attach::Include, true) => "include-rootfirst",
            (Attach::Add, false) => "add",
            (Attach::Add, true) => "add-rootfirst",
            (Attach::New, false) => "new",
            (Attach::New, true) => "new-rootfirst",
        }
    }
    fn place_name(p: Place) -> &'static str {
        match p {
            Place::Inline => "inline",
            Place::Standoff => "standoff",
            Place::Shared => "shared",
        }
    }
    fn sig_prefix(&self) -> String {
        format!("substore|{}|res-{}|set-{}", self.attach_name(), Self::place_name(self.res), Self::place_name(self.set))
    }
    pub fn to_json(&self) -> Value {
        json!({
            "attach": match self.attach { Attach::Include => "include", Attach::Add => "add", Attach::New => "new" },
            "root_first": self.root_first,
            "res": Self::place_name(self.res),
            "set": Self::place_name(self.set),
            "r2": self.r2,
            "r3": (["none", "annotationselector", "annotationselector+offset"][self.r3 as usize % 3]),
            "multibyte": self.multibyte,
            "endaligned": self.endaligned,
            "idless": self.idless,
            "removal": (["none", "root-annotation", "substore-annotation"][self.removal as usize % 3]),
        })
    }
    pub fn from_json(v: &Value) -> Option<SubLayout> {
        let place = |s: &str| match s {
            "inline" => Some(Place::Inline),
            "standoff" => Some(Place::Standoff),
            "shared" => Some(Place::Shared),
            _ => None,
        };
        Some(SubLayout {
            attach: match v.get("attach")?.as_str()? {
                "include" => Attach::Include,
                "add" => Attach::Add,
                "new" => Attach::New,
                _ => return None,
            },
            root_first: v.get("root_first")?.as_bool()?,
            res: place(v.get("res")?.as_str()?)?,
            set: place(v.get("set")?.as_str()?)?,
            r2: v.get("r2")?.as_bool()?,
            r3: ["none", "annotationselector", "annotationselector+offset"].iter().position(|x| Some(*x) == v.get("r3").and_then(|x| x.as_str()))? as u8,
            multibyte: v.get("multibyte")?.as_bool()?,
            endaligned: v.get("endaligned")?.as_bool()?,
            idless: v.get("idless")?.as_bool()?,
            removal: ["none", "root-annotation", "substore-annotation"].iter().position(|x| Some(*x) == v.get("removal").and_then(|x| x.as_str()))? as u8,
        })
    }
    /// number of dimensions away from the plainest layout (orders the witnesses simplest-first)
    fn weight(&self) -> u64 {
        (self.attach != Attach::Include) as u64
            + self.root_first as u64
            + (self.res != Place::Inline) as u64
            + (self.res == Place::Shared) as u64
            + (self.set != Place::Inline) as u64
            + (self.set == Place::Shared) as u64
            + self.r2 as u64
            + self.r3 as u64
            + self.multibyte as u64
            + self.endaligned as u64
            + self.idless as u64
            + (self.removal != 0) as u64
    }
    /// the root's first annotation is made before the sub-store's annotations
    /// (never: a root document names its sub-stores before its own annotations, so the order between the annotations of
    /// different documents is not something the format records; only resources and datasets of the root come first)
    fn ann_root_first(&self) -> bool {
        false
    }
    fn rr_text(&self) -> &'static str {
        if self.multibyte { "r\u{f6}\u{f6}t t\u{eb}xt" } else { "root text" } // 9 characters
    }
    fn rs_text(&self) -> &'static str {
        if self.multibyte { "s\u{fc}b t\u{eb}x\u{20ac}" } else { "sub text" } // 8 characters
    }
}

/// the product of the dimensions, in a fixed order
pub fn substore_layouts() -> Vec<SubLayout> {
    let mut v = Vec::new();
    for (attach, root_first) in [(Attach::Include, false), (Attach::Include, true), (Attach::Add, false), (Attach::Add, true), (Attach::New, false), (Attach::New, true)] {
        for res in [Place::Inline, Place::Standoff, Place::Shared] {
            for set in [Place::Inline, Place::Standoff, Place::Shared] {
                // a store made from scratch through the API has no second document that could include the same file
                if attach == Attach::New && (res == Place::Shared || set == Place::Shared) {
                    continue;
                }
                for r2 in [false, true] {
                    for r3 in 0..3u8 {
                        for multibyte in [false, true] {
                            for endaligned in [false, true] {
                                // three text / offset flavours: plain, multi-byte, multi-byte with end-aligned offsets
                                if endaligned && !multibyte {
                                    continue;
                                }
                                for idless in [false, true] {
                                    // a stand-off dataset holding id-less data that two documents include is merged twice by the loader
                                    // (items without an id cannot be recognised as the same item): that is a matter of merging
                                    // hand-written documents, not of writing a store and reading it back
                                    if set == Place::Shared && idless {
                                        continue;
                                    }
                                    for removal in 0..3u8 {
                                        v.push(SubLayout { attach, root_first, res, set, r2, r3, multibyte, endaligned, idless, removal });
                                    }
                                }
                            }
                        }
                    }
                }
            }
        }
    }
    v
}

#[derive(Clone)]
enum SubTarget {
    Text { res: &'static str, b: Cursor, e: Cursor },
    Ann { ann: &'static str, off: Option<(Cursor, Cursor)> },
}

#[derive(Clone)]
struct SubData {
    set: &'static str,
    key: &'static str,
    id: Option<&'static str>,
    value: DataValue,
    /// the data item is in the set before the annotation is made (else the annotation makes it)
    predefined: bool,
}

#[derive(Clone)]
struct SubAnn {
    id: Option<&'static str>,
    /// belongs to the sub-store
    sub: bool,
    target: SubTarget,
    data: SubData,
}

/// the annotations of a layout in creation order
fn sub_annotations(l: &SubLayout) -> Vec<SubAnn> {
    use Cursor::{BeginAligned as B, EndAligned as E};
    let idl = |id: &'static str| if l.idless { None } else { Some(id) };
    let s1 = SubAnn {
        id: Some("S1"),
        sub: true,
        target: SubTarget::Text { res: "rs", b: B(0), e: B(3) },
        data: SubData { set: "ss", key: "ks", id: Some("DS1"), value: DataValue::String("v1".into()), predefined: true },
    };
    let s2 = SubAnn {
        id: idl("S2"),
        sub: true,
        target: if l.endaligned { SubTarget::Text { res: "rs", b: E(-4), e: E(0) } } else { SubTarget::Text { res: "rs", b: B(4), e: B(8) } },
        data: SubData { set: "ss", key: "ks", id: idl("DS2"), value: DataValue::Int(2), predefined: false },
    };
    let r1 = SubAnn {
        id: idl("R1"),
        sub: false,
        target: if l.endaligned { SubTarget::Text { res: "rr", b: E(-9), e: E(-5) } } else { SubTarget::Text { res: "rr", b: B(0), e: B(4) } },
        data: SubData { set: "sr", key: "kr", id: Some("DR"), value: DataValue::String("vr".into()), predefined: true },
    };
    let r2 = SubAnn {
        id: idl("R2"),
        sub: false,
        target: if l.endaligned { SubTarget::Text { res: "rs", b: E(-7), e: E(-5) } } else { SubTarget::Text { res: "rs", b: B(1), e: B(3) } },
        data: SubData { set: "ss", key: "ks", id: Some("DS1"), value: DataValue::String("v1".into()), predefined: true },
    };
    let r3 = SubAnn {
        id: Some("R3"),
        sub: false,
        target: SubTarget::Ann {
            ann: "S1",
            off: match (l.r3, l.endaligned) {
                (2, false) => Some((B(1), B(2))),
                (2, true) => Some((E(-2), E(-1))),
                _ => None,
            },
        },
        data: SubData { set: "sr", key: "kr", id: idl("DR3"), value: DataValue::Int(3), predefined: false },
    };
    let mut v = if l.ann_root_first() { vec![r1, s1, s2] } else { vec![s1, s2, r1] };
    if l.r2 {
        v.push(r2);
    }
    if l.r3 > 0 {
        v.push(r3);
    }
    v
}

/// creation-order index of the annotation a layout removes before saving
fn sub_removal_index(l: &SubLayout) -> Option<usize> {
    match (l.removal, l.ann_root_first()) {
        (1, false) => Some(2), // R1 after S1 S2
        (1, true) => Some(0),
        (2, false) => Some(1), // S2
        (2, true) => Some(2),
        _ => None,
    }
}

// hand-written JSON with the members in the order given (the loader streams the document)
fn jstr(s: &str) -> String {
    serde_json::to_string(s).unwrap_or_default()
}
fn jobj(members: &[(&str, String)]) -> String {
    format!("{{{}}}", members.iter().map(|(k, v)| format!("{}: {}", jstr(k), v)).collect::<Vec<_>>().join(", "))
}
fn jarr(items: &[String]) -> String {
    format!("[{}]", items.join(",\n  "))
}
fn jcursor(c: &Cursor) -> String {
    match c {
        Cursor::BeginAligned(n) => jobj(&[("@type", jstr("BeginAlignedCursor")), ("value", n.to_string())]),
        Cursor::EndAligned(n) => jobj(&[("@type", jstr("EndAlignedCursor")), ("value", n.to_string())]),
    }
}
fn joffset(b: &Cursor, e: &Cursor) -> String {
    jobj(&[("@type", jstr("Offset")), ("begin", jcursor(b)), ("end", jcursor(e))])
}
fn jvalue(v: &DataValue) -> String {
    match v {
        DataValue::String(s) => jobj(&[("@type", jstr("String")), ("value", jstr(s))]),
        DataValue::Int(i) => jobj(&[("@type", jstr("Int")), ("value", i.to_string())]),
        _ => jobj(&[("@type", jstr("Null"))]),
    }
}
fn jannotation(a: &SubAnn) -> String {
    let mut m: Vec<(&str, String)> = vec![("@type", jstr("Annotation"))];
    if let Some(id) = a.id {
        m.push(("@id", jstr(id)));
    }
    m.push((
        "target",
        match &a.target {
            SubTarget::Text { res, b, e } => jobj(&[("@type", jstr("TextSelector")), ("resource", jstr(res)), ("offset", joffset(b, e))]),
            SubTarget::Ann { ann, off: None } => jobj(&[("@type", jstr("AnnotationSelector")), ("annotation", jstr(ann))]),
            SubTarget::Ann { ann, off: Some((b, e)) } => jobj(&[("@type", jstr("AnnotationSelector")), ("annotation", jstr(ann)), ("offset", joffset(b, e))]),
        },
    ));
    // the data items are listed in their set (as the library writes them); an item without identifier is referenced by key and value
    let d = &a.data;
    m.push((
        "data",
        jarr(&[match d.id {
            Some(id) => jobj(&[("@type", jstr("AnnotationData")), ("@id", jstr(id)), ("set", jstr(d.set))]),
            None => jobj(&[("@type", jstr("AnnotationData")), ("set", jstr(d.set)), ("key", jstr(d.key)), ("value", jvalue(&d.value))]),
        }]),
    ));
    jobj(&m)
}
/// the full dataset document: its key and every data item of the given annotations that live in it (each once)
fn jdataset(set: &str, key: &str, anns: &[SubAnn]) -> String {
    let mut seen: Vec<(Option<&str>, String)> = Vec::new();
    let mut items: Vec<String> = Vec::new();
    for a in anns.iter().filter(|a| a.data.set == set) {
        let ident = (a.data.id, format!("{:?}", a.data.value));
        if seen.contains(&ident) {
            continue;
        }
        seen.push(ident);
        let mut m: Vec<(&str, String)> = vec![("@type", jstr("AnnotationData"))];
        if let Some(id) = a.data.id {
            m.push(("@id", jstr(id)));
        }
        m.push(("key", jstr(a.data.key)));
        m.push(("value", jvalue(&a.data.value)));
        items.push(jobj(&m));
    }
    jobj(&[
        ("@type", jstr("AnnotationDataSet")),
        ("@id", jstr(set)),
        ("keys", jarr(&[jobj(&[("@type", jstr("DataKey")), ("@id", jstr(key))])])),
        ("data", jarr(&items)),
    ])
}

/// writes the sub-store document (and its stand-off files) by hand
fn write_sub_files(l: &SubLayout, dir: &str, anns: &[SubAnn]) -> std::io::Result<()> {
    let res = match l.res {
        Place::Inline => jobj(&[("@type", jstr("TextResource")), ("@id", jstr("rs")), ("text", jstr(l.rs_text()))]),
        _ => {
            std::fs::write(format!("{}/{}", dir, RS_FILE), l.rs_text())?;
            jobj(&[("@type", jstr("TextResource")), ("@id", jstr("rs")), ("@include", jstr(RS_FILE))])
        }
    };
    // the sub-store's set holds S1's and S2's data (R2 only refers to S1's)
    let subanns: Vec<SubAnn> = anns.iter().filter(|a| a.sub).cloned().collect();
    let set = match l.set {
        Place::Inline => jdataset("ss", "ks", &subanns),
        _ => {
            std::fs::write(format!("{}/{}", dir, SS_FILE), jdataset("ss", "ks", &subanns))?;
            jobj(&[("@type", jstr("AnnotationDataSet")), ("@id", jstr("ss")), ("@include", jstr(SS_FILE))])
        }
    };
    let doc = jobj(&[
        ("@type", jstr("AnnotationStore")),
        ("@id", jstr("sub")),
        ("resources", jarr(&[res])),
        ("annotationsets", jarr(&[set])),
        ("annotations", jarr(&subanns.iter().map(jannotation).collect::<Vec<_>>())),
    ]);
    std::fs::write(format!("{}/{}", dir, SUB_FILE), doc)
}

/// writes the root document by hand: "@include" of the sub-store before (or, root first, after) the root's own resources
/// and datasets; the annotations last
fn write_root_file(l: &SubLayout, dir: &str, anns: &[SubAnn]) -> std::io::Result<()> {
    let mut resources = vec![jobj(&[("@type", jstr("TextResource")), ("@id", jstr("rr")), ("text", jstr(l.rr_text()))])];
    if l.res == Place::Shared {
        resources.push(jobj(&[("@type", jstr("TextResource")), ("@id", jstr("rs")), ("@include", jstr(RS_FILE))]));
    }
    let rootanns: Vec<SubAnn> = anns.iter().filter(|a| !a.sub).cloned().collect();
    let mut sets = vec![jdataset("sr", "kr", &rootanns)];
    if l.set == Place::Shared {
        sets.push(jobj(&[("@type", jstr("AnnotationDataSet")), ("@id", jstr("ss")), ("@include", jstr(SS_FILE))]));
    }
    let include = ("@include", jstr(SUB_FILE));
    let (resources, sets) = (("resources", jarr(&resources)), ("annotationsets", jarr(&sets)));
    let annotations = ("annotations", jarr(&rootanns.iter().map(jannotation).collect::<Vec<_>>()));
    let head = [("@type", jstr("AnnotationStore")), ("@id", jstr("root"))];
    let doc = if l.root_first {
        jobj(&[head[0].clone(), head[1].clone(), resources, sets, include, annotations])
    } else {
        jobj(&[head[0].clone(), head[1].clone(), include, resources, sets, annotations])
    };
    std::fs::write(format!("{}/{}", dir, ROOT_FILE), doc)
}

fn sub_builder(a: &SubAnn) -> AnnotationBuilder<'static> {
    let mut b = AnnotationBuilder::new();
    if let Some(id) = a.id {
        b = b.with_id(id);
    }
    b = b.with_target(match &a.target {
        SubTarget::Text { res, b, e } => SelectorBuilder::textselector(*res, Offset::new(*b, *e)),
        SubTarget::Ann { ann, off } => SelectorBuilder::annotationselector(*ann, off.map(|(b, e)| Offset::new(b, e))),
    });
    let d = &a.data;
    match (d.predefined, d.id) {
        (true, Some(id)) => b.with_existing_data(d.set, id),
        (_, Some(id)) => b.with_data_with_id(d.set, d.key, d.value.clone(), id),
        (_, None) => b.with_data(d.set, d.key, d.value.clone()),
    }
}

/// The reference: the same items made in the same order in one plain store without files and sub-stores.
fn sub_flat_store(l: &SubLayout, anns: &[SubAnn]) -> Result<AnnotationStore, StamError> {
    let mut store = AnnotationStore::new(Config::default()).with_id("root");
    let rr = |store: &mut AnnotationStore| -> Result<(), StamError> {
        store.add_resource(TextResourceBuilder::new().with_id("rr").with_text(l.rr_text()))?;
        store.add_dataset(AnnotationDataSetBuilder::new().with_id("sr").with_key_value_id("kr", "vr", "DR"))?;
        Ok(())
    };
    let rs = |store: &mut AnnotationStore| -> Result<(), StamError> {
        store.add_resource(TextResourceBuilder::new().with_id("rs").with_text(l.rs_text()))?;
        store.add_dataset(AnnotationDataSetBuilder::new().with_id("ss").with_key_value_id("ks", "v1", "DS1"))?;
        Ok(())
    };
    if l.root_first {
        rr(&mut store)?;
        rs(&mut store)?;
    } else {
        rs(&mut store)?;
        rr(&mut store)?;
    }
    for a in anns {
        store.annotate(sub_builder(a))?;
    }
    Ok(store)
}

/// Makes the store of a layout: writes the hand-written files into `dir` and loads / builds the store.
fn sub_make_store(l: &SubLayout, dir: &str, anns: &[SubAnn]) -> Result<AnnotationStore, StamError> {
    let io = |e: std::io::Error| StamError::IOError(e, dir.to_string(), "harness: writing the layout files");
    let rootpath = format!("{}/{}", dir, ROOT_FILE);
    let config = || Config::default().with_use_include(true);
    match l.attach {
        Attach::Include => {
            write_sub_files(l, dir, anns).map_err(io)?;
            write_root_file(l, dir, anns).map_err(io)?;
            AnnotationStore::from_file(&rootpath, config())
        }
        Attach::Add | Attach::New => {
            if l.attach == Attach::Add {
                write_sub_files(l, dir, anns).map_err(io)?;
            }
            let mut store = AnnotationStore::new(config()).with_id("root").with_filename(&rootpath);
            let root_items = |store: &mut AnnotationStore| -> Result<(), StamError> {
                store.add_resource(TextResourceBuilder::new().with_id("rr").with_text(l.rr_text()))?;
                store.add_dataset(AnnotationDataSetBuilder::new().with_id("sr").with_key_value_id("kr", "vr", "DR"))?;
                Ok(())
            };
            let attach = |store: &mut AnnotationStore| -> Result<(), StamError> {
                if l.attach == Attach::Add {
                    // the root includes the same stand-off files itself, before the sub-store comes in
                    if l.res == Place::Shared {
                        store.add_resource(TextResourceBuilder::new().with_id("rs").with_filename(RS_FILE))?;
                    }
                    if l.set == Place::Shared {
                        store.add_dataset(AnnotationDataSetBuilder::new().with_filename(SS_FILE))?;
                    }
                    store.add_substore(SUB_FILE)?;
                } else {
                    let sub = store.add_new_substore("sub", SUB_FILE)?;
                    let rs = match l.res {
                        Place::Inline => store.add_resource(TextResourceBuilder::new().with_id("rs").with_text(l.rs_text()))?,
                        _ => store.add_resource(TextResourceBuilder::new().with_id("rs").with_filename(RS_FILE).with_text(l.rs_text()))?,
                    };
                    <AnnotationStore as AssociateSubStore<TextResource>>::associate_substore(store, rs, sub)?;
                    let ss = match l.set {
                        Place::Inline => store.add_dataset(AnnotationDataSetBuilder::new().with_id("ss").with_key_value_id("ks", "v1", "DS1"))?,
                        // (the dataset builder drops the file name when an id is given)
                        _ => store.insert(AnnotationDataSet::new(Config::default()).with_id("ss").with_filename(SS_FILE).with_data_with_id("ks", "v1", "DS1")?)?,
                    };
                    <AnnotationStore as AssociateSubStore<AnnotationDataSet>>::associate_substore(store, ss, sub)?;
                    for a in anns.iter().filter(|a| a.sub) {
                        let h = store.annotate(sub_builder(a))?;
                        <AnnotationStore as AssociateSubStore<Annotation>>::associate_substore(store, h, sub)?;
                    }
                }
                Ok(())
            };
            let rootanns: Vec<&SubAnn> = anns.iter().filter(|a| !a.sub).collect();
            if l.root_first {
                root_items(&mut store)?;
                attach(&mut store)?;
                for a in &rootanns {
                    store.annotate(sub_builder(a))?;
                }
            } else {
                attach(&mut store)?;
                root_items(&mut store)?;
                for a in &rootanns {
                    store.annotate(sub_builder(a))?;
                }
            }
            Ok(store)
        }
    }
}

/// Order-insensitive form of the abstract rendering where the statement does not speak of an order: resources and
/// datasets as sets (keys and data keep their order within their set); annotations keep their order.
fn sub_norm(mut o: Vec<(String, String)>) -> Vec<(String, String)> {
    let rank = |s: &str| ["resource", "dataset", "key", "data", "annotation"].iter().position(|x| *x == s).unwrap_or(9);
    o.sort_by(|a, b| {
        rank(&a.0).cmp(&rank(&b.0)).then_with(|| match a.0.as_str() {
            "resource" | "dataset" => a.1.cmp(&b.1),
            "key" | "data" => a.1.split('/').next().cmp(&b.1.split('/').next()),
            _ => std::cmp::Ordering::Equal,
        })
    });
    o
}

/// Which items belong to which sub-store, and which to none. Annotations are named by id, else by rank among all live ones.
fn sub_membership(store: &AnnotationStore) -> Vec<String> {
    let live: Vec<usize> = store.annotations().map(|a| a.handle().as_usize()).collect();
    let aname = |a: &ResultItem<Annotation>| match a.id() {
        Some(id) => id.to_string(),
        None => format!("~A{}", live.iter().position(|h| *h == a.handle().as_usize()).unwrap_or(usize::MAX)),
    };
    let sorted = |mut v: Vec<String>| {
        v.sort();
        v.join(",")
    };
    let subname = |s: &ResultItem<AnnotationSubStore>| s.id().unwrap_or("<no id>").to_string();
    let mut o = Vec::new();
    o.push(format!("substores total={} top-level={}", store.substores_flatten().count(), store.substores().count()));
    for s in store.substores_flatten() {
        let file = s.as_ref().filename().map(|p| p.file_name().map(|f| f.to_string_lossy().to_string()).unwrap_or_default()).unwrap_or_else(|| "<no file>".into());
        let parents: Vec<String> = s.as_ref().parents().iter().map(|p| if p.is_none() { "root".to_string() } else { "substore".to_string() }).collect();
        o.push(format!("substore {} file={} parents=[{}]", subname(&s), file, parents.join(",")));
        o.push(format!("  {} annotations=[{}]", subname(&s), s.annotations().map(|a| aname(&a)).collect::<Vec<_>>().join(",")));
        o.push(format!("  {} resources=[{}]", subname(&s), sorted(s.resources().map(|r| r.id().unwrap_or("<no id>").to_string()).collect())));
        o.push(format!("  {} datasets=[{}]", subname(&s), sorted(s.datasets().map(|r| r.id().unwrap_or("<no id>").to_string()).collect())));
    }
    o.push(format!("root annotations=[{}]", store.annotations_no_substores().map(|a| aname(&a)).collect::<Vec<_>>().join(",")));
    o.push(format!("root resources=[{}]", sorted(store.resources_no_substores().map(|r| r.id().unwrap_or("<no id>").to_string()).collect())));
    o.push(format!("root datasets=[{}]", sorted(store.datasets_no_substores().map(|r| r.id().unwrap_or("<no id>").to_string()).collect())));
    // the reverse direction: what each item says about itself
    for a in store.annotations() {
        o.push(format!("annotation {} in {}", aname(&a), a.substore().map(|s| subname(&s)).unwrap_or_else(|| "root".into())));
    }
    for r in store.resources() {
        o.push(format!("resource {} in [{}]", r.id().unwrap_or("<no id>"), sorted(r.substores().map(|s| subname(&s)).collect())));
    }
    for d in store.datasets() {
        o.push(format!("dataset {} in [{}]", d.id().unwrap_or("<no id>"), sorted(d.substores().map(|s| subname(&s)).collect())));
    }
    // the last two groups follow the handle order of resources / datasets, which is not part of the statement
    let n = o.len();
    let k = store.resources().count() + store.datasets().count();
    o[n - k..].sort();
    o
}

/// membership a layout must have after loading / building (and after its removal): S* rs ss in "sub", the rest in none
fn sub_expected_membership(l: &SubLayout, anns: &[SubAnn]) -> Vec<String> {
    let removed = sub_removal_index(l);
    let live: Vec<&SubAnn> = anns.iter().enumerate().filter(|(i, _)| Some(*i) != removed).map(|(_, a)| a).collect();
    let name = |i: usize, a: &SubAnn| a.id.map(|s| s.to_string()).unwrap_or_else(|| format!("~A{}", i));
    let list = |sub: bool| live.iter().enumerate().filter(|(_, a)| a.sub == sub).map(|(i, a)| name(i, a)).collect::<Vec<_>>().join(",");
    let mut o = vec![
        "substores total=1 top-level=1".to_string(),
        format!("substore sub file={} parents=[root]", SUB_FILE),
        format!("  sub annotations=[{}]", list(true)),
        "  sub resources=[rs]".to_string(),
        "  sub datasets=[ss]".to_string(),
        format!("root annotations=[{}]", list(false)),
        "root resources=[rr]".to_string(),
        "root datasets=[sr]".to_string(),
    ];
    for (i, a) in live.iter().enumerate() {
        o.push(format!("annotation {} in {}", name(i, a), if a.sub { "sub" } else { "root" }));
    }
    let mut tail = vec!["resource rr in []".to_string(), "resource rs in [sub]".to_string(), "dataset sr in []".to_string(), "dataset ss in [sub]".to_string()];
    tail.sort();
    o.extend(tail);
    o
}

fn sub_first_diff(a: &[String], b: &[String]) -> Option<String> {
    let n = a.len().max(b.len());
    (0..n).find(|i| a.get(*i) != b.get(*i)).map(|i| format!("first {:?} second {:?}", a.get(i), b.get(i)))
}

/// class of a difference between two abstract renderings; a pure reordering of the annotations gets its own class
fn sub_diff(a: &[(String, String)], b: &[(String, String)]) -> Option<(String, String)> {
    let (section, detail) = diff_ser(a, b)?;
    if section == "annotation" {
        let lines = |x: &[(String, String)]| {
            let mut v: Vec<String> = x.iter().filter(|p| p.0 == "annotation").map(|p| p.1.clone()).collect();
            v.sort();
            v
        };
        if lines(a) == lines(b) {
            return Some(("differs@annotation:order".into(), detail));
        }
    }
    if section == "resource" || section == "dataset" {
        // compared as sets: say whether an item went missing, came in addition, or changed
        let names = |x: &[(String, String)]| -> Vec<String> { x.iter().filter(|p| p.0 == section).map(|p| p.1.split(' ').next().unwrap_or("").to_string()).collect() };
        let (na, nb) = (names(a), names(b));
        let aspect = if na.iter().any(|n| !nb.contains(n)) {
            "missing-item"
        } else if nb.iter().any(|n| !na.contains(n)) || nb.len() > na.len() {
            "extra-item"
        } else {
            "content"
        };
        let lines = |x: &[(String, String)]| -> Vec<String> { x.iter().filter(|p| p.0 == section).map(|p| p.1.clone()).collect() };
        return Some((format!("differs@{}:{}", section, aspect), format!("original {:?} reloaded {:?}", lines(a), lines(b))));
    }
    let aspect = diff_aspect(&detail);
    Some((format!("differs@{}:{}", section, aspect), detail))
}

/// all files below `dir` with their content
fn sub_snapshot(dir: &str) -> Vec<(String, Vec<u8>)> {
    let mut v: Vec<(String, Vec<u8>)> = Vec::new();
    if let Ok(rd) = std::fs::read_dir(dir) {
        for e in rd.flatten() {
            let name = e.file_name().to_string_lossy().to_string();
            if e.path().is_dir() {
                v.push((format!("{}/", name), Vec::new()));
            } else {
                v.push((name, std::fs::read(e.path()).unwrap_or_default()));
            }
        }
    }
    v.sort();
    v
}

fn sub_file_class(name: &str) -> &'static str {
    match name {
        ROOT_FILE => "root-store-file",
        SUB_FILE => "substore-file",
        RS_FILE => "resource-file",
        SS_FILE => "dataset-file",
        _ => "other-file",
    }
}

/// One layout: make the store, remove, observe, save, check the files, reload, compare, save again, compare the files.
/// Returns whether a save + reload was completed. `verbose` prints the steps (replay).
fn sub_run_layout(rep: &Reporter, l: &SubLayout, index: usize, dir: &str, verbose: bool) -> bool {
    let ord = (1u64 << 61) + l.weight() * 100_000 + index as u64;
    let case = || json!({"substore": l.to_json()});
    let prefix = l.sig_prefix();
    let fail = |symptom: String, detail: String| {
        if verbose {
            println!("  FAIL {} :: {}", symptom, detail);
        }
        rep.fail(&format!("{}|{}", prefix, symptom), ord, || detail.chars().take(900).collect(), case);
    };
    let class = |r: Result<Result<(), StamError>, String>, what: &str| -> Option<(String, String)> {
        match r {
            Err(p) => Some((format!("{}-panic:{}", what, msg_class(&p)), p)),
            Ok(Err(e)) => Some((format!("{}-err:{}", what, sub_err_class(&e, dir)), format!("{}", e))),
            Ok(Ok(())) => None,
        }
    };
    let anns = sub_annotations(l);
    let _ = std::fs::remove_dir_all(dir);
    std::fs::create_dir_all(dir).expect("layout dir");

    // 1. the store of the layout
    let mut store = match catch(|| sub_make_store(l, dir, &anns)) {
        Err(p) => {
            fail(format!("initial-panic:{}", msg_class(&p)), p);
            return false;
        }
        Ok(Err(e)) => {
            // Include: the hand-written documents do not load; Add / New: an API call (or add_substore of the hand-written sub-store) fails
            fail(format!("{}:{}", if l.attach == Attach::Include { "handwritten-load-err" } else { "build-err" }, sub_err_class(&e, dir)), format!("{}", e));
            return false;
        }
        Ok(Ok(s)) => s,
    };
    let removed = sub_removal_index(l);
    if let Some(i) = removed {
        if let Some((s, d)) = class(catch(|| store.remove_annotation(AnnotationHandle::new(i))), "remove") {
            fail(s, d);
            return false;
        }
    }
    let observe = |s: &AnnotationStore| catch(|| (sub_norm(ser_abstract(s, true, true)), sub_membership(s)));
    let (abs1, mem1) = match observe(&store) {
        Ok(x) => x,
        Err(p) => {
            fail(format!("observation-panic:{}", msg_class(&p)), p);
            return false;
        }
    };
    if verbose {
        println!("  store of the layout:");
        for (s, line) in &abs1 {
            println!("    {:<10} {}", s, line);
        }
        for line in &mem1 {
            println!("    {}", line);
        }
    }
    // the layout's store against the same items in a plain store, and against the membership the layout defines
    match catch(|| -> Result<Vec<(String, String)>, StamError> {
        let mut flat = sub_flat_store(l, &anns)?;
        if let Some(i) = removed {
            flat.remove_annotation(AnnotationHandle::new(i))?;
        }
        Ok(sub_norm(ser_abstract(&flat, true, true)))
    }) {
        Ok(Ok(expected)) => {
            if let Some((symptom, detail)) = sub_diff(&expected, &abs1) {
                fail(format!("initial-{}", symptom), format!("plain store vs layout store: {}", detail));
            }
        }
        Ok(Err(e)) => fail(format!("harness-reference-err:{}", err_class(&e)), format!("{}", e)),
        Err(p) => fail(format!("harness-reference-panic:{}", msg_class(&p)), p),
    }
    if let Some(d) = sub_first_diff(&sub_expected_membership(l, &anns), &mem1) {
        fail("initial-substore-membership-differs".into(), format!("expected vs layout store: {}", d));
    }

    // 2. save (the store files of the layout are taken away first: the save has to produce them), check the files, reload
    let rootpath = format!("{}/{}", dir, ROOT_FILE);
    let subpath = format!("{}/{}", dir, SUB_FILE);
    let _ = std::fs::remove_file(&rootpath);
    let _ = std::fs::remove_file(&subpath);
    if let Some((s, d)) = class(catch(|| store.save()), "save") {
        fail(s, d);
        return false;
    }
    let files1 = sub_snapshot(dir);
    if verbose {
        for (name, content) in &files1 {
            println!("  --- written: {} ---\n{}", name, String::from_utf8_lossy(content));
        }
    }
    let doc = |path: &str| std::fs::read_to_string(path).ok().and_then(|t| serde_json::from_str::<Value>(&t).ok());
    let rootdoc = match doc(&rootpath) {
        Some(d) => d,
        None => {
            fail("root-file-not-written".into(), format!("files in the directory: {:?}", files1.iter().map(|f| &f.0).collect::<Vec<_>>()));
            return false;
        }
    };
    let includes: Vec<String> = match rootdoc.get("@include") {
        Some(Value::String(s)) => vec![s.clone()],
        Some(Value::Array(v)) => v.iter().filter_map(|x| x.as_str().map(|s| s.to_string())).collect(),
        _ => vec![],
    };
    let included = includes.iter().any(|f| f.rsplit('/').next() == Some(SUB_FILE));
    if !included {
        fail("substore-inlined".into(), format!("the root file has \"@include\": {:?}", rootdoc.get("@include")));
    } else if doc(&subpath).is_none() {
        fail("substore-file-not-written".into(), format!("files in the directory: {:?}", files1.iter().map(|f| &f.0).collect::<Vec<_>>()));
    }
    // items of the sub-store must not also be written inline in the root file
    if included {
        let ids = |d: &Value, member: &str| -> Vec<String> {
            d.get(member).and_then(|x| x.as_array()).map(|v| v.iter().map(|x| x.get("@id").and_then(|i| i.as_str()).unwrap_or("").to_string()).collect()).unwrap_or_default()
        };
        let nroot = mem1.iter().find_map(|m| m.strip_prefix("root annotations=[")).map(|m| if m == "]" { 0 } else { m.split(',').count() }).unwrap_or(0);
        let rootann = ids(&rootdoc, "annotations");
        if rootann.iter().any(|i| i == "S1" || i == "S2") || rootann.len() > nroot {
            fail("item-duplicated:annotation".into(), format!("annotations in the root file: {:?}; the root store has {}", rootann, nroot));
        }
        if l.res != Place::Shared && ids(&rootdoc, "resources").iter().any(|i| i == "rs") {
            fail("item-duplicated:resource".into(), format!("resources in the root file: {:?}", ids(&rootdoc, "resources")));
        }
        if l.set != Place::Shared && ids(&rootdoc, "annotationsets").iter().any(|i| i == "ss") {
            fail("item-duplicated:dataset".into(), format!("datasets in the root file: {:?}", ids(&rootdoc, "annotationsets")));
        }
    }
    let reloaded = match catch(|| AnnotationStore::from_file(&rootpath, Config::default().with_use_include(true))) {
        Err(p) => {
            fail(format!("load-panic:{}", msg_class(&p)), p);
            return true;
        }
        Ok(Err(e)) => {
            fail(format!("load-err:{}", sub_err_class(&e, dir)), format!("{}", e));
            return true;
        }
        Ok(Ok(s)) => s,
    };
    match observe(&reloaded) {
        Ok((abs2, mem2)) => {
            if let Some((symptom, detail)) = sub_diff(&abs1, &abs2) {
                fail(symptom, detail.replace("original", "saved").to_string());
            }
            if let Some(d) = sub_first_diff(&mem1, &mem2) {
                fail("substore-membership-differs".into(), format!("saved vs reloaded: {}", d));
            }
        }
        Err(p) => fail(format!("observation-panic-after-reload:{}", msg_class(&p)), p),
    }

    // 3. the reloaded store written again: every file as before
    if let Some((s, d)) = class(catch(|| reloaded.save()), "second-save") {
        fail(s, d);
        return true;
    }
    let files2 = sub_snapshot(dir);
    let mut names: Vec<&String> = files1.iter().chain(files2.iter()).map(|f| &f.0).collect();
    names.sort();
    names.dedup();
    for name in names {
        let a = files1.iter().find(|f| &f.0 == name).map(|f| &f.1);
        let b = files2.iter().find(|f| &f.0 == name).map(|f| &f.1);
        if a != b {
            let what = match (a, b) {
                (None, _) => "appears",
                (_, None) => "disappears",
                _ => "content",
            };
            let show = |x: Option<&Vec<u8>>| x.map(|c| String::from_utf8_lossy(c).chars().take(400).collect::<String>()).unwrap_or_else(|| "<absent>".into());
            fail(format!("second-save-differs:{}:{}", sub_file_class(name), what), format!("{}: first save: {} -- second save: {}", name, show(a), show(b)));
        }
    }
    true
}

/// error class without the layout directory (it is part of file names in I/O messages)
fn sub_err_class(e: &StamError, dir: &str) -> String {
    // the nested "[StamError] " wrappers carry nothing; the innermost error kind has to fit into the class
    // and quoted ids / values are data, not class
    let msg = format!("{}", e).replace(dir, "<dir>").replace("[StamError] ", "").replace("Deserialization failed: ", "").replace("Error during build: ", "");
    let mut out = String::new();
    for (i, part) in msg.split('"').enumerate() {
        out.push_str(if i % 2 == 0 { part } else { "\"_\"" });
    }
    msg_class(&out).chars().take(140).collect()
}

/// Bounded-exhaustive family over the sub-store layouts. Returns (layouts, completed save + reload round trips).
pub fn substore_family(rep: &Reporter, workdir: &str) -> (u64, u64) {
    let layouts = substore_layouts();
    let done = AtomicU64::new(0);
    layouts.par_iter().enumerate().for_each(|(i, l)| {
        let dir = format!("{}/s{:05}", workdir, i);
        match catch(|| sub_run_layout(rep, l, i, &dir, false)) {
            Ok(true) => {
                done.fetch_add(1, Ordering::Relaxed);
            }
            Ok(false) => {}
            Err(p) => rep.fail(&format!("{}|panic:{}", l.sig_prefix(), msg_class(&p)), (1u64 << 61) + l.weight() * 100_000 + i as u64, || p.clone(), || json!({"substore": l.to_json()})),
        }
        if std::env::var("VERIF_KEEP_WORK").is_err() {
            let _ = std::fs::remove_dir_all(&dir);
        }
    });
    (layouts.len() as u64, done.load(Ordering::Relaxed))
}

pub fn run(rep: &Reporter) -> Coverage {
    let workdir = crate::util::work_dir("w");
    std::fs::create_dir_all(&workdir).expect("workdir");
    let oracle = C05 { roundtrips: AtomicU64::new(0), workdir: workdir.clone(), file_depth: rep.tier.pick(2, 3) };
    let mut cov = Coverage::default();
    let mut runs = Vec::new();
    let budget = rep.tier.pick(45.0, 1500.0);
    let mut exhaustive = true;
    for plan in plans(rep.tier) {
        let stats = explore(rep, &oracle, &plan.init, &plan.al, plan.depth, budget);
        cov.states += stats.states;
        cov.transitions += stats.transitions;
        cov.distinct_nontrivial += stats.nontrivial_states;
        exhaustive &= stats.completed_depth == plan.depth;
        for h in &stats.sample_histories {
            if cov.samples.len() < 4 {
                cov.samples.push(json!({"history": h, "then": "to_json_string (pretty, compact) -> from_str -> compare -> to_json_string again"}));
            }
        }
        runs.push(json!({"exploration": plan.name, "depth_requested": plan.depth, "depth_completed": stats.completed_depth,
            "new_states_per_depth": stats.depth_hist, "transitions": stats.transitions}));
    }
    let nsweep = run_value_sweep(rep, &oracle.roundtrips);
    let t0 = std::time::Instant::now();
    let (nlayouts, nsubtrips) = substore_family(rep, &workdir);
    if std::env::var("VERIF_TIMING").is_ok() {
        eprintln!("substore family: {} layouts, {} round trips, {:.2}s", nlayouts, nsubtrips, t0.elapsed().as_secs_f64());
    }
    let _ = std::fs::remove_dir_all(&workdir);
    cov.samples.push(json!({"sweep": "value Datetime(2024-03-01T12:30:45.250+01:00) as data value; string \"\\\"\\\\\" as key id / data id / annotation id"}));
    cov.exhaustive = exhaustive;
    cov.states += nlayouts;
    cov.evaluations = oracle.roundtrips.load(Ordering::Relaxed) + nsubtrips;
    cov.traces_validated = cov.transitions;
    cov.extra.insert("explorations".into(), json!(runs));
    cov.extra.insert("value_sweep_stores".into(), json!(nsweep));
    cov.extra.insert("standoff_file_roundtrips_up_to_depth".into(), json!(oracle.file_depth));
    cov.extra.insert(
        "substore_family".into(),
        json!({
            "layouts": nlayouts,
            "save_reload_round_trips_completed": nsubtrips,
            "dimensions": {
                "attach": ["include (hand-written root document with @include of the sub-store, from_file)", "include-rootfirst (the root's resources and datasets stand before @include)", "add (root made through the API, add_substore(file))", "add-rootfirst (root resource, dataset and first annotation made before add_substore)", "new (add_new_substore + associate_substore per item)", "new-rootfirst"],
                "substore_resource": ["inline", "standoff (@include text file)", "shared (the root includes the same file; not for new)"],
                "substore_dataset": ["inline", "standoff", "shared (not for new)"],
                "root_annotation_on_substore_resource_with_substore_data": [false, true],
                "root_annotation_on_substore_annotation": ["none", "AnnotationSelector", "AnnotationSelector with offset"],
                "texts_and_offsets": ["plain, begin-aligned", "multi-byte, begin-aligned", "multi-byte, end-aligned"],
                "idless_annotations_and_data": [false, true],
                "removal_before_save": ["none", "root annotation", "sub-store annotation"],
            },
            "always_present": "sub-store annotations S1 S2 on the sub-store's resource with data of its dataset, root annotation R1 on the root's resource with data of the root's dataset",
        }),
    );
    cov.samples.push(json!({"substore": substore_layouts().last().map(|l| l.to_json()), "then": "make store -> remove -> observe -> save -> check files -> from_file -> compare -> save -> compare files"}));
    cov.rule = "every distinct state of the history exploration (as C01) is written with to_json_string (pretty and compact), read back with from_str and compared: resources+texts, datasets/keys/data with typed values, annotations in order with ids, target kind, referenced items (by id, id-less items by rank), offsets and alignment mode, data references; the reloaded store must serialise to the identical string; states up to the file depth are additionally laid out with @include stand-off files, loaded, saved again (members must stay stand-off) and reloaded, then modified (a data item removed / a key removed / an annotation with new data added), saved and reloaded once more; value sweep: one store per value of a menu (all DataValue types, nested lists, datetimes with offsets and sub-seconds, integer range ends, awkward strings of length <= 2 over 12 symbols) and per awkward string used as key id / data id / annotation id; sub-store family: the product of {how the sub-store is attached: hand-written @include / add_substore / add_new_substore+associate_substore, the latter two each also with the root's resource and dataset first} x {sub-store resource inline / stand-off / stand-off file shared with the root} x {same for its dataset} x {root annotation on the sub-store's resource} x {root annotation on a sub-store annotation: none / without / with offset} x {plain texts / multi-byte texts / multi-byte texts with end-aligned offsets} x {id-less annotations and data} x {no removal / root annotation removed / sub-store annotation removed}; per layout the store must equal the same items made in a plain store and have the membership the layout defines, then save -> the root file still @includes the sub-store and repeats none of its items -> from_file -> same abstract content (annotations in order) and same sub-store membership (per sub-store: id, file, annotations, resources, datasets; items of no sub-store; each item's own answer) -> save again -> every file byte-identical; non-trivial = states with a removed and a live annotation".into();
    cov.assumptions = vec![
        "items without public id are compared by rank, so a renumbering of handles on reload is not a difference".into(),
        "NaN / infinite floats are left out of the JSON sweep (no JSON form); they are in the CBOR sweep".into(),
    ];
    cov
}

pub fn replay(rep: &Reporter, case: &Value) {
    if case.get("sweep").is_some() {
        let idx = case["sweep"]["index"].as_u64().unwrap_or(0);
        println!("replay C05 value sweep case #{}: {}", idx, case["sweep"]);
        let c = AtomicU64::new(0);
        run_value_sweep(rep, &c);
        return;
    }
    if let Some(sub) = case.get("substore") {
        let l = match SubLayout::from_json(sub) {
            Some(l) => l,
            None => {
                println!("replay C05: cannot read the sub-store layout {}", sub);
                return;
            }
        };
        println!("replay C05 sub-store layout: {}", l.to_json());
        let workdir = crate::util::work_dir("replay");
        let dir = format!("{}/s00000", workdir);
        let index = substore_layouts().iter().position(|x| *x == l).unwrap_or(0);
        match catch(|| sub_run_layout(rep, &l, index, &dir, true)) {
            Ok(done) => println!("  save + reload {}", if done { "completed" } else { "not reached" }),
            Err(p) => {
                println!("  panic: {}", p);
                rep.fail(&format!("{}|panic:{}", l.sig_prefix(), msg_class(&p)), 0, || p.clone(), || case.clone());
            }
        }
        if std::env::var("VERIF_KEEP_WORK").is_err() {
            let _ = std::fs::remove_dir_all(&workdir);
        } else {
            println!("  work files kept in {}", dir);
        }
        return;
    }
    let hist = history_from_json(&case["history"]);
    println!("replay C05: history:");
    for o in &hist {
        println!("   {}", o.short());
    }
    let (store, _) = replay_real(&hist);
    for (name, compact) in [("pretty", false), ("compact", true)] {
        match json_roundtrip(&store, compact) {
            Some(f) => {
                println!("  {}: {} :: {}", name, f.symptom, f.detail);
                report(rep, name, f, &store, 0, &|| case.clone());
            }
            None => println!("  {}: round trip ok", name),
        }
    }
    let workdir = crate::util::work_dir("replay");
    std::fs::create_dir_all(&workdir).expect("workdir");
    let oracle = C05 { roundtrips: AtomicU64::new(0), workdir: workdir.clone(), file_depth: 99 };
    oracle.files_roundtrip(rep, &store, 0, &|| case.clone());
    if std::env::var("VERIF_KEEP_WORK").is_err() {
        let _ = std::fs::remove_dir_all(&workdir);
    } else {
        println!("  work files kept in {}", workdir);
    }
}
