//! C05 — STAM JSON round trip preserves the whole model.
//! (1) every state of the history exploration, pretty and compact, in memory; stand-off (@include) files and one
//!     sub-store level for the states up to a shallower depth; (2) a value sweep over all DataValue types and
//!     awkward strings used as values and identifiers.

use crate::c01::plans;
use crate::hist::*;
use crate::ops::*;
use crate::report::{Coverage, Reporter};
use crate::ser::*;
use crate::util::{catch, msg_class};
use rayon::prelude::*;
use serde_json::{json, Value};
use stam::*;
use std::sync::atomic::{AtomicU64, Ordering};

pub struct C05 {
    pub roundtrips: AtomicU64,
    pub workdir: String,
    pub file_depth: usize,
}

fn report(rep: &Reporter, cfg: &str, f: RoundTripFail, store: &AnnotationStore, ord: u64, case: &dyn Fn() -> Value) {
    let feat = String::new();
    let _ = store_features(store);
    rep.fail(&format!("{}|{}{}", cfg, f.symptom, feat), ord, || f.detail.chars().take(900).collect(), case);
}

/// Render a JSON object with its members in the given order first (serde_json's Value sorts keys, but the
/// STAM JSON loader streams the document and needs resources/datasets before annotations and keys before data).
fn ordered_object(v: &Value, order: &[&str]) -> Option<String> {
    let obj = v.as_object()?;
    let mut parts: Vec<String> = Vec::new();
    for k in order {
        if let Some(x) = obj.get(*k) {
            parts.push(format!("{}: {}", serde_json::to_string(k).ok()?, serde_json::to_string_pretty(x).ok()?));
        }
    }
    for (k, x) in obj {
        if !order.contains(&k.as_str()) {
            parts.push(format!("{}: {}", serde_json::to_string(k).ok()?, serde_json::to_string_pretty(x).ok()?));
        }
    }
    Some(format!("{{\n{}\n}}", parts.join(",\n")))
}

/// Rewrite an inline STAM JSON document so that resources and datasets live in stand-off files in `dir`.
/// Returns the root document (text) and the number of stand-off members; None if the store has a shape this does not cover.
fn to_include_form(doc: &Value, dir: &str) -> Option<(String, usize)> {
    let mut root = doc.clone();
    let obj = root.as_object_mut()?;
    let mut members = 0;
    if let Some(resources) = obj.get_mut("resources").and_then(|r| r.as_array_mut()) {
        for r in resources.iter_mut() {
            let id = r.get("@id")?.as_str()?.to_string();
            let text = r.get("text")?.as_str()?.to_string();
            // a plain-text stand-off file takes its file name as the resource id
            std::fs::write(format!("{}/{}", dir, id), text).ok()?;
            *r = json!({"@type": "TextResource", "@include": id});
            members += 1;
        }
    }
    if let Some(sets) = obj.get_mut("annotationsets").and_then(|r| r.as_array_mut()) {
        for s in sets.iter_mut() {
            let id = s.get("@id")?.as_str()?.to_string();
            let fname = format!("{}.annotationset.stam.json", id);
            std::fs::write(format!("{}/{}", dir, fname), ordered_object(s, &["@type", "@id", "keys", "data"])?).ok()?;
            *s = json!({"@type": "AnnotationDataSet", "@id": id, "@include": fname});
            members += 1;
        }
    }
    Some((ordered_object(&root, &["@type", "@id", "resources", "annotationsets", "annotations"])?, members))
}

impl C05 {
    fn files_roundtrip(&self, rep: &Reporter, store: &AnnotationStore, ord: u64, case: &dyn Fn() -> Value) {
        // (a) hand-written stand-off layout -> load -> same model; (b) save it again -> stand-off members are kept -> reload -> same model
        let cfg = Config::default();
        let json = match store.to_json_string(&cfg) {
            Ok(j) => j,
            Err(_) => return, // reported by the in-memory round trip
        };
        let doc: Value = match serde_json::from_str(&json) {
            Ok(d) => d,
            Err(_) => return,
        };
        let dir = format!("{}/{:?}", self.workdir, std::thread::current().id()).replace(['(', ')'], "");
        let _ = std::fs::remove_dir_all(&dir);
        std::fs::create_dir_all(&dir).expect("workdir");
        let (root, members) = match to_include_form(&doc, &dir) {
            Some(r) => r,
            None => return,
        };
        let rootfile = format!("{}/root.store.stam.json", dir);
        std::fs::write(&rootfile, root).expect("write root");
        self.roundtrips.fetch_add(1, Ordering::Relaxed);
        let original = ser_abstract(store, true, true);
        let loaded = match catch(|| AnnotationStore::from_file(&rootfile, Config::default().with_use_include(true))) {
            Err(p) => {
                report(rep, "include-load", RoundTripFail { symptom: format!("load-panic:{}", msg_class(&p)), detail: String::new() }, store, ord, case);
                return;
            }
            Ok(Err(e)) => {
                report(rep, "include-load", RoundTripFail { symptom: format!("load-err:{}", err_class(&e)), detail: format!("{}", e) }, store, ord, case);
                return;
            }
            Ok(Ok(s)) => s,
        };
        if let Some((section, detail)) = diff_ser(&original, &ser_abstract(&loaded, true, true)) {
            report(rep, "include-load", RoundTripFail { symptom: format!("differs@{}:{}", section, diff_aspect(&detail)), detail }, store, ord, case);
            return;
        }
        // save under another name in the same directory; members keep their stand-off files
        let mut loaded = loaded;
        let out = format!("{}/out.store.stam.json", dir);
        match catch(|| loaded.to_file(&out)) {
            Err(p) => {
                report(rep, "include-save", RoundTripFail { symptom: format!("serialise-panic:{}", msg_class(&p)), detail: String::new() }, store, ord, case);
                return;
            }
            Ok(Err(e)) => {
                report(rep, "include-save", RoundTripFail { symptom: format!("serialise-err:{}", err_class(&e)), detail: format!("{}", e) }, store, ord, case);
                return;
            }
            Ok(Ok(())) => {}
        }
        let written = std::fs::read_to_string(&out).unwrap_or_default();
        let (nres, nset) = (members, 0);
        if written.matches("\"@include\"").count() != nres + nset {
            report(
                rep,
                "include-save",
                RoundTripFail { symptom: "standoff-members-not-kept".into(), detail: format!("{} @include entries written, {} members were stand-off", written.matches("\"@include\"").count(), nres + nset) },
                store,
                ord,
                case,
            );
            return;
        }
        match catch(|| AnnotationStore::from_file(&out, Config::default().with_use_include(true))) {
            Err(p) => report(rep, "include-reload", RoundTripFail { symptom: format!("load-panic:{}", msg_class(&p)), detail: String::new() }, store, ord, case),
            Ok(Err(e)) => report(rep, "include-reload", RoundTripFail { symptom: format!("load-err:{}", err_class(&e)), detail: format!("{}", e) }, store, ord, case),
            Ok(Ok(s2)) => {
                if let Some((section, detail)) = diff_ser(&original, &ser_abstract(&s2, true, true)) {
                    report(rep, "include-reload", RoundTripFail { symptom: format!("differs@{}:{}", section, diff_aspect(&detail)), detail }, store, ord, case);
                }
            }
        }
        if std::env::var("VERIF_KEEP_WORK").is_err() {
            let _ = std::fs::remove_dir_all(&dir);
        }
    }
}

impl Oracle for C05 {
    fn transition(&self, rep: &Reporter, t: &Trans) -> bool {
        if t.divergence.is_some() || !t.new_state {
            return true;
        }
        let case = || json!({"history": history_json(t.hist, Some(t.op))});
        let mut healthy = true;
        for (name, compact) in [("pretty", false), ("compact", true)] {
            self.roundtrips.fetch_add(1, Ordering::Relaxed);
            if let Some(f) = json_roundtrip(t.post, compact) {
                healthy = false;
                report(rep, name, f, t.post, t.ord, &case);
            }
        }
        if healthy && t.depth <= self.file_depth {
            self.files_roundtrip(rep, t.post, t.ord, &case);
        }
        // a state that cannot be serialised is still a legitimate state for deeper exploration
        true
    }
    fn needs_conformance(&self) -> bool {
        true
    }
}

// ---------------------------------------------------------------------------------------------
// value sweep (shared with C11 / C15)

pub fn awkward_strings() -> Vec<String> {
    let syms = ['a', '"', '\\', '/', '\n', '\t', '\u{1}', '\u{e9}', '\u{1f600}', ' ', ';', '|'];
    let mut v: Vec<String> = vec![String::new()];
    for a in syms {
        v.push(a.to_string());
        for b in syms {
            v.push(format!("{}{}", a, b));
        }
    }
    v
}

pub fn value_menu(with_nonfinite: bool) -> Vec<DataValue> {
    use chrono::DateTime;
    let dt = |s: &str| DataValue::Datetime(DateTime::parse_from_rfc3339(s).unwrap());
    let mut v = vec![
        DataValue::Null,
        DataValue::Bool(true),
        DataValue::Bool(false),
        DataValue::Int(0),
        DataValue::Int(-1),
        DataValue::Int(isize::MAX),
        DataValue::Int(isize::MIN),
        DataValue::Float(0.0),
        DataValue::Float(-0.0),
        DataValue::Float(1.5),
        DataValue::Float(1e300),
        DataValue::Float(5e-324),
        DataValue::Float(2.0),
        dt("2024-03-01T12:30:45+00:00"),
        dt("2024-03-01T12:30:45+01:00"),
        dt("2024-03-01T12:30:45-05:30"),
        dt("2024-03-01T12:30:45.250+01:00"),
        dt("1999-12-31T23:59:59.999999999+00:00"),
        DataValue::List(vec![]),
        DataValue::List(vec![DataValue::Int(1), DataValue::Int(2)]),
        DataValue::List(vec![DataValue::String("a".into()), DataValue::Int(2), DataValue::Null, DataValue::Bool(true), DataValue::Float(0.5)]),
        DataValue::List(vec![DataValue::List(vec![DataValue::Int(1)]), DataValue::List(vec![]), DataValue::String("x".into())]),
        DataValue::List(vec![dt("2024-03-01T12:30:45.5+02:00")]),
    ];
    if with_nonfinite {
        v.push(DataValue::Float(f64::NAN));
        v.push(DataValue::Float(f64::INFINITY));
        v.push(DataValue::Float(f64::NEG_INFINITY));
    }
    for s in awkward_strings() {
        v.push(DataValue::String(s));
    }
    v
}

pub fn value_class(v: &DataValue) -> String {
    match v {
        DataValue::String(s) => format!("String:{}", crate::c03::str_class(s)),
        DataValue::List(l) => format!("List[{}]", l.iter().map(value_class).collect::<Vec<_>>().join(",")),
        DataValue::Float(f) => {
            if f.is_nan() {
                "Float:nan".into()
            } else if f.is_infinite() {
                "Float:inf".into()
            } else if f.fract() == 0.0 {
                "Float:integral".into()
            } else {
                "Float".into()
            }
        }
        DataValue::Datetime(d) => {
            let frac = if d.timestamp_subsec_nanos() != 0 { ":subsec" } else { "" };
            let off = if d.offset().local_minus_utc() != 0 { ":offset" } else { "" };
            format!("Datetime{}{}", frac, off)
        }
        other => format!("{:?}", other).chars().take_while(|c| c.is_alphabetic()).collect(),
    }
}

/// store with one resource, one annotation carrying `value` under key `key` with data id `did` and annotation id `aid`
pub fn value_store(value: &DataValue, key: &str, did: Option<&str>, aid: Option<&str>) -> Result<AnnotationStore, String> {
    let mut store = AnnotationStore::new(Config::default());
    catch(|| -> Result<(), StamError> {
        store.add_resource(TextResourceBuilder::new().with_id("r0").with_text("ab cd"))?;
        let mut b = AnnotationBuilder::new().with_target(SelectorBuilder::textselector("r0", Offset::simple(0, 2)));
        if let Some(aid) = aid {
            b = b.with_id(aid.to_string());
        }
        b = match did {
            Some(did) => b.with_data_with_id("s0", key.to_string(), value.clone(), did.to_string()),
            None => b.with_data("s0", key.to_string(), value.clone()),
        };
        store.annotate(b)?;
        // a second annotation that targets the first by its id, so that ids with special characters are also references
        if let Some(aid) = aid {
            store.annotate(AnnotationBuilder::new().with_id("second").with_target(SelectorBuilder::annotationselector(aid.to_string(), None)))?;
        }
        Ok(())
    })
    .map_err(|p| format!("panic:{}", msg_class(&p)))?
    .map_err(|e| format!("err:{}", err_class(&e)))?;
    Ok(store)
}

pub fn run_value_sweep(rep: &Reporter, counter: &AtomicU64) -> u64 {
    let values = value_menu(false);
    let strings = awkward_strings();
    let mut cases: Vec<(String, DataValue, String, Option<String>, Option<String>)> = Vec::new();
    for v in &values {
        cases.push((format!("value|{}", value_class(v)), v.clone(), "k".into(), Some("D".into()), Some("A".into())));
    }
    for s in &strings {
        if s.is_empty() {
            continue;
        }
        let c = crate::c03::str_class(s);
        cases.push((format!("key-id|{}", c), DataValue::Int(1), s.clone(), Some("D".into()), Some("A".into())));
        cases.push((format!("data-id|{}", c), DataValue::Int(1), "k".into(), Some(s.clone()), Some("A".into())));
        cases.push((format!("annotation-id|{}", c), DataValue::Int(1), "k".into(), None, Some(s.clone())));
    }
    let n = cases.len() as u64;
    cases.par_iter().enumerate().for_each(|(i, (class, v, key, did, aid))| {
        let store = match value_store(v, key, did.as_deref(), aid.as_deref()) {
            Ok(s) => s,
            Err(_) => return, // the builder refused the id/value: not a round-trip matter
        };
        for (name, compact) in [("pretty", false), ("compact", true)] {
            counter.fetch_add(1, Ordering::Relaxed);
            if let Some(f) = json_roundtrip(&store, compact) {
                rep.fail(
                    &format!("sweep|{}|{}|{}", name, class, f.symptom),
                    (1 << 60) + i as u64,
                    || format!("value={:?} key={:?} data id={:?} annotation id={:?}: {}", v, key, did, aid, f.detail.chars().take(600).collect::<String>()),
                    || json!({"sweep": {"value": format!("{:?}", v), "key": key, "data_id": did, "annotation_id": aid, "index": i}}),
                );
            }
        }
    });
    n
}

pub fn run(rep: &Reporter) -> Coverage {
    let workdir = crate::util::work_dir("w");
    std::fs::create_dir_all(&workdir).expect("workdir");
    let oracle = C05 { roundtrips: AtomicU64::new(0), workdir: workdir.clone(), file_depth: rep.tier.pick(2, 3) };
    let mut cov = Coverage::default();
    let mut runs = Vec::new();
    let budget = rep.tier.pick(45.0, 1500.0);
    let mut exhaustive = true;
    for plan in plans(rep.tier) {
        let stats = explore(rep, &oracle, &plan.init, &plan.al, plan.depth, budget);
        cov.states += stats.states;
        cov.transitions += stats.transitions;
        cov.distinct_nontrivial += stats.nontrivial_states;
        exhaustive &= stats.completed_depth == plan.depth;
        for h in &stats.sample_histories {
            if cov.samples.len() < 4 {
                cov.samples.push(json!({"history": h, "then": "to_json_string (pretty, compact) -> from_str -> compare -> to_json_string again"}));
            }
        }
        runs.push(json!({"exploration": plan.name, "depth_requested": plan.depth, "depth_completed": stats.completed_depth,
            "new_states_per_depth": stats.depth_hist, "transitions": stats.transitions}));
    }
    let nsweep = run_value_sweep(rep, &oracle.roundtrips);
    let _ = std::fs::remove_dir_all(&workdir);
    cov.samples.push(json!({"sweep": "value Datetime(2024-03-01T12:30:45.250+01:00) as data value; string \"\\\"\\\\\" as key id / data id / annotation id"}));
    cov.exhaustive = exhaustive;
    cov.evaluations = oracle.roundtrips.load(Ordering::Relaxed);
    cov.traces_validated = cov.transitions;
    cov.extra.insert("explorations".into(), json!(runs));
    cov.extra.insert("value_sweep_stores".into(), json!(nsweep));
    cov.extra.insert("standoff_file_roundtrips_up_to_depth".into(), json!(oracle.file_depth));
    cov.rule = "every distinct state of the history exploration (as C01) is written with to_json_string (pretty and compact), read back with from_str and compared: resources+texts, datasets/keys/data with typed values, annotations in order with ids, target kind, referenced items (by id, id-less items by rank), offsets and alignment mode, data references; the reloaded store must serialise to the identical string; states up to the file depth are additionally laid out with @include stand-off files, loaded, saved again (members must stay stand-off) and reloaded; value sweep: one store per value of a menu (all DataValue types, nested lists, datetimes with offsets and sub-seconds, integer range ends, awkward strings of length <= 2 over 12 symbols) and per awkward string used as key id / data id / annotation id; non-trivial = states with a removed and a live annotation".into();
    cov.assumptions = vec![
        "items without public id are compared by rank, so a renumbering of handles on reload is not a difference".into(),
        "NaN / infinite floats are left out of the JSON sweep (no JSON form); they are in the CBOR sweep".into(),
    ];
    cov
}

pub fn replay(rep: &Reporter, case: &Value) {
    if case.get("sweep").is_some() {
        let idx = case["sweep"]["index"].as_u64().unwrap_or(0);
        println!("replay C05 value sweep case #{}: {}", idx, case["sweep"]);
        let c = AtomicU64::new(0);
        run_value_sweep(rep, &c);
        return;
    }
    let hist = history_from_json(&case["history"]);
    println!("replay C05: history:");
    for o in &hist {
        println!("   {}", o.short());
    }
    let (store, _) = replay_real(&hist);
    for (name, compact) in [("pretty", false), ("compact", true)] {
        match json_roundtrip(&store, compact) {
            Some(f) => {
                println!("  {}: {} :: {}", name, f.symptom, f.detail);
                report(rep, name, f, &store, 0, &|| case.clone());
            }
            None => println!("  {}: round trip ok", name),
        }
    }
    let workdir = crate::util::work_dir("replay");
    std::fs::create_dir_all(&workdir).expect("workdir");
    let oracle = C05 { roundtrips: AtomicU64::new(0), workdir: workdir.clone(), file_depth: 99 };
    oracle.files_roundtrip(rep, &store, 0, &|| case.clone());
    if std::env::var("VERIF_KEEP_WORK").is_err() {
        let _ = std::fs::remove_dir_all(&workdir);
    } else {
        println!("  work files kept in {}", workdir);
    }
}
