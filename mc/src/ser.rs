//! Shared machinery for the serialisation round-trip properties (C05 JSON, C11 CBOR, C15 CSV):
//! an order- and rank-based abstract rendering of a store, and the round-trip drivers.

use crate::observe::*;
use crate::ops::TKind;
use crate::util::{catch, msg_class};
use stam::*;

/// name of an annotation: its public id, or (id-less) its rank among the live annotations
fn ann_name(store: &AnnotationStore, handle: usize, ranks: &[usize]) -> String {
    match store.annotation(AnnotationHandle::new(handle)) {
        Some(a) => match a.id() {
            Some(id) => id.to_string(),
            None => format!("~A{}", ranks.iter().position(|h| *h == handle).unwrap_or(usize::MAX)),
        },
        None => format!("<dead annotation {}>", handle),
    }
}

fn data_name(store: &AnnotationStore, set: usize, data: usize) -> String {
    match store.dataset(AnnotationDataSetHandle::new(set)) {
        Some(s) => match s.annotationdata(AnnotationDataHandle::new(data)) {
            Some(d) => match d.id() {
                Some(id) => id.to_string(),
                None => {
                    let rank = s.data().position(|x| x.handle().as_usize() == data).unwrap_or(usize::MAX);
                    format!("~D{}", rank)
                }
            },
            None => format!("<dead data {}>", data),
        },
        None => format!("<dead set {}>", set),
    }
}

fn set_name(store: &AnnotationStore, set: usize) -> String {
    store
        .dataset(AnnotationDataSetHandle::new(set))
        .map(|s| s.id().unwrap_or("<no id>").to_string())
        .unwrap_or_else(|| format!("<dead set {}>", set))
}

fn res_name(store: &AnnotationStore, res: usize) -> String {
    store
        .resource(TextResourceHandle::new(res))
        .map(|s| s.id().unwrap_or("<no id>").to_string())
        .unwrap_or_else(|| format!("<dead res {}>", res))
}

/// values: `typed` keeps the DataValue type (JSON, CBOR); otherwise only the text of the value (CSV)
fn value_str(v: &DataValue, typed: bool) -> String {
    if typed {
        format!("{:?}", v)
    } else {
        v.to_string()
    }
}

/// The abstract model content of a store as (section, line) pairs: resources, datasets (keys, data with typed values),
/// annotations in order with ids, target kind, referenced items, offsets + alignment, data references.
/// Items without public id are named by rank, so handle renumbering is not a difference.
pub fn ser_abstract(store: &AnnotationStore, typed: bool, with_modes: bool) -> Vec<(String, String)> {
    let mut o: Vec<(String, String)> = Vec::new();
    for r in store.resources() {
        o.push(("resource".into(), format!("{} {:?}", r.id().unwrap_or("<no id>"), r.text())));
    }
    for s in store.datasets() {
        let sid = s.id().unwrap_or("<no id>").to_string();
        o.push(("dataset".into(), sid.clone()));
        for k in s.keys() {
            o.push(("key".into(), format!("{}/{}", sid, k.as_str())));
        }
        for d in s.data() {
            let key = catch(|| d.key().as_str().to_string()).unwrap_or_else(|_| "<dead key>".into());
            o.push((
                "data".into(),
                format!("{}/{} key={} value={}", sid, data_name(store, s.handle().as_usize(), d.handle().as_usize()), key, value_str(d.value(), typed)),
            ));
        }
    }
    let fw = forward_handles(store);
    let ranks: Vec<usize> = fw.iter().map(|a| a.handle).collect();
    for a in &fw {
        let name = ann_name(store, a.handle, &ranks);
        let mut parts: Vec<String> = Vec::new();
        for p in &a.parts {
            let m = |mode: u8| if with_modes { format!(" mode={}", mode) } else { String::new() };
            parts.push(match p {
                HRef::Text { res, tsel, mode } => match tsel_range(store, *res, *tsel) {
                    Some((b, e)) => format!("Text({} {}..{}{})", res_name(store, *res), b, e, m(*mode)),
                    None => format!("Text(<dangling {}:{}>)", res, tsel),
                },
                HRef::Ann { ann, text } => match text {
                    None => format!("Ann({})", ann_name(store, *ann, &ranks)),
                    Some((r, t, mode)) => match tsel_range(store, *r, *t) {
                        Some((b, e)) => format!("Ann({} text {} {}..{}{})", ann_name(store, *ann, &ranks), res_name(store, *r), b, e, m(*mode)),
                        None => format!("Ann({} text <dangling>)", ann_name(store, *ann, &ranks)),
                    },
                },
                HRef::Res(r) => format!("Res({})", res_name(store, *r)),
                HRef::Set(s) => format!("Set({})", set_name(store, *s)),
                HRef::Key(s, k) => format!(
                    "Key({}/{})",
                    set_name(store, *s),
                    store
                        .dataset(AnnotationDataSetHandle::new(*s))
                        .and_then(|x| x.key(DataKeyHandle::new(*k)))
                        .map(|k| k.as_str().to_string())
                        .unwrap_or_else(|| format!("<dead key {}>", k))
                ),
                HRef::Data(s, d) => format!("Data({}/{})", set_name(store, *s), data_name(store, *s, *d)),
            });
        }
        if a.kind == TKind::Multi || a.kind == TKind::Composite {
            // order of the parts is documented as not significant
            parts.sort();
        }
        let data: Vec<String> = a.data.iter().map(|(s, d)| format!("{}/{}", set_name(store, *s), data_name(store, *s, *d))).collect();
        o.push(("annotation".into(), format!("{} kind={:?} target=[{}] data=[{}]", name, a.kind, parts.join(", "), data.join(", "))));
    }
    o
}

/// first difference: (section, detail)
pub fn diff_ser(a: &[(String, String)], b: &[(String, String)]) -> Option<(String, String)> {
    for section in ["resource", "dataset", "key", "data", "annotation"] {
        let x: Vec<&String> = a.iter().filter(|p| p.0 == section).map(|p| &p.1).collect();
        let y: Vec<&String> = b.iter().filter(|p| p.0 == section).map(|p| &p.1).collect();
        if x != y {
            // first differing line
            let n = x.len().max(y.len());
            for i in 0..n {
                let (l, r) = (x.get(i), y.get(i));
                if l != r {
                    return Some((section.to_string(), format!("original {:?} reloaded {:?}", l, r)));
                }
            }
        }
    }
    None
}

/// Class of a differing annotation line for signatures: which aspect differs
pub fn diff_aspect(detail: &str) -> String {
    // detail = original Some("...") reloaded Some("...")
    let parts: Vec<&str> = detail.splitn(2, " reloaded ").collect();
    if parts.len() != 2 {
        return "?".into();
    }
    let (a, b) = (parts[0].trim_start_matches("original "), parts[1]);
    if a == "None" {
        return "extra-item".into();
    }
    if b == "None" {
        return "missing-item".into();
    }
    let field = |s: &str, f: &str| -> String {
        s.find(f).map(|i| s[i..].split(" data=").next().unwrap_or("").to_string()).unwrap_or_default()
    };
    let name = |s: &str| s.split(' ').next().unwrap_or("").to_string();
    if name(a) != name(b) {
        return "id".into();
    }
    if a.contains("kind=") {
        let kind = |s: &str| s.split("kind=").nth(1).and_then(|x| x.split(' ').next()).unwrap_or("").to_string();
        if kind(a) != kind(b) {
            return format!("target-kind:{}", kind(a));
        }
        if field(a, "target=") != field(b, "target=") {
            // which selector kinds are in the original target
            let t = field(a, "target=");
            let mut kinds: Vec<&str> = Vec::new();
            for k in ["Text(", "Ann(", "Res(", "Set(", "Key(", "Data("] {
                if t.contains(k) {
                    kinds.push(k.trim_end_matches('('));
                }
            }
            let modeonly = {
                let strip = |s: &str| -> String {
                    let mut out = String::new();
                    let mut rest = s;
                    while let Some(i) = rest.find(" mode=") {
                        out.push_str(&rest[..i]);
                        rest = &rest[i + 7..];
                    }
                    out.push_str(rest);
                    out
                };
                strip(&field(a, "target=")) == strip(&field(b, "target="))
            };
            return format!("target{}:{}:{}", if modeonly { "-offset-mode" } else { "" }, kind(a), kinds.join("+"));
        }
        return "annotation-data".into();
    }
    if a.contains(" value=") {
        let v = |s: &str| s.split(" value=").nth(1).unwrap_or("").to_string();
        if v(a) != v(b) {
            let ty: String = v(a).chars().take_while(|c| c.is_alphabetic()).collect();
            return format!("value:{}", ty);
        }
        return "data-key".into();
    }
    "text-or-id".into()
}

pub fn err_class(e: &StamError) -> String {
    msg_class(&format!("{}", e)).chars().take(110).collect()
}

pub struct RoundTripFail {
    pub symptom: String,
    pub detail: String,
}

/// JSON round trip in memory with the given compactness. Checks abstract equality and idempotent output.
pub fn json_roundtrip(store: &AnnotationStore, compact: bool) -> Option<RoundTripFail> {
    let cfg = Config::default().with_dataformat(DataFormat::Json { compact });
    let json = match catch(|| store.to_json_string(&cfg)) {
        Err(p) => return Some(RoundTripFail { symptom: format!("serialise-panic:{}", msg_class(&p)), detail: String::new() }),
        Ok(Err(e)) => return Some(RoundTripFail { symptom: format!("serialise-err:{}", err_class(&e)), detail: format!("{}", e) }),
        Ok(Ok(j)) => j,
    };
    let re = match catch(|| AnnotationStore::from_str(&json, Config::default())) {
        Err(p) => return Some(RoundTripFail { symptom: format!("load-panic:{}", msg_class(&p)), detail: json }),
        Ok(Err(e)) => return Some(RoundTripFail { symptom: format!("load-err:{}", err_class(&e)), detail: format!("{} -- document: {}", e, json.chars().take(1500).collect::<String>()) }),
        Ok(Ok(s)) => s,
    };
    let (a, b) = match catch(|| (ser_abstract(store, true, true), ser_abstract(&re, true, true))) {
        Ok(x) => x,
        Err(p) => return Some(RoundTripFail { symptom: format!("observation-panic:{}", msg_class(&p)), detail: String::new() }),
    };
    if let Some((section, detail)) = diff_ser(&a, &b) {
        return Some(RoundTripFail { symptom: format!("differs@{}:{}", section, diff_aspect(&detail)), detail });
    }
    match catch(|| re.to_json_string(&cfg)) {
        Ok(Ok(json2)) => {
            if json2 != json {
                let pos = json.chars().zip(json2.chars()).position(|(x, y)| x != y).unwrap_or(json.len().min(json2.len()));
                let ctx = |s: &str| s.chars().skip(pos.saturating_sub(60)).take(120).collect::<String>();
                // classify by the JSON context of the first difference: the last three "@type" values before it in each output
                let types = |s: &str| -> String {
                    let prefix: String = s.chars().take(pos + 40).collect();
                    let mut found: Vec<&str> = prefix.match_indices("\"@type\"").map(|(i, _)| &prefix[i..]).filter_map(|t| t.split('"').nth(3)).collect();
                    let n = found.len();
                    if n > 3 {
                        found = found[n - 3..].to_vec();
                    }
                    found.join(">")
                };
                return Some(RoundTripFail {
                    symptom: format!("not-idempotent:{}=>{}", types(&json), types(&json2)),
                    detail: format!("first: …{}… second: …{}…", ctx(&json), ctx(&json2)),
                });
            }
        }
        Ok(Err(e)) => return Some(RoundTripFail { symptom: format!("reserialise-err:{}", err_class(&e)), detail: format!("{}", e) }),
        Err(p) => return Some(RoundTripFail { symptom: format!("reserialise-panic:{}", msg_class(&p)), detail: String::new() }),
    }
    // the reloaded store is a store like any other: reverse lookups agree with forward references, nothing dangles, every
    // public id resolves to the item that carries it (once per state: the two layouts load into the same store)
    if !compact {
        if let Some(what) = crate::c19::consistency(&re) {
            return Some(RoundTripFail { symptom: format!("reloaded-store-inconsistent:{}", what), detail: format!("document: {}", json.chars().take(1500).collect::<String>()) });
        }
    }
    None
}

/// feature class of a store for signatures: selector kinds present, gaps, id-less items
pub fn store_features(store: &AnnotationStore) -> String {
    let mut f: Vec<&str> = Vec::new();
    let fw = forward_handles(store);
    let has = |pred: &dyn Fn(&HRef) -> bool| fw.iter().any(|a| a.parts.iter().any(|p| pred(p)));
    if has(&|p| matches!(p, HRef::Key(..))) {
        f.push("keysel");
    }
    if has(&|p| matches!(p, HRef::Data(..))) {
        f.push("datasel");
    }
    if fw.iter().any(|a| a.id.is_none()) {
        f.push("idless-ann");
    }
    if store.annotations_len() != fw.len() {
        f.push("ann-gaps");
    }
    for s in store.datasets() {
        if s.as_ref().keys_len() != s.keys().count() {
            f.push("key-gaps");
        }
        if s.as_ref().data_len() != s.data().count() {
            f.push("data-gaps");
        }
    }
    if store.resources_len() != store.resources().count() {
        f.push("res-gaps");
    }
    if store.datasets_len() != store.datasets().count() {
        f.push("set-gaps");
    }
    f.sort();
    f.dedup();
    f.join("+")
}
