//! C20 — concurrent readers of a shared store see sequential results.
//! Stateless exploration of thread schedules of the real code under a controlled scheduler: real OS threads gated by a
//! baton; the H2 yield callback (before every lock operation on the shared serialisation mode / changed flags) parks the
//! calling thread and hands control back; DFS over schedules with iterative preemption bounding.

use crate::report::{Coverage, Reporter, Tier};
use crate::util::{catch, fnv64, msg_class};
use serde_json::{json, Value};
use stam::*;
use std::cell::RefCell;
use std::sync::{Arc, Condvar, Mutex};

// ---------------------------------------------------------------------------------------------
// controlled scheduler

struct St {
    turn: Option<usize>,
    parked: Vec<Option<&'static str>>,
    finished: Vec<bool>,
}

struct Sched {
    m: Mutex<St>,
    cv: Condvar,
}

thread_local! {
    static WORKER: RefCell<Option<(usize, Arc<Sched>)>> = RefCell::new(None);
}

/// the H2 callback: a managed thread parks here until the scheduler gives it the baton again
fn yield_cb(site: &'static str) {
    let me = WORKER.with(|w| w.borrow().clone());
    if let Some((id, sched)) = me {
        sched.park(id, site);
    }
}

impl Sched {
    fn new(n: usize) -> Arc<Sched> {
        Arc::new(Sched { m: Mutex::new(St { turn: None, parked: vec![None; n], finished: vec![false; n] }), cv: Condvar::new() })
    }
    fn park(&self, id: usize, site: &'static str) {
        let mut st = self.m.lock().unwrap();
        st.parked[id] = Some(site);
        if st.turn == Some(id) {
            st.turn = None;
        }
        self.cv.notify_all();
        while st.turn != Some(id) {
            st = self.cv.wait(st).unwrap();
        }
        st.parked[id] = None;
    }
    fn finish(&self, id: usize) {
        let mut st = self.m.lock().unwrap();
        st.finished[id] = true;
        if st.turn == Some(id) {
            st.turn = None;
        }
        self.cv.notify_all();
    }
}

#[derive(Clone, Debug)]
pub struct Point {
    /// enabled threads in canonical order: the running thread first if still enabled, then ascending ids
    pub enabled: Vec<usize>,
    pub chosen: usize, // index into enabled
    pub running_still_enabled: bool,
    pub sites: Vec<&'static str>,
}

pub struct Execution {
    pub points: Vec<Point>,
    pub results: Vec<Result<String, String>>,
    pub deadlock: bool,
    pub yields_per_thread: Vec<usize>,
}

/// Run the bodies once under the scheduler, following `prefix` (indices into the enabled lists) and taking choice 0
/// (no preemption) afterwards. A choice outside the enabled list is a hard error (schedule divergence).
fn run_schedule(store: &AnnotationStore, bodies: &[Body], prefix: &[usize]) -> Result<Execution, String> {
    let n = bodies.len();
    let sched = Sched::new(n);
    let mut results: Vec<Result<String, String>> = vec![Err("not run".into()); n];
    let mut points: Vec<Point> = Vec::new();
    let mut deadlock = false;
    let mut yields = vec![0usize; n];
    let mut diverged: Option<String> = None;
    std::thread::scope(|scope| {
        let mut handles = Vec::new();
        for (id, body) in bodies.iter().enumerate() {
            let sched = sched.clone();
            let body = *body;
            handles.push(scope.spawn(move || {
                WORKER.with(|w| *w.borrow_mut() = Some((id, sched.clone())));
                sched.park(id, "start");
                let r = catch(|| body.run(store));
                WORKER.with(|w| *w.borrow_mut() = None);
                sched.finish(id);
                r
            }));
        }
        // the scheduler
        let mut last: Option<usize> = None;
        loop {
            let mut st = sched.m.lock().unwrap();
            while !(st.turn.is_none() && (0..n).all(|i| st.finished[i] || st.parked[i].is_some())) {
                st = sched.cv.wait(st).unwrap();
            }
            let mut enabled: Vec<usize> = (0..n).filter(|i| st.parked[*i].is_some()).collect();
            if enabled.is_empty() {
                deadlock = !(0..n).all(|i| st.finished[i]);
                break;
            }
            let running_still_enabled = last.map(|l| enabled.contains(&l)).unwrap_or(false);
            if let Some(l) = last {
                if running_still_enabled {
                    enabled.retain(|x| *x != l);
                    enabled.insert(0, l);
                }
            }
            let k = points.len();
            let choice = if k < prefix.len() { prefix[k] } else { 0 };
            if choice >= enabled.len() {
                diverged = Some(format!("schedule divergence at point {}: choice {} but only {} threads enabled", k, choice, enabled.len()));
                // let everything run to completion in default order so that the threads can be joined
                let c = 0;
                let t = enabled[c];
                st.turn = Some(t);
                last = Some(t);
                sched.cv.notify_all();
                continue;
            }
            let sites = enabled.iter().map(|i| st.parked[*i].unwrap()).collect();
            let t = enabled[choice];
            if st.parked[t] != Some("start") {
                yields[t] += 1;
            }
            points.push(Point { enabled: enabled.clone(), chosen: choice, running_still_enabled, sites });
            st.turn = Some(t);
            last = Some(t);
            sched.cv.notify_all();
        }
        for (i, h) in handles.into_iter().enumerate() {
            results[i] = match h.join() {
                Ok(r) => r,
                Err(_) => Err("thread panicked outside catch".into()),
            };
        }
    });
    if let Some(d) = diverged {
        return Err(d);
    }
    Ok(Execution { points, results, deadlock, yields_per_thread: yields })
}

// ---------------------------------------------------------------------------------------------
// harness bodies and stores

#[derive(Clone, Copy, Debug, PartialEq, Eq)]
pub enum Body {
    /// store.to_json_string
    StoreJson,
    /// first dataset serialised to a string through ToJson
    DatasetJson,
    /// first resource serialised to a string through ToJson
    ResourceJson,
    /// a query and a parallel iteration (touches no interior-mutable state)
    QueryParallel,
    /// second dataset (if any) to a string
    Dataset2Json,
    /// store.to_json_string with a configuration derived from the store's own (`clone().with_use_include(false)`)
    StoreJsonDerivedConfig,
}

impl Body {
    fn run(&self, store: &AnnotationStore) -> String {
        match self {
            Body::StoreJson => match store.to_json_string(store.config()) {
                Ok(s) => s,
                Err(e) => format!("ERR {}", e),
            },
            Body::StoreJsonDerivedConfig => {
                let cfg = store.config().clone().with_use_include(false);
                match store.to_json_string(&cfg) {
                    Ok(s) => s,
                    Err(e) => format!("ERR {}", e),
                }
            }
            Body::DatasetJson | Body::Dataset2Json => {
                let idx = if *self == Body::DatasetJson { 0 } else { 1 };
                match store.datasets().nth(idx) {
                    Some(ds) => match ToJson::to_json_string(ds.as_ref(), ds.as_ref().config()) {
                        Ok(s) => s,
                        Err(e) => format!("ERR {}", e),
                    },
                    None => "no dataset".into(),
                }
            }
            Body::ResourceJson => match store.resources().next() {
                Some(r) => match ToJson::to_json_string(r.as_ref(), r.as_ref().config()) {
                    Ok(s) => s,
                    Err(e) => format!("ERR {}", e),
                },
                None => "no resource".into(),
            },
            Body::QueryParallel => {
                use rayon::prelude::*;
                let mut out = String::new();
                if let Ok((q, _)) = Query::parse("SELECT ANNOTATION ?a WHERE DATA \"s0\" \"k0\";") {
                    if let Ok(iter) = store.query(q) {
                        out.push_str(&format!("rows={};", iter.count()));
                    }
                }
                let mut texts: Vec<String> = store.annotations().parallel().map(|a| format!("{:?}:{}", a.id(), a.text_join("|"))).collect();
                texts.sort();
                out.push_str(&texts.join(","));
                out
            }
        }
    }
    fn name(&self) -> &'static str {
        match self {
            Body::StoreJson => "store.to_json_string",
            Body::DatasetJson => "dataset.to_json_string",
            Body::ResourceJson => "resource.to_json_string",
            Body::QueryParallel => "query+parallel",
            Body::Dataset2Json => "dataset2.to_json_string",
            Body::StoreJsonDerivedConfig => "store.to_json_string(derived-config)",
        }
    }
}

#[derive(Clone, Copy, Debug, PartialEq, Eq)]
pub enum StoreKind {
    /// everything inline
    Inline,
    /// datasets and resource stand-off (@include), loaded from files: changed = false
    Standoff,
    /// as Standoff, then an annotation is added whose data goes into a stand-off dataset: changed = true
    StandoffChanged,
    /// as Standoff, loaded with a configuration built with `with_use_include(false)`
    StandoffNoIncludeConfig,
    /// as Standoff, then written as STAM CBOR, loaded from that file and given the JSON file name again (conversion route)
    StandoffViaCbor,
    /// built through the API with a resource that is to live in a stand-off *.json file and has not been written yet (changed = true)
    ApiJsonResourceUnsaved,
}

fn base_doc_files(dir: &str) -> String {
    let _ = std::fs::remove_dir_all(dir);
    std::fs::create_dir_all(dir).expect("workdir");
    std::fs::write(format!("{}/r0", dir), "a\u{e9} \u{1d11e}d").unwrap();
    std::fs::write(
        format!("{}/s0.annotationset.stam.json", dir),
        r#"{"@type":"AnnotationDataSet","@id":"s0","keys":[{"@type":"DataKey","@id":"k0"}],"data":[{"@type":"AnnotationData","@id":"D0","key":"k0","value":{"@type":"String","value":"v"}}]}"#,
    )
    .unwrap();
    std::fs::write(
        format!("{}/s1.annotationset.stam.json", dir),
        r#"{"@type":"AnnotationDataSet","@id":"s1","keys":[{"@type":"DataKey","@id":"k0"}],"data":[{"@type":"AnnotationData","@id":"E0","key":"k0","value":{"@type":"Int","value":1}}]}"#,
    )
    .unwrap();
    let root = r#"{"@type":"AnnotationStore","@id":"root",
"resources":[{"@type":"TextResource","@include":"r0"}],
"annotationsets":[{"@type":"AnnotationDataSet","@id":"s0","@include":"s0.annotationset.stam.json"},{"@type":"AnnotationDataSet","@id":"s1","@include":"s1.annotationset.stam.json"}],
"annotations":[{"@type":"Annotation","@id":"a0","target":{"@type":"TextSelector","resource":"r0","offset":{"@type":"Offset","begin":{"@type":"BeginAlignedCursor","value":0},"end":{"@type":"BeginAlignedCursor","value":3}}},"data":[{"@type":"AnnotationData","@id":"D0","set":"s0"}]},
{"@type":"Annotation","@id":"a1","target":{"@type":"TextSelector","resource":"r0","offset":{"@type":"Offset","begin":{"@type":"BeginAlignedCursor","value":3}},"end":{"@type":"EndAlignedCursor","value":0}}},"data":[{"@type":"AnnotationData","@id":"E0","set":"s1"}]}]}"#;
    let path = format!("{}/root.store.stam.json", dir);
    std::fs::write(&path, root.replace("\"value\":3}},\"end\"", "\"value\":3},\"end\"")).unwrap();
    path
}

pub fn build_store(kind: StoreKind, dir: &str) -> AnnotationStore {
    match kind {
        StoreKind::Inline => {
            let mut s = AnnotationStore::new(Config::default());
            s.add_resource(TextResourceBuilder::new().with_id("r0").with_text("a\u{e9} \u{1d11e}d")).unwrap();
            s.annotate(AnnotationBuilder::new().with_id("a0").with_target(SelectorBuilder::textselector("r0", Offset::simple(0, 3))).with_data_with_id("s0", "k0", "v", "D0")).unwrap();
            s.annotate(
                AnnotationBuilder::new()
                    .with_id("a1")
                    .with_target(SelectorBuilder::textselector("r0", Offset::new(Cursor::BeginAligned(3), Cursor::EndAligned(0))))
                    .with_data_with_id("s1", "k0", 1isize, "E0"),
            )
            .unwrap();
            s
        }
        StoreKind::ApiJsonResourceUnsaved => {
            let _ = std::fs::remove_dir_all(dir);
            std::fs::create_dir_all(dir).expect("workdir");
            let mut s = AnnotationStore::new(Config::default().with_workdir(dir.to_string()));
            s.set_filename(&format!("{}/root.store.stam.json", dir));
            s.add_resource(TextResourceBuilder::new().with_id("r0").with_text("a\u{e9} \u{1d11e}d").with_filename("r0.json")).expect("resource with filename");
            s.annotate(AnnotationBuilder::new().with_id("a0").with_target(SelectorBuilder::textselector("r0", Offset::simple(0, 3))).with_data_with_id("s0", "k0", "v", "D0")).unwrap();
            s.annotate(AnnotationBuilder::new().with_id("a1").with_target(SelectorBuilder::textselector("r0", Offset::new(Cursor::BeginAligned(3), Cursor::EndAligned(0)))).with_data_with_id("s1", "k0", 1isize, "E0")).unwrap();
            s
        }
        StoreKind::StandoffViaCbor => {
            let root = base_doc_files(dir);
            let mut s = AnnotationStore::from_file(&root, Config::default().with_use_include(true)).expect("load stand-off store");
            let cbor = format!("{}/root.store.stam.cbor", dir);
            s.set_filename(&cbor);
            s.save().expect("save as CBOR");
            let mut s = AnnotationStore::from_file(&cbor, Config::default()).expect("load CBOR store");
            s.set_filename(&root);
            s
        }
        StoreKind::Standoff | StoreKind::StandoffChanged | StoreKind::StandoffNoIncludeConfig => {
            let root = base_doc_files(dir);
            let mut s = AnnotationStore::from_file(&root, Config::default().with_use_include(kind != StoreKind::StandoffNoIncludeConfig)).expect("load stand-off store");
            if kind == StoreKind::StandoffChanged {
                s.annotate(AnnotationBuilder::new().with_id("a2").with_target(SelectorBuilder::resourceselector("r0")).with_data_with_id("s0", "k1", "w", "D1")).unwrap();
            }
            s
        }
    }
}

/// contents of the work directory (the files a stand-off store was loaded from and writes its members to)
fn snapshot_files(dir: &str) -> std::collections::BTreeMap<String, String> {
    let mut m = std::collections::BTreeMap::new();
    if let Ok(rd) = std::fs::read_dir(dir) {
        for e in rd.flatten() {
            // (the CBOR file a store was converted through embeds the path of its directory and is no output of a reader)
            if e.file_name().to_string_lossy().ends_with(".cbor") {
                continue;
            }
            if let Ok(bytes) = std::fs::read(e.path()) {
                m.insert(e.file_name().to_string_lossy().into_owned(), String::from_utf8_lossy(&bytes).into_owned());
            }
        }
    }
    m
}

/// The files expected after all readers have finished: the initial files, overlaid with what each reader writes when it
/// runs alone on a fresh copy (serialising a store with a changed stand-off member rewrites that member's file).
fn expected_files(kind: StoreKind, bodies: &[Body], dir: &str) -> std::collections::BTreeMap<String, String> {
    let solodir = format!("{}-solo", dir);
    let _ = build_store(kind, &solodir);
    let initial = snapshot_files(&solodir);
    let mut expected = initial.clone();
    for b in bodies {
        let store = build_store(kind, &solodir);
        let _ = catch(|| b.run(&store));
        for (name, content) in snapshot_files(&solodir) {
            if initial.get(&name) != Some(&content) {
                expected.insert(name, content);
            }
        }
    }
    let _ = std::fs::remove_dir_all(&solodir);
    expected
}

// ---------------------------------------------------------------------------------------------
// exploration

pub struct ExploreStats {
    pub expected_files: std::collections::BTreeMap<String, String>,
    pub schedules: u64,
    pub outcomes: std::collections::BTreeSet<u64>,
    pub max_yields: usize,
    pub capped: bool,
}

fn schedule_json(x: &Execution) -> Value {
    json!(x.points.iter().map(|p| p.chosen).collect::<Vec<_>>())
}

#[allow(clippy::too_many_arguments)]
fn explore_rec(
    rep: &Reporter,
    kind: StoreKind,
    dir: &str,
    bodies: &[Body],
    solo: &[String],
    bound: usize,
    prefix: Vec<usize>,
    stats: &mut ExploreStats,
    cap: u64,
) {
    if stats.schedules >= cap {
        stats.capped = true;
        return;
    }
    let store = build_store(kind, dir);
    let x = match run_schedule(&store, bodies, &prefix) {
        Ok(x) => x,
        Err(d) => {
            // a divergence while replaying a prefix means the harness does not own all nondeterminism: machinery failure
            println!("MACHINERY: {}", d);
            std::process::exit(2);
        }
    };
    stats.schedules += 1;
    stats.max_yields = stats.max_yields.max(x.yields_per_thread.iter().copied().max().unwrap_or(0));
    check_execution(rep, kind, dir, bodies, solo, &x, &store, stats);
    // extend: alternatives at every later point within the preemption bound
    let mut preemptions = 0usize;
    let choices: Vec<usize> = x.points.iter().map(|p| p.chosen).collect();
    for i in 0..x.points.len() {
        let p = &x.points[i];
        if i >= prefix.len() {
            let cost_alt = preemptions + if p.running_still_enabled { 1 } else { 0 };
            if cost_alt <= bound {
                for alt in 1..p.enabled.len() {
                    let mut np = choices[..i].to_vec();
                    np.push(alt);
                    explore_rec(rep, kind, dir, bodies, solo, bound, np, stats, cap);
                }
            }
        }
        if p.running_still_enabled && p.chosen != 0 {
            preemptions += 1;
        }
    }
}

#[allow(clippy::too_many_arguments)]
fn check_execution(rep: &Reporter, kind: StoreKind, dir: &str, bodies: &[Body], solo: &[String], x: &Execution, store: &AnnotationStore, stats: &mut ExploreStats) {
    let names: Vec<&str> = bodies.iter().map(|b| b.name()).collect();
    let case = || json!({"store": format!("{:?}", kind), "bodies": names, "schedule": schedule_json(x)});
    let combo = names.join("||");
    // without a preemption the threads run one after the other: a failure there is not a race
    let sched = if x.points.iter().any(|p| p.running_still_enabled && p.chosen != 0) { "preempted" } else { "sequential" };
    let togglers = names.iter().filter(|n| n.contains("to_json_string")).count();
    let mut outcome_key = String::new();
    if x.deadlock {
        rep.fail(&format!("{:?}|{}|deadlock", kind, combo), x.points.len() as u64, || "no thread enabled although not all have finished".into(), case);
    }
    for (i, r) in x.results.iter().enumerate() {
        match r {
            Err(p) => {
                outcome_key.push_str(&format!("P{}", msg_class(p)));
                rep.fail(&format!("{:?}|{}|thread={}|panic:{}", kind, combo, names[i], msg_class(p)), x.points.len() as u64, || format!("thread {} panicked", names[i]), case);
            }
            Ok(s) => {
                outcome_key.push_str(&format!("{:x};", fnv64(s.as_bytes())));
                if *s != solo[i] {
                    // how does it differ: stand-off member emitted inline, or @include emitted instead of content
                    let how = if s.matches("@include").count() < solo[i].matches("@include").count() {
                        "standoff-member-emitted-inline"
                    } else if s.matches("@include").count() > solo[i].matches("@include").count() {
                        "include-emitted-instead-of-content"
                    } else {
                        "differs"
                    };
                    let mut others: Vec<&str> = names.iter().enumerate().filter(|(j, _)| *j != i).map(|(_, n)| *n).collect();
                    others.sort();
                    others.dedup();
                    rep.fail(
                        &format!("{:?}|victim={}|{}|concurrent-toggler={}|sched={}", kind, names[i], how, if others.iter().any(|o| o.contains("to_json_string")) { "yes" } else { "no" }, sched),
                        x.points.len() as u64,
                        || format!("thread {} returned a result different from running alone ({} vs {} bytes); schedule {:?}", names[i], s.len(), solo[i].len(), x.points.iter().map(|p| p.chosen).collect::<Vec<_>>()),
                        case,
                    );
                }
            }
        }
    }
    // (taken before the serialisation below, which may itself write stand-off members)
    let files = snapshot_files(dir);
    // afterwards a single reader must again see the sequential result (no state left behind)
    let after = catch(|| Body::StoreJson.run(store));
    let solo_store = catch(|| Body::StoreJson.run(&build_store(kind, &format!("{}-solo", dir))));
    if let (Ok(a), Ok(b)) = (&after, &solo_store) {
        outcome_key.push_str(&format!("A{:x}", fnv64(a.as_bytes())));
        if a != b {
            rep.fail(&format!("{:?}|{}|after|store-serialisation-differs-afterwards|sched={}", kind, combo, sched), x.points.len() as u64, || "a store serialisation after all readers finished differs from the sequential one (state left behind)".into(), case);
        }
    }
    // files: the readers together must leave on disk what they leave when each runs alone
    if kind != StoreKind::Inline {
        outcome_key.push_str(&format!("F{:x}", fnv64(format!("{:?}", files).as_bytes())));
        if files != stats.expected_files {
            let mut names: Vec<String> = files.keys().chain(stats.expected_files.keys()).filter(|n| files.get(*n) != stats.expected_files.get(*n)).map(|n| n.replace(|c: char| c.is_ascii_digit(), "N")).collect();
            names.sort();
            names.dedup();
            rep.fail(
                &format!("{:?}|after|files-differ-from-solo-runs:{}|concurrent-togglers={}|sched={}", kind, names.join(","), if togglers >= 2 { "yes" } else { "no" }, sched),
                x.points.len() as u64,
                || {
                    let first = files.keys().chain(stats.expected_files.keys()).find(|n| files.get(*n) != stats.expected_files.get(*n)).cloned().unwrap_or_default();
                    format!(
                        "after all readers finished the files {:?} differ from what the readers leave behind when each runs alone on a fresh copy; {}: got {:?}, expected {:?}",
                        names,
                        first,
                        files.get(&first).map(|c| c.chars().take(300).collect::<String>()),
                        stats.expected_files.get(&first).map(|c| c.chars().take(300).collect::<String>())
                    )
                },
                case,
            );
        }
    }
    stats.outcomes.insert(fnv64(outcome_key.as_bytes()));
}

fn combos(tier: Tier) -> Vec<Vec<Body>> {
    let b = [Body::StoreJson, Body::DatasetJson, Body::ResourceJson, Body::QueryParallel, Body::Dataset2Json];
    // pairs also with the derived-configuration reader (triples only over the first five)
    let b6 = [Body::StoreJson, Body::DatasetJson, Body::ResourceJson, Body::QueryParallel, Body::Dataset2Json, Body::StoreJsonDerivedConfig];
    let mut v: Vec<Vec<Body>> = Vec::new();
    for i in 0..b6.len() {
        for j in i..b6.len() {
            v.push(vec![b6[i], b6[j]]);
        }
    }
    if tier == Tier::Thorough {
        for i in 0..b.len() {
            for j in i..b.len() {
                for k in j..b.len() {
                    v.push(vec![b[i], b[j], b[k]]);
                }
            }
        }
    }
    v
}

struct JobResult {
    per: Value,
    schedules: u64,
    outcomes: usize,
    capped: bool,
    max_yields: usize,
    sample: Option<Value>,
}

/// one exploration: all schedules of one thread set on one store kind (independent of every other job: the scheduler
/// state is reached through a thread-local of the managed threads, the work directory is private to the job)
fn run_job(rep: &Reporter, kind: StoreKind, bodies: &[Body], dir: &str, bound: usize, cap: u64) -> JobResult {
    // solo results on fresh copies of the same store
    let solo: Vec<String> = bodies.iter().map(|b| b.run(&build_store(kind, dir))).collect();
    // determinism: the default schedule twice must give identical observations
    let s1 = build_store(kind, dir);
    let x1 = run_schedule(&s1, bodies, &[]).expect("default schedule");
    let s2 = build_store(kind, dir);
    let x2 = run_schedule(&s2, bodies, &[]).expect("default schedule");
    if x1.results != x2.results || x1.points.len() != x2.points.len() {
        println!("MACHINERY: replaying the default schedule twice gave different observations for {:?} {:?}", kind, bodies);
        std::process::exit(2);
    }
    let mut stats = ExploreStats { expected_files: expected_files(kind, &bodies, &dir), schedules: 0, outcomes: Default::default(), max_yields: 0, capped: false };
    // iterative preemption bounding: the final bound subsumes the lower ones; run it directly (the search is simplest-first)
    explore_rec(rep, kind, dir, bodies, &solo, bound, vec![], &mut stats, cap);
    let _ = std::fs::remove_dir_all(dir);
    let _ = std::fs::remove_dir_all(format!("{}-solo", dir));
    let names: Vec<&str> = bodies.iter().map(|b| b.name()).collect();
    JobResult {
        per: json!({"store": format!("{:?}", kind), "bodies": names, "schedules": stats.schedules, "distinct_outcomes": stats.outcomes.len(), "max_yield_points_per_thread": stats.max_yields, "capped": stats.capped}),
        schedules: stats.schedules,
        outcomes: stats.outcomes.len(),
        capped: stats.capped,
        max_yields: stats.max_yields,
        sample: if stats.schedules > 3 {
            Some(json!({"store": format!("{:?}", kind), "bodies": names, "default_schedule_points": x1.points.iter().map(|p| json!({"enabled": p.enabled, "sites": p.sites})).collect::<Vec<_>>()}))
        } else {
            None
        },
    }
}

// ---------------------------------------------------------------------------------------------
// parallel adaptors: `.parallel()` on every kind of iterator must hand out exactly the items of the sequential iteration
// (rayon collects an indexed parallel iterator in order, so the comparison is on the whole sequence)

fn render_ann(a: &ResultItem<Annotation>) -> String {
    format!("A{}", a.handle().as_usize())
}
fn render_data(d: &ResultItem<AnnotationData>) -> String {
    format!("D{}/{}", d.set().handle().as_usize(), d.handle().as_usize())
}
fn render_key(k: &ResultItem<DataKey>) -> String {
    format!("K{}/{}", k.set().handle().as_usize(), k.handle().as_usize())
}
fn render_res(r: &ResultItem<TextResource>) -> String {
    format!("R{}", r.handle().as_usize())
}
fn render_set(d: &ResultItem<AnnotationDataSet>) -> String {
    format!("S{}", d.handle().as_usize())
}
fn render_tsel(t: &ResultTextSelection) -> String {
    format!("T{}[{}:{}]", t.resource().handle().as_usize(), t.begin(), t.end())
}

pub fn parallel_family(rep: &Reporter, only_store: Option<&str>) -> (u64, u64) {
    use rayon::prelude::*;
    let (mut nstores, mut ncmp) = (0u64, 0u64);
    for (si, (name, hist)) in crate::c08::store_histories().iter().enumerate() {
        if only_store.map(|o| o != *name).unwrap_or(false) {
            continue;
        }
        let (store, outs) = crate::ops::replay_real(hist);
        if !outs.iter().all(|o| o.is_ok()) {
            continue;
        }
        nstores += 1;
        let mut k = 0u64;
        let mut cmp = |itemtype: &str, source: String, seq: Result<Vec<String>, String>, par: Result<Vec<String>, String>| {
            k += 1;
            let symptom = match (&seq, &par) {
                (Ok(a), Ok(b)) if a == b => return,
                (Ok(a), Ok(b)) if b.len() < a.len() => "items-missing".to_string(),
                (Ok(a), Ok(b)) if b.len() > a.len() => "items-extra".to_string(),
                (Ok(_), Ok(_)) => "other-items-or-order".to_string(),
                (Err(_), _) => return, // the sequential iteration itself panics: not this family's finding
                (_, Err(p)) => format!("panic:{}", crate::util::msg_class(p)),
            };
            // source class: the receiver without its handle
            let sclass: String = source.chars().filter(|c| !c.is_ascii_digit()).collect();
            rep.fail(
                &format!("parallel-adaptor|{}|{}|{}", itemtype, sclass, symptom),
                ((si as u64) << 20) + k,
                || format!("store {}: {} sequentially gives {:?}, with .parallel() {:?}", name, source, seq, par),
                || json!({"parallel_family": name, "source": source}),
            );
        };
        macro_rules! both {
            ($itemtype:expr, $source:expr, $mk:expr, $render:expr) => {
                cmp($itemtype, $source, catch(|| $mk.map(|x| $render(&x)).collect::<Vec<String>>()), catch(|| $mk.parallel().map(|x| $render(&x)).collect::<Vec<String>>()));
            };
        }
        both!("annotation", "store.annotations()".to_string(), store.annotations(), render_ann);
        both!("resource", "store.resources()".to_string(), store.resources(), render_res);
        both!("dataset", "store.datasets()".to_string(), store.datasets(), render_set);
        both!("data", "store.data()".to_string(), store.data(), render_data);
        both!("key", "store.keys()".to_string(), store.keys(), render_key);
        for ds in store.datasets() {
            let h = ds.handle().as_usize();
            both!("key", format!("dataset{}.keys()", h), ds.keys(), render_key);
            both!("data", format!("dataset{}.data()", h), ds.data(), render_data);
            for key in ds.keys() {
                let kh = key.handle().as_usize();
                both!("data", format!("dataset{}.key{}.data()", h, kh), key.data(), render_data);
                both!("annotation", format!("dataset{}.key{}.annotations()", h, kh), key.annotations(), render_ann);
            }
            for d in ds.data() {
                let dh = d.handle().as_usize();
                both!("annotation", format!("dataset{}.data{}.annotations()", h, dh), d.annotations(), render_ann);
            }
        }
        for r in store.resources() {
            let h = r.handle().as_usize();
            both!("textselection", format!("resource{}.textselections()", h), r.textselections(), render_tsel);
            both!("annotation", format!("resource{}.annotations()", h), r.annotations(), render_ann);
            both!("annotation", format!("resource{}.annotations_as_metadata()", h), r.annotations_as_metadata(), render_ann);
        }
        for a in store.annotations() {
            let h = a.handle().as_usize();
            both!("data", format!("annotation{}.data()", h), a.data(), render_data);
            both!("key", format!("annotation{}.keys()", h), a.keys(), render_key);
            both!("resource", format!("annotation{}.resources()", h), a.resources(), render_res);
            both!("dataset", format!("annotation{}.datasets()", h), a.datasets(), render_set);
            both!("textselection", format!("annotation{}.textselections()", h), a.textselections(), render_tsel);
            both!("annotation", format!("annotation{}.annotations()", h), a.annotations(), render_ann);
            both!("annotation", format!("annotation{}.annotations_in_targets(One)", h), a.annotations_in_targets(AnnotationDepth::One), render_ann);
            // chained adaptors: the data of several annotations in a row, and their keys
            both!("data", format!("annotation{}.annotations().data()", h), a.annotations().data(), render_data);
        }
        both!("data", "store.annotations().data()".to_string(), store.annotations().data(), render_data);
        both!("key", "store.annotations().keys()".to_string(), store.annotations().keys(), render_key);
        both!("textselection", "store.annotations().textselections()".to_string(), store.annotations().textselections(), render_tsel);
        both!("annotation", "store.data().annotations()".to_string(), store.data().annotations(), render_ann);
        // plain iterators with repeats (an adaptor may not assume that what it is given is free of duplicates or sorted)
        both!("textselection", "store.annotations().flat_map(textselections)".to_string(), store.annotations().flat_map(|a| a.textselections()), render_tsel);
        both!("data", "store.annotations().flat_map(data)".to_string(), store.annotations().flat_map(|a| a.data()), render_data);
        both!("key", "store.annotations().flat_map(keys)".to_string(), store.annotations().flat_map(|a| a.keys()), render_key);
        both!("resource", "store.annotations().flat_map(resources)".to_string(), store.annotations().flat_map(|a| a.resources()), render_res);
        both!("dataset", "store.annotations().flat_map(datasets)".to_string(), store.annotations().flat_map(|a| a.datasets()), render_set);
        both!("annotation", "store.data().flat_map(annotations)".to_string(), store.data().flat_map(|d| d.annotations()), render_ann);
        both!("annotation", "store.resources().flat_map(annotations)".to_string(), store.resources().flat_map(|r| r.annotations()), render_ann);
        ncmp += k;
    }
    (nstores, ncmp)
}

pub fn run(rep: &Reporter) -> Coverage {
    let (pstores, pcmp) = parallel_family(rep, None);
    stam::verif::set_yield_callback(Some(yield_cb));
    let dir = crate::util::work_dir("c20");
    let bound = rep.tier.pick(2, 3);
    let cap: u64 = rep.tier.pick(20_000, 400_000);
    let mut jobs: Vec<(StoreKind, Vec<Body>)> = Vec::new();
    for kind in [StoreKind::Inline, StoreKind::Standoff, StoreKind::StandoffChanged, StoreKind::StandoffNoIncludeConfig, StoreKind::StandoffViaCbor, StoreKind::ApiJsonResourceUnsaved] {
        // triples of readers (thorough) only on the three basic stores; the later store kinds get every pair
        let basic = matches!(kind, StoreKind::Inline | StoreKind::Standoff | StoreKind::StandoffChanged);
        for bodies in combos(if basic { rep.tier } else { Tier::Quick }) {
            jobs.push((kind, bodies));
        }
    }
    // explorations are independent; run them on plain OS threads (not on the rayon pool, which the query+parallel body
    // needs for itself: a pool whose workers all wait on a baton would never run that body's tasks)
    let next = std::sync::atomic::AtomicUsize::new(0);
    let results: Mutex<Vec<Option<JobResult>>> = Mutex::new((0..jobs.len()).map(|_| None).collect());
    let nthreads = std::thread::available_parallelism().map(|n| n.get()).unwrap_or(4).min(jobs.len()).max(1);
    std::thread::scope(|scope| {
        for _ in 0..nthreads {
            scope.spawn(|| loop {
                let i = next.fetch_add(1, std::sync::atomic::Ordering::SeqCst);
                if i >= jobs.len() {
                    break;
                }
                let (kind, bodies) = &jobs[i];
                let r = run_job(rep, *kind, bodies, &format!("{}-j{}", dir, i), bound, cap);
                results.lock().unwrap()[i] = Some(r);
            });
        }
    });
    let mut total = 0u64;
    let mut outcomes_total = 0usize;
    let mut per = Vec::new();
    let mut capped_any = false;
    let mut max_yields = 0;
    let mut samples = Vec::new();
    for r in results.into_inner().unwrap().into_iter().flatten() {
        total += r.schedules;
        outcomes_total += r.outcomes;
        capped_any |= r.capped;
        max_yields = max_yields.max(r.max_yields);
        if samples.len() < 4 {
            if let Some(s) = r.sample {
                samples.push(s);
            }
        }
        per.push(r.per);
    }
    stam::verif::set_yield_callback(None);
    let _ = std::fs::remove_dir_all(&dir);
    let mut cov = Coverage::default();
    cov.states = outcomes_total as u64;
    cov.transitions = total;
    cov.evaluations = total;
    cov.traces_validated = total;
    cov.distinct_nontrivial = per.iter().filter(|p| p["schedules"].as_u64().unwrap_or(0) > 1).count() as u64;
    cov.rule = format!("for every store kind (inline; stand-off members loaded from files; stand-off with a changed dataset; stand-off loaded with a use_include(false) configuration; stand-off written as CBOR and loaded back; built through the API with an unsaved stand-off *.json resource) and every multiset of {} reader bodies (store / dataset / second dataset / resource serialisation to a string, query + parallel iteration; in pairs also a store serialisation with a configuration derived from that of the store): all schedules of the real code with at most {} preemptions (CHESS-style: switching away from a still-runnable thread costs 1; triples of readers only on the inline / stand-off / changed stand-off stores), threads gated at the H2 yield points before every lock operation on the shared serialisation mode and changed flags; oracle: each thread's return value equals its value when run alone on a fresh copy of the store, and a store serialisation afterwards equals the sequential one; states = distinct outcome vectors, transitions = schedules executed; non-trivial = thread sets with more than one schedule; in addition (coverage.parallel_adaptors) every .parallel() adaptor is compared with the sequential iteration it wraps on each query store of C08", rep.tier.pick("2", "2 and 3"), bound);
    cov.samples = samples;
    cov.exhaustive = !capped_any;
    cov.evaluations += pcmp;
    cov.extra.insert("parallel_adaptors".into(), json!({"stores": pstores, "comparisons": pcmp, "rule": "on each of the query stores of C08 (incl. two datasets, two resources, complex and nested targets): every iterator the store, each dataset, key, data item, resource and annotation hands out, and the chained adaptors over all annotations / all data, is collected sequentially and through .parallel(): the two sequences must be identical (deterministic: rayon collects a vector-backed parallel iterator in order)"}));
    cov.extra.insert("preemption_bound".into(), json!(bound));
    cov.extra.insert("schedule_cap_per_thread_set".into(), json!(cap));
    cov.extra.insert("max_yield_points_per_thread".into(), json!(max_yields));
    cov.extra.insert("thread_sets".into(), json!(per));
    cov.assumptions = vec![
        "sequentially consistent interleavings at lock operations; no data races assumed (safe Rust + RwLock); weak-memory effects are not explored".into(),
        "rayon worker threads inside .parallel() run free: that body touches no interior-mutable state (its yield-point count is reported)".into(),
        "store.save() racing on the same files is outside this harness (file contents are not under the scheduler)".into(),
    ];
    cov
}

pub fn replay(rep: &Reporter, case: &Value) {
    if let Some(name) = case["parallel_family"].as_str() {
        println!("replay C20 parallel adaptors on store {}", name);
        let (_, n) = parallel_family(rep, Some(name));
        println!("  {} comparisons", n);
        return;
    }
    stam::verif::set_yield_callback(Some(yield_cb));
    let kind = match case["store"].as_str().unwrap_or("") {
        "Inline" => StoreKind::Inline,
        "Standoff" => StoreKind::Standoff,
        "StandoffNoIncludeConfig" => StoreKind::StandoffNoIncludeConfig,
        "StandoffViaCbor" => StoreKind::StandoffViaCbor,
        "ApiJsonResourceUnsaved" => StoreKind::ApiJsonResourceUnsaved,
        _ => StoreKind::StandoffChanged,
    };
    let all = [Body::StoreJson, Body::DatasetJson, Body::ResourceJson, Body::QueryParallel, Body::Dataset2Json, Body::StoreJsonDerivedConfig];
    let bodies: Vec<Body> = case["bodies"].as_array().map(|a| a.iter().filter_map(|n| all.iter().find(|b| Some(b.name()) == n.as_str()).copied()).collect()).unwrap_or_default();
    let prefix: Vec<usize> = case["schedule"].as_array().map(|a| a.iter().filter_map(|x| x.as_u64().map(|v| v as usize)).collect()).unwrap_or_default();
    let dir = crate::util::work_dir("c20");
    println!("replay C20: store={:?} bodies={:?} schedule={:?}", kind, bodies.iter().map(|b| b.name()).collect::<Vec<_>>(), prefix);
    let solo: Vec<String> = bodies.iter().map(|b| b.run(&build_store(kind, &dir))).collect();
    let store = build_store(kind, &dir);
    match run_schedule(&store, &bodies, &prefix) {
        Ok(x) => {
            for (i, p) in x.points.iter().enumerate() {
                println!("  point {}: enabled {:?} at {:?} -> chose thread {}", i, p.enabled, p.sites, p.enabled[p.chosen]);
            }
            let mut stats = ExploreStats { expected_files: expected_files(kind, &bodies, &dir), schedules: 0, outcomes: Default::default(), max_yields: 0, capped: false };
            check_execution(rep, kind, &dir, &bodies, &solo, &x, &store, &mut stats);
            let _ = std::fs::remove_dir_all(format!("{}-solo", dir));
        }
        Err(d) => println!("  {}", d),
    }
    stam::verif::set_yield_callback(None);
    let _ = std::fs::remove_dir_all(&dir);
}
