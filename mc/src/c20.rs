//! C20 — concurrent readers of a shared store see sequential results.
//! Stateless exploration of thread schedules of the real code under a controlled scheduler: real OS threads gated by a
//! baton; the H2 yield callback (before every lock operation on the shared serialisation mode / changed flags) parks the
//! calling thread and hands control back; DFS over schedules with iterative preemption bounding.

use crate::report::{Coverage, Reporter, Tier};
use crate::util::{catch, fnv64, msg_class};
use serde_json::{json, Value};
use stam::*;
use std::cell::RefCell;
use std::sync::{Arc, Condvar, Mutex};

// ---------------------------------------------------------------------------------------------
// controlled scheduler

struct St {
    turn: Option<usize>,
    parked: Vec<Option<&'static str>>,
    finished: Vec<bool>,
}

struct Sched {
    m: Mutex<St>,
    cv: Condvar,
}

thread_local! {
    static WORKER: RefCell<Option<(usize, Arc<Sched>)>> = RefCell::new(None);
}

/// the H2 callback: a managed thread parks here until the scheduler gives it the baton again
fn yield_cb(site: &'static str) {
    let me = WORKER.with(|w| w.borrow().clone());
    if let Some((id, sched)) = me {
        sched.park(id, site);
    }
}

impl Sched {
    fn new(n: usize) -> Arc<Sched> {
        Arc::new(Sched { m: Mutex::new(St { turn: None, parked: vec![None; n], finished: vec![false; n] }), cv: Condvar::new() })
    }
    fn park(&self, id: usize, site: &'static str) {
        let mut st = self.m.lock().unwrap();
        st.parked[id] = Some(site);
        if st.turn == Some(id) {
            st.turn = None;
        }
        self.cv.notify_all();
        while st.turn != Some(id) {
            st = self.cv.wait(st).unwrap();
        }
        st.parked[id] = None;
    }
    fn finish(&self, id: usize) {
        let mut st = self.m.lock().unwrap();
        st.finished[id] = true;
        if st.turn == Some(id) {
            st.turn = None;
        }
        self.cv.notify_all();
    }
}

#[derive(Clone, Debug)]
pub struct Point {
    /// enabled threads in canonical order: the running thread first if still enabled, then ascending ids
    pub enabled: Vec<usize>,
    pub chosen: usize, // index into enabled
    pub running_still_enabled: bool,
    pub sites: Vec<&'static str>,
}

pub struct Execution {
    pub points: Vec<Point>,
    pub results: Vec<Result<String, String>>,
    pub deadlock: bool,
    pub yields_per_thread: Vec<usize>,
}

/// Run the bodies once under the scheduler, following `prefix` (indices into the enabled lists) and taking choice 0
/// (no preemption) afterwards. A choice outside the enabled list is a hard error (schedule divergence).
fn run_schedule(store: &AnnotationStore, bodies: &[Body], prefix: &[usize]) -> Result<Execution, String> {
    let n = bodies.len();
    let sched = Sched::new(n);
    let mut results: Vec<Result<String, String>> = vec![Err("not run".into()); n];
    let mut points: Vec<Point> = Vec::new();
    let mut deadlock = false;
    let mut yields = vec![0usize; n];
    let mut diverged: Option<String> = None;
    std::thread::scope(|scope| {
        let mut handles = Vec::new();
        for (id, body) in bodies.iter().enumerate() {
            let sched = sched.clone();
            let body = *body;
            handles.push(scope.spawn(move || {
                WORKER.with(|w| *w.borrow_mut() = Some((id, sched.clone())));
                sched.park(id, "start");
                let r = catch(|| body.run(store));
                WORKER.with(|w| *w.borrow_mut() = None);
                sched.finish(id);
                r
            }));
        }
        // the scheduler
        let mut last: Option<usize> = None;
        loop {
            let mut st = sched.m.lock().unwrap();
            while !(st.turn.is_none() && (0..n).all(|i| st.finished[i] || st.parked[i].is_some())) {
                st = sched.cv.wait(st).unwrap();
            }
            let mut enabled: Vec<usize> = (0..n).filter(|i| st.parked[*i].is_some()).collect();
            if enabled.is_empty() {
                deadlock = !(0..n).all(|i| st.finished[i]);
                break;
            }
            let running_still_enabled = last.map(|l| enabled.contains(&l)).unwrap_or(false);
            if let Some(l) = last {
                if running_still_enabled {
                    enabled.retain(|x| *x != l);
                    enabled.insert(0, l);
                }
            }
            let k = points.len();
            let choice = if k < prefix.len() { prefix[k] } else { 0 };
            if choice >= enabled.len() {
                diverged = Some(format!("schedule divergence at point {}: choice {} but only {} threads enabled", k, choice, enabled.len()));
                // let everything run to completion in default order so that the threads can be joined
                let c = 0;
                let t = enabled[c];
                st.turn = Some(t);
                last = Some(t);
                sched.cv.notify_all();
                continue;
            }
            let sites = enabled.iter().map(|i| st.parked[*i].unwrap()).collect();
            let t = enabled[choice];
            if st.parked[t] != Some("start") {
                yields[t] += 1;
            }
            points.push(Point { enabled: enabled.clone(), chosen: choice, running_still_enabled, sites });
            st.turn = Some(t);
            last = Some(t);
            sched.cv.notify_all();
        }
        for (i, h) in handles.into_iter().enumerate() {
            results[i] = match h.join() {
                Ok(r) => r,
                Err(_) => Err("thread panicked outside catch".into()),
            };
        }
    });
    if let Some(d) = diverged {
        return Err(d);
    }
    Ok(Execution { points, results, deadlock, yields_per_thread: yields })
}

// ---------------------------------------------------------------------------------------------
// harness bodies and stores

#[derive(Clone, Copy, Debug, PartialEq, Eq)]
pub enum Body {
    /// store.to_json_string
    StoreJson,
    /// first dataset serialised to a string through ToJson
    DatasetJson,
    /// first resource serialised to a string through ToJson
    ResourceJson,
    /// a query and a parallel iteration (touches no interior-mutable state)
    QueryParallel,
    /// second dataset (if any) to a string
    Dataset2Json,
}

impl Body {
    fn run(&self, store: &AnnotationStore) -> String {
        match self {
            Body::StoreJson => match store.to_json_string(store.config()) {
                Ok(s) => s,
                Err(e) => format!("ERR {}", e),
            },
            Body::DatasetJson | Body::Dataset2Json => {
                let idx = if *self == Body::DatasetJson { 0 } else { 1 };
                match store.datasets().nth(idx) {
                    Some(ds) => match ToJson::to_json_string(ds.as_ref(), ds.as_ref().config()) {
                        Ok(s) => s,
                        Err(e) => format!("ERR {}", e),
                    },
                    None => "no dataset".into(),
                }
            }
            Body::ResourceJson => match store.resources().next() {
                Some(r) => match ToJson::to_json_string(r.as_ref(), r.as_ref().config()) {
                    Ok(s) => s,
                    Err(e) => format!("ERR {}", e),
                },
                None => "no resource".into(),
            },
            Body::QueryParallel => {
                use rayon::prelude::*;
                let mut out = String::new();
                if let Ok((q, _)) = Query::parse("SELECT ANNOTATION ?a WHERE DATA \"s0\" \"k0\";") {
                    if let Ok(iter) = store.query(q) {
                        out.push_str(&format!("rows={};", iter.count()));
                    }
                }
                let mut texts: Vec<String> = store.annotations().parallel().map(|a| format!("{:?}:{}", a.id(), a.text_join("|"))).collect();
                texts.sort();
                out.push_str(&texts.join(","));
                out
            }
        }
    }
    fn name(&self) -> &'static str {
        match self {
            Body::StoreJson => "store.to_json_string",
            Body::DatasetJson => "dataset.to_json_string",
            Body::ResourceJson => "resource.to_json_string",
            Body::QueryParallel => "query+parallel",
            Body::Dataset2Json => "dataset2.to_json_string",
        }
    }
}

#[derive(Clone, Copy, Debug, PartialEq, Eq)]
pub enum StoreKind {
    /// everything inline
    Inline,
    /// datasets and resource stand-off (@include), loaded from files: changed = false
    Standoff,
    /// as Standoff, then an annotation is added whose data goes into a stand-off dataset: changed = true
    StandoffChanged,
}

fn base_doc_files(dir: &str) -> String {
    let _ = std::fs::remove_dir_all(dir);
    std::fs::create_dir_all(dir).expect("workdir");
    std::fs::write(format!("{}/r0", dir), "a\u{e9} \u{1d11e}d").unwrap();
    std::fs::write(
        format!("{}/s0.annotationset.stam.json", dir),
        r#"{"@type":"AnnotationDataSet","@id":"s0","keys":[{"@type":"DataKey","@id":"k0"}],"data":[{"@type":"AnnotationData","@id":"D0","key":"k0","value":{"@type":"String","value":"v"}}]}"#,
    )
    .unwrap();
    std::fs::write(
        format!("{}/s1.annotationset.stam.json", dir),
        r#"{"@type":"AnnotationDataSet","@id":"s1","keys":[{"@type":"DataKey","@id":"k0"}],"data":[{"@type":"AnnotationData","@id":"E0","key":"k0","value":{"@type":"Int","value":1}}]}"#,
    )
    .unwrap();
    let root = r#"{"@type":"AnnotationStore","@id":"root",
"resources":[{"@type":"TextResource","@include":"r0"}],
"annotationsets":[{"@type":"AnnotationDataSet","@id":"s0","@include":"s0.annotationset.stam.json"},{"@type":"AnnotationDataSet","@id":"s1","@include":"s1.annotationset.stam.json"}],
"annotations":[{"@type":"Annotation","@id":"a0","target":{"@type":"TextSelector","resource":"r0","offset":{"@type":"Offset","begin":{"@type":"BeginAlignedCursor","value":0},"end":{"@type":"BeginAlignedCursor","value":3}}},"data":[{"@type":"AnnotationData","@id":"D0","set":"s0"}]},
{"@type":"Annotation","@id":"a1","target":{"@type":"TextSelector","resource":"r0","offset":{"@type":"Offset","begin":{"@type":"BeginAlignedCursor","value":3}},"end":{"@type":"EndAlignedCursor","value":0}}},"data":[{"@type":"AnnotationData","@id":"E0","set":"s1"}]}]}"#;
    let path = format!("{}/root.store.stam.json", dir);
    std::fs::write(&path, root.replace("\"value\":3}},\"end\"", "\"value\":3},\"end\"")).unwrap();
    path
}

pub fn build_store(kind: StoreKind, dir: &str) -> AnnotationStore {
    match kind {
        StoreKind::Inline => {
            let mut s = AnnotationStore::new(Config::default());
            s.add_resource(TextResourceBuilder::new().with_id("r0").with_text("a\u{e9} \u{1d11e}d")).unwrap();
            s.annotate(AnnotationBuilder::new().with_id("a0").with_target(SelectorBuilder::textselector("r0", Offset::simple(0, 3))).with_data_with_id("s0", "k0", "v", "D0")).unwrap();
            s.annotate(
                AnnotationBuilder::new()
                    .with_id("a1")
                    .with_target(SelectorBuilder::textselector("r0", Offset::new(Cursor::BeginAligned(3), Cursor::EndAligned(0))))
                    .with_data_with_id("s1", "k0", 1isize, "E0"),
            )
            .unwrap();
            s
        }
        StoreKind::Standoff | StoreKind::StandoffChanged => {
            let root = base_doc_files(dir);
            let mut s = AnnotationStore::from_file(&root, Config::default().with_use_include(true)).expect("load stand-off store");
            if kind == StoreKind::StandoffChanged {
                s.annotate(AnnotationBuilder::new().with_id("a2").with_target(SelectorBuilder::resourceselector("r0")).with_data_with_id("s0", "k1", "w", "D1")).unwrap();
            }
            s
        }
    }
}

// ---------------------------------------------------------------------------------------------
// exploration

pub struct ExploreStats {
    pub schedules: u64,
    pub outcomes: std::collections::BTreeSet<u64>,
    pub max_yields: usize,
    pub capped: bool,
}

fn schedule_json(x: &Execution) -> Value {
    json!(x.points.iter().map(|p| p.chosen).collect::<Vec<_>>())
}

#[allow(clippy::too_many_arguments)]
fn explore_rec(
    rep: &Reporter,
    kind: StoreKind,
    dir: &str,
    bodies: &[Body],
    solo: &[String],
    bound: usize,
    prefix: Vec<usize>,
    stats: &mut ExploreStats,
    cap: u64,
) {
    if stats.schedules >= cap {
        stats.capped = true;
        return;
    }
    let store = build_store(kind, dir);
    let x = match run_schedule(&store, bodies, &prefix) {
        Ok(x) => x,
        Err(d) => {
            // a divergence while replaying a prefix means the harness does not own all nondeterminism: machinery failure
            println!("MACHINERY: {}", d);
            std::process::exit(2);
        }
    };
    stats.schedules += 1;
    stats.max_yields = stats.max_yields.max(x.yields_per_thread.iter().copied().max().unwrap_or(0));
    check_execution(rep, kind, bodies, solo, &x, &store, stats);
    // extend: alternatives at every later point within the preemption bound
    let mut preemptions = 0usize;
    let choices: Vec<usize> = x.points.iter().map(|p| p.chosen).collect();
    for i in 0..x.points.len() {
        let p = &x.points[i];
        if i >= prefix.len() {
            let cost_alt = preemptions + if p.running_still_enabled { 1 } else { 0 };
            if cost_alt <= bound {
                for alt in 1..p.enabled.len() {
                    let mut np = choices[..i].to_vec();
                    np.push(alt);
                    explore_rec(rep, kind, dir, bodies, solo, bound, np, stats, cap);
                }
            }
        }
        if p.running_still_enabled && p.chosen != 0 {
            preemptions += 1;
        }
    }
}

fn check_execution(rep: &Reporter, kind: StoreKind, bodies: &[Body], solo: &[String], x: &Execution, store: &AnnotationStore, stats: &mut ExploreStats) {
    let names: Vec<&str> = bodies.iter().map(|b| b.name()).collect();
    let case = || json!({"store": format!("{:?}", kind), "bodies": names, "schedule": schedule_json(x)});
    let combo = names.join("||");
    let mut outcome_key = String::new();
    if x.deadlock {
        rep.fail(&format!("{:?}|{}|deadlock", kind, combo), x.points.len() as u64, || "no thread enabled although not all have finished".into(), case);
    }
    for (i, r) in x.results.iter().enumerate() {
        match r {
            Err(p) => {
                outcome_key.push_str(&format!("P{}", msg_class(p)));
                rep.fail(&format!("{:?}|{}|thread={}|panic:{}", kind, combo, names[i], msg_class(p)), x.points.len() as u64, || format!("thread {} panicked", names[i]), case);
            }
            Ok(s) => {
                outcome_key.push_str(&format!("{:x};", fnv64(s.as_bytes())));
                if *s != solo[i] {
                    // how does it differ: stand-off member emitted inline, or @include emitted instead of content
                    let how = if s.matches("@include").count() < solo[i].matches("@include").count() {
                        "standoff-member-emitted-inline"
                    } else if s.matches("@include").count() > solo[i].matches("@include").count() {
                        "include-emitted-instead-of-content"
                    } else {
                        "differs"
                    };
                    let mut others: Vec<&str> = names.iter().enumerate().filter(|(j, _)| *j != i).map(|(_, n)| *n).collect();
                    others.sort();
                    others.dedup();
                    rep.fail(
                        &format!("{:?}|victim={}|{}|concurrent-toggler={}", kind, names[i], how, if others.iter().any(|o| o.ends_with("to_json_string")) { "yes" } else { "no" }),
                        x.points.len() as u64,
                        || format!("thread {} returned a result different from running alone ({} vs {} bytes); schedule {:?}", names[i], s.len(), solo[i].len(), x.points.iter().map(|p| p.chosen).collect::<Vec<_>>()),
                        case,
                    );
                }
            }
        }
    }
    // afterwards a single reader must again see the sequential result (no state left behind)
    let after = catch(|| Body::StoreJson.run(store));
    let solo_store = catch(|| Body::StoreJson.run(&build_store(kind, &format!("{}-solo", "/verif/.work/c20"))));
    if let (Ok(a), Ok(b)) = (&after, &solo_store) {
        outcome_key.push_str(&format!("A{:x}", fnv64(a.as_bytes())));
        if a != b {
            rep.fail(&format!("{:?}|{}|after|store-serialisation-differs-afterwards", kind, combo), x.points.len() as u64, || "a store serialisation after all readers finished differs from the sequential one (state left behind)".into(), case);
        }
    }
    stats.outcomes.insert(fnv64(outcome_key.as_bytes()));
}

fn combos(tier: Tier) -> Vec<Vec<Body>> {
    let b = [Body::StoreJson, Body::DatasetJson, Body::ResourceJson, Body::QueryParallel, Body::Dataset2Json];
    let mut v: Vec<Vec<Body>> = Vec::new();
    for i in 0..b.len() {
        for j in i..b.len() {
            v.push(vec![b[i], b[j]]);
        }
    }
    if tier == Tier::Thorough {
        for i in 0..b.len() {
            for j in i..b.len() {
                for k in j..b.len() {
                    v.push(vec![b[i], b[j], b[k]]);
                }
            }
        }
    }
    v
}

pub fn run(rep: &Reporter) -> Coverage {
    stam::verif::set_yield_callback(Some(yield_cb));
    let dir = format!("/verif/.work/c20-{}", std::process::id());
    let bound = rep.tier.pick(2, 3);
    let cap: u64 = rep.tier.pick(20_000, 400_000);
    let mut total = 0u64;
    let mut outcomes_total = 0usize;
    let mut per = Vec::new();
    let mut capped_any = false;
    let mut max_yields = 0;
    let mut samples = Vec::new();
    for kind in [StoreKind::Inline, StoreKind::Standoff, StoreKind::StandoffChanged] {
        for bodies in combos(rep.tier) {
            // solo results on fresh copies of the same store
            let solo: Vec<String> = bodies.iter().map(|b| b.run(&build_store(kind, &dir))).collect();
            // determinism: the default schedule twice must give identical observations
            let s1 = build_store(kind, &dir);
            let x1 = run_schedule(&s1, &bodies, &[]).expect("default schedule");
            let s2 = build_store(kind, &dir);
            let x2 = run_schedule(&s2, &bodies, &[]).expect("default schedule");
            if x1.results != x2.results || x1.points.len() != x2.points.len() {
                println!("MACHINERY: replaying the default schedule twice gave different observations for {:?} {:?}", kind, bodies);
                std::process::exit(2);
            }
            let mut stats = ExploreStats { schedules: 0, outcomes: Default::default(), max_yields: 0, capped: false };
            // iterative preemption bounding: the final bound subsumes the lower ones; run it directly (the search is simplest-first)
            explore_rec(rep, kind, &dir, &bodies, &solo, bound, vec![], &mut stats, cap);
            total += stats.schedules;
            outcomes_total += stats.outcomes.len();
            capped_any |= stats.capped;
            max_yields = max_yields.max(stats.max_yields);
            if samples.len() < 4 && stats.schedules > 3 {
                samples.push(json!({"store": format!("{:?}", kind), "bodies": bodies.iter().map(|b| b.name()).collect::<Vec<_>>(), "default_schedule_points": x1.points.iter().map(|p| json!({"enabled": p.enabled, "sites": p.sites})).collect::<Vec<_>>()}));
            }
            per.push(json!({"store": format!("{:?}", kind), "bodies": bodies.iter().map(|b| b.name()).collect::<Vec<_>>(), "schedules": stats.schedules, "distinct_outcomes": stats.outcomes.len(), "max_yield_points_per_thread": stats.max_yields, "capped": stats.capped}));
        }
    }
    stam::verif::set_yield_callback(None);
    let _ = std::fs::remove_dir_all(&dir);
    let _ = std::fs::remove_dir_all("/verif/.work/c20-solo");
    let mut cov = Coverage::default();
    cov.states = outcomes_total as u64;
    cov.transitions = total;
    cov.evaluations = total;
    cov.traces_validated = total;
    cov.distinct_nontrivial = per.iter().filter(|p| p["schedules"].as_u64().unwrap_or(0) > 1).count() as u64;
    cov.rule = format!("for every store kind (inline; stand-off members loaded from files; stand-off with a changed dataset) and every multiset of {} reader bodies (store / dataset / second dataset / resource serialisation to a string, query + parallel iteration): all schedules of the real code with at most {} preemptions (CHESS-style: switching away from a still-runnable thread costs 1), threads gated at the H2 yield points before every lock operation on the shared serialisation mode and changed flags; oracle: each thread's return value equals its value when run alone on a fresh copy of the store, and a store serialisation afterwards equals the sequential one; states = distinct outcome vectors, transitions = schedules executed; non-trivial = thread sets with more than one schedule", rep.tier.pick("2", "2 and 3"), bound);
    cov.samples = samples;
    cov.exhaustive = !capped_any;
    cov.extra.insert("preemption_bound".into(), json!(bound));
    cov.extra.insert("schedule_cap_per_thread_set".into(), json!(cap));
    cov.extra.insert("max_yield_points_per_thread".into(), json!(max_yields));
    cov.extra.insert("thread_sets".into(), json!(per));
    cov.assumptions = vec![
        "sequentially consistent interleavings at lock operations; no data races assumed (safe Rust + RwLock); weak-memory effects are not explored".into(),
        "rayon worker threads inside .parallel() run free: that body touches no interior-mutable state (its yield-point count is reported)".into(),
        "store.save() racing on the same files is outside this harness (file contents are not under the scheduler)".into(),
    ];
    cov
}

pub fn replay(rep: &Reporter, case: &Value) {
    stam::verif::set_yield_callback(Some(yield_cb));
    let kind = match case["store"].as_str().unwrap_or("") {
        "Inline" => StoreKind::Inline,
        "Standoff" => StoreKind::Standoff,
        _ => StoreKind::StandoffChanged,
    };
    let all = [Body::StoreJson, Body::DatasetJson, Body::ResourceJson, Body::QueryParallel, Body::Dataset2Json];
    let bodies: Vec<Body> = case["bodies"].as_array().map(|a| a.iter().filter_map(|n| all.iter().find(|b| Some(b.name()) == n.as_str()).copied()).collect()).unwrap_or_default();
    let prefix: Vec<usize> = case["schedule"].as_array().map(|a| a.iter().filter_map(|x| x.as_u64().map(|v| v as usize)).collect()).unwrap_or_default();
    let dir = format!("/verif/.work/c20-{}", std::process::id());
    println!("replay C20: store={:?} bodies={:?} schedule={:?}", kind, bodies.iter().map(|b| b.name()).collect::<Vec<_>>(), prefix);
    let solo: Vec<String> = bodies.iter().map(|b| b.run(&build_store(kind, &dir))).collect();
    let store = build_store(kind, &dir);
    match run_schedule(&store, &bodies, &prefix) {
        Ok(x) => {
            for (i, p) in x.points.iter().enumerate() {
                println!("  point {}: enabled {:?} at {:?} -> chose thread {}", i, p.enabled, p.sites, p.enabled[p.chosen]);
            }
            let mut stats = ExploreStats { schedules: 0, outcomes: Default::default(), max_yields: 0, capped: false };
            check_execution(rep, kind, &bodies, &solo, &x, &store, &mut stats);
        }
        Err(d) => println!("  {}", d),
    }
    stam::verif::set_yield_callback(None);
    let _ = std::fs::remove_dir_all(&dir);
}
