//! C11 — CBOR round trip preserves the store and all of its indices.
//! Every state of the history exploration is saved as .cbor and loaded again (shrink_to_fit on and off);
//! the complete internal dump (H1), the public observation and a query battery must be identical.

use crate::c01::plans;
use crate::c05::{value_class, value_menu, value_store};
use crate::hist::*;
use crate::observe::*;
use crate::ops::replay_real;
use crate::report::{Coverage, Reporter};
use crate::ser::*;
use crate::util::{catch, msg_class};
use rayon::prelude::*;
use serde_json::{json, Value};
use stam::*;
use std::sync::atomic::{AtomicU64, Ordering};

pub struct C11 {
    pub roundtrips: AtomicU64,
    pub workdir: String,
}

const QUERIES: [&str; 6] = [
    "SELECT ANNOTATION ?a",
    "SELECT ANNOTATION ?a WHERE DATA \"s0\" \"k0\";",
    "SELECT TEXT ?t",
    "SELECT DATA ?d WHERE DATASET \"s0\";",
    "SELECT RESOURCE ?r",
    "SELECT ANNOTATION ?a WHERE RESOURCE \"r0\";",
];

/// results of the query battery, rendered
fn query_battery(store: &AnnotationStore) -> Vec<String> {
    let mut out = Vec::new();
    for q in QUERIES {
        let r = catch(|| -> Result<Vec<String>, String> {
            let (query, _) = Query::parse(q).map_err(|e| format!("{}", e))?;
            let iter = store.query(query).map_err(|e| format!("{}", e))?;
            let mut rows = Vec::new();
            for row in iter {
                let mut cols = Vec::new();
                for item in row.iter() {
                    cols.push(match item {
                        QueryResultItem::Annotation(a) => format!("A{}:{:?}", a.handle().as_usize(), a.id()),
                        QueryResultItem::TextSelection(t) => format!("T{}..{}", t.begin(), t.end()),
                        QueryResultItem::AnnotationData(d) => format!("D{}:{:?}", d.handle().as_usize(), d.id()),
                        QueryResultItem::TextResource(r) => format!("R{}:{:?}", r.handle().as_usize(), r.id()),
                        QueryResultItem::DataKey(k) => format!("K{}", k.as_str()),
                        QueryResultItem::AnnotationDataSet(s) => format!("S{:?}", s.id()),
                        _ => "?".into(),
                    });
                }
                rows.push(cols.join(","));
            }
            Ok(rows)
        });
        out.push(match r {
            Ok(Ok(rows)) => format!("{} => {:?}", q, rows),
            Ok(Err(e)) => format!("{} => error {}", q, msg_class(&e)),
            Err(p) => format!("{} => panic {}", q, msg_class(&p)),
        });
    }
    out
}

/// What every public id and every temporary id (`!A<n>`, `!R<n>`, `!S<n>`, and per dataset `!K<n>`, `!D<n>`, n up to one past
/// the highest handle) resolves to, through the lookup functions of the public API.
fn id_lookups(s: &AnnotationStore) -> Vec<String> {
    let mut v = Vec::new();
    let show = |kind: &str, id: &str, r: Option<(usize, Option<String>)>| format!("{} {:?} -> {:?}", kind, id, r);
    let na = s.annotations().map(|a| a.handle().as_usize() + 1).max().unwrap_or(0);
    let nr = s.resources().map(|a| a.handle().as_usize() + 1).max().unwrap_or(0);
    let ns = s.datasets().map(|a| a.handle().as_usize() + 1).max().unwrap_or(0);
    let mut ids: Vec<String> = s.annotations().filter_map(|a| a.id().map(|x| x.to_string())).collect();
    ids.extend((0..=na).map(|n| format!("!A{}", n)));
    for id in &ids {
        v.push(show("annotation", id, s.annotation(id.as_str()).map(|x| (x.handle().as_usize(), x.id().map(|i| i.to_string())))));
    }
    let mut ids: Vec<String> = s.resources().filter_map(|a| a.id().map(|x| x.to_string())).collect();
    ids.extend((0..=nr).map(|n| format!("!R{}", n)));
    for id in &ids {
        v.push(show("resource", id, s.resource(id.as_str()).map(|x| (x.handle().as_usize(), x.id().map(|i| i.to_string())))));
    }
    let mut ids: Vec<String> = s.datasets().filter_map(|a| a.id().map(|x| x.to_string())).collect();
    ids.extend((0..=ns).map(|n| format!("!S{}", n)));
    for id in &ids {
        v.push(show("dataset", id, s.dataset(id.as_str()).map(|x| (x.handle().as_usize(), x.id().map(|i| i.to_string())))));
    }
    for ds in s.datasets() {
        let set = ds.handle();
        let nk = ds.keys().map(|k| k.handle().as_usize() + 1).max().unwrap_or(0);
        let nd = ds.data().map(|d| d.handle().as_usize() + 1).max().unwrap_or(0);
        let mut ids: Vec<String> = ds.keys().map(|k| k.as_str().to_string()).collect();
        ids.extend((0..=nk).map(|n| format!("!K{}", n)));
        for id in &ids {
            v.push(show(&format!("key of set {}", set.as_usize()), id, s.key(set, id.as_str()).map(|x| (x.handle().as_usize(), Some(x.as_str().to_string())))));
        }
        let mut ids: Vec<String> = ds.data().filter_map(|d| d.id().map(|x| x.to_string())).collect();
        ids.extend((0..=nd).map(|n| format!("!D{}", n)));
        for id in &ids {
            v.push(show(&format!("data of set {}", set.as_usize()), id, s.annotationdata(set, id.as_str()).map(|x| (x.handle().as_usize(), x.id().map(|i| i.to_string())))));
        }
    }
    v
}

fn first_dump_diff(a: &str, b: &str) -> String {
    for (x, y) in a.lines().zip(b.lines()) {
        if x != y {
            let section = x.split('=').next().unwrap_or("?").to_string();
            // generalise indices in the section name
            return crate::util::msg_class(&section);
        }
    }
    "length".into()
}

pub fn cbor_roundtrip(store: &mut AnnotationStore, file: &str, shrink: bool) -> Option<RoundTripFail> {
    let r = catch(|| store.to_file(file));
    match r {
        Err(p) => return Some(RoundTripFail { symptom: format!("save-panic:{}", msg_class(&p)), detail: String::new() }),
        Ok(Err(e)) => return Some(RoundTripFail { symptom: format!("save-err:{}", err_class(&e)), detail: format!("{}", e) }),
        Ok(Ok(())) => {}
    }
    let loaded = match catch(|| AnnotationStore::from_file(file, Config::default().with_shrink_to_fit(shrink))) {
        Err(p) => return Some(RoundTripFail { symptom: format!("load-panic:{}", msg_class(&p)), detail: String::new() }),
        Ok(Err(e)) => return Some(RoundTripFail { symptom: format!("load-err:{}", err_class(&e)), detail: format!("{}", e) }),
        Ok(Ok(s)) => s,
    };
    let _ = std::fs::remove_file(file);
    let (d1, d2) = (store.verif_dump(), loaded.verif_dump());
    if d1 != d2 {
        let sec = first_dump_diff(&d1, &d2);
        let (l1, l2) = d1.lines().zip(d2.lines()).find(|(x, y)| x != y).map(|(x, y)| (x.to_string(), y.to_string())).unwrap_or_default();
        return Some(RoundTripFail { symptom: format!("dump-differs@{}", sec), detail: format!("saved: {} loaded: {}", l1.chars().take(400).collect::<String>(), l2.chars().take(400).collect::<String>()) });
    }
    let obs = |s: &AnnotationStore| {
        catch(|| {
            let mut v: Vec<(String, String)> = ser_abstract(s, true, true);
            for f in check_reverse(s) {
                v.push(("reverse".into(), format!("{} {} {}", f.accessor, f.symptom, f.detail)));
            }
            v.push(("index".into(), format!("{:?}", s.index_totalcount())));
            for l in id_lookups(s) {
                v.push(("id-lookup".into(), l));
            }
            for q in query_battery(s) {
                v.push(("query".into(), q));
            }
            v
        })
    };
    match (obs(store), obs(&loaded)) {
        (Ok(a), Ok(b)) => {
            if a != b {
                let (x, y) = a.iter().zip(b.iter()).find(|(x, y)| x != y).map(|(x, y)| (x.clone(), y.clone())).unwrap_or((("length".into(), String::new()), ("length".into(), String::new())));
                let aspect = if x.0 == "annotation" || x.0 == "data" { diff_aspect(&format!("original Some({:?}) reloaded Some({:?})", x.1, y.1)) } else { String::new() };
                return Some(RoundTripFail { symptom: format!("observation-differs@{}:{}", x.0, aspect), detail: format!("saved: {} loaded: {}", x.1, y.1) });
            }
        }
        (Err(p), _) | (_, Err(p)) => return Some(RoundTripFail { symptom: format!("observation-panic:{}", msg_class(&p)), detail: String::new() }),
    }
    None
}

impl Oracle for C11 {
    fn transition(&self, rep: &Reporter, t: &Trans) -> bool {
        if t.divergence.is_some() || !t.new_state {
            return true;
        }
        let mut hist = t.hist.to_vec();
        hist.push(t.op.clone());
        for shrink in [false, true] {
            let (mut store, _) = replay_real(&hist);
            self.roundtrips.fetch_add(1, Ordering::Relaxed);
            let file = format!("{}/{:?}.store.stam.cbor", self.workdir, std::thread::current().id()).replace(['(', ')'], "");
            if let Some(f) = cbor_roundtrip(&mut store, &file, shrink) {
                rep.fail(
                    &format!("shrink={}|{}", shrink, f.symptom),
                    t.ord,
                    || f.detail.clone(),
                    || json!({"history": history_json(&hist, None), "shrink_to_fit": shrink}),
                );
            }
        }
        // the same after text protection (protect_text edits annotations and the data index by hand)
        if !t.post_model.live_anns().is_empty() {
            let (mut store, _) = replay_real(&hist);
            if store.protect_text(TextValidationMode::Both).is_ok() {
                self.roundtrips.fetch_add(1, Ordering::Relaxed);
                let file = format!("{}/{:?}.p.store.stam.cbor", self.workdir, std::thread::current().id()).replace(['(', ')'], "");
                if let Some(f) = cbor_roundtrip(&mut store, &file, false) {
                    rep.fail(
                        &format!("after-protect_text|{}", f.symptom),
                        t.ord,
                        || f.detail.clone(),
                        || json!({"history": history_json(&hist, None), "then": "protect_text(Both)"}),
                    );
                }
            }
        }
        true
    }
}

pub fn run(rep: &Reporter) -> Coverage {
    let workdir = crate::util::work_dir("w");
    std::fs::create_dir_all(&workdir).expect("workdir");
    let oracle = C11 { roundtrips: AtomicU64::new(0), workdir: workdir.clone() };
    let mut cov = Coverage::default();
    let mut runs = Vec::new();
    let budget = rep.tier.pick(45.0, 1500.0);
    let mut exhaustive = true;
    for plan in plans(rep.tier) {
        let stats = explore(rep, &oracle, &plan.init, &plan.al, plan.depth, budget);
        cov.states += stats.states;
        cov.transitions += stats.transitions;
        cov.distinct_nontrivial += stats.nontrivial_states;
        exhaustive &= stats.completed_depth == plan.depth;
        for h in &stats.sample_histories {
            if cov.samples.len() < 4 {
                cov.samples.push(json!({"history": h, "then": "save as .cbor, load with shrink_to_fit off/on, compare dump + observation + queries"}));
            }
        }
        runs.push(json!({"exploration": plan.name, "depth_requested": plan.depth, "depth_completed": stats.completed_depth,
            "new_states_per_depth": stats.depth_hist, "transitions": stats.transitions}));
    }
    // value sweep incl. NaN / infinities
    let values = value_menu(true);
    values.par_iter().enumerate().for_each(|(i, v)| {
        let mut store = match value_store(v, "k", Some("D"), Some("A")) {
            Ok(s) => s,
            Err(_) => return,
        };
        oracle.roundtrips.fetch_add(1, Ordering::Relaxed);
        let file = format!("{}/sweep{}.store.stam.cbor", workdir, i);
        if let Some(f) = cbor_roundtrip(&mut store, &file, false) {
            rep.fail(
                &format!("sweep|value|{}|{}", value_class(v), f.symptom),
                (1 << 60) + i as u64,
                || format!("value={:?}: {}", v, f.detail),
                || json!({"sweep": {"value": format!("{:?}", v), "index": i}}),
            );
        }
    });
    // milestones: texts around and beyond the milestone interval (default 100) and short texts under small intervals,
    // with 0..2 annotations: the stored position index has entries that no text selection owns
    let nmile = milestone_family(rep, &workdir, &oracle.roundtrips);
    cov.extra.insert("milestone_stores".into(), json!(nmile));
    let _ = std::fs::remove_dir_all(&workdir);
    cov.samples.push(json!({"sweep": "store with one data value Float(NaN) / Datetime(…45.250+01:00) / nested List saved and loaded as CBOR"}));
    cov.exhaustive = exhaustive;
    cov.evaluations = oracle.roundtrips.load(Ordering::Relaxed);
    cov.traces_validated = cov.transitions;
    cov.extra.insert("explorations".into(), json!(runs));
    cov.extra.insert("value_sweep_stores".into(), json!(values.len()));
    cov.rule = "every distinct state of the history exploration (as C01; incl. gaps after removals) is saved with to_file(*.cbor) and loaded with from_file, shrink_to_fit off and on; the complete internal dump (hook H1: all item vectors, id maps, every reverse index entry, position indices) must be equal line by line, and the public observation (abstract content, reverse-lookup self-consistency, index_totalcount, what every public id and every temporary id up to one past the highest handle resolves to, a battery of 6 queries) must be equal; value sweep: one store per value of the menu incl. NaN and infinities; milestone family: texts of 99 / 100 / 101 / 200 / 250 codepoints under the default interval and 8-codepoint texts under intervals 1, 2, 3, 7, each with 0..2 annotations; non-trivial = states with a removed and a live annotation".into();
    cov.assumptions = vec!["NaN float values are compared through their Debug rendering".into()];
    cov
}

fn milestone_cases() -> Vec<(String, String, usize, usize)> {
    // (label, text, milestone interval (0 = default), number of annotations)
    let unit = "a\u{e9}b\u{1d11e} ";
    let mut v = Vec::new();
    for len in [99usize, 100, 101, 200, 250] {
        let text: String = unit.chars().cycle().take(len).collect();
        for nann in 0..=2 {
            v.push((format!("len{}|default-interval|anns={}", len, nann), text.clone(), 0, nann));
        }
    }
    for interval in [1usize, 2, 3, 7] {
        let text: String = unit.chars().cycle().take(8).collect();
        for nann in 0..=2 {
            v.push((format!("len8|interval{}|anns={}", interval, nann), text.clone(), interval, nann));
        }
    }
    v
}

fn milestone_family(rep: &Reporter, workdir: &str, counter: &AtomicU64) -> usize {
    let cases = milestone_cases();
    cases.par_iter().enumerate().for_each(|(i, (label, text, interval, nann))| {
        for shrink in [false, true] {
            let cfg = if *interval == 0 { Config::default() } else { Config::default().with_milestone_interval(*interval) };
            let built = catch(|| -> Result<AnnotationStore, StamError> {
                let mut s = AnnotationStore::new(cfg);
                s.add_resource(TextResourceBuilder::new().with_id("r").with_text(text.clone()))?;
                let len = text.chars().count();
                for k in 0..*nann {
                    let (b, e) = if k == 0 { (1, 4) } else { (len - 3, len) };
                    s.annotate(AnnotationBuilder::new().with_id(format!("a{}", k)).with_target(SelectorBuilder::textselector("r", Offset::simple(b, e))).with_data("s", "k", "v"))?;
                }
                Ok(s)
            });
            let mut store = match built {
                Ok(Ok(s)) => s,
                _ => continue,
            };
            counter.fetch_add(1, Ordering::Relaxed);
            let file = format!("{}/mile{}-{}.store.stam.cbor", workdir, i, shrink as u8);
            if let Some(f) = cbor_roundtrip(&mut store, &file, shrink) {
                rep.fail(
                    &format!("milestones|{}|shrink={}|{}", label, shrink, f.symptom),
                    (1 << 61) + i as u64,
                    || format!("text of {} codepoints, milestone interval {}, {} annotations, shrink_to_fit={}: {}", text.chars().count(), interval, nann, shrink, f.detail),
                    || json!({"milestones": {"index": i, "label": label}}),
                );
            }
        }
    });
    cases.len() * 2
}

pub fn replay(rep: &Reporter, case: &Value) {
    if case.get("milestones").is_some() {
        println!("replay C11 milestone family: {}", case["milestones"]);
        let c = AtomicU64::new(0);
        let dir = crate::util::work_dir("w");
        std::fs::create_dir_all(&dir).expect("workdir");
        milestone_family(rep, &dir, &c);
        let _ = std::fs::remove_dir_all(&dir);
        return;
    }
    let hist = history_from_json(&case["history"]);
    println!("replay C11: history:");
    for o in &hist {
        println!("   {}", o.short());
    }
    let workdir = crate::util::work_dir("w");
    std::fs::create_dir_all(&workdir).expect("workdir");
    for shrink in [false, true] {
        let (mut store, _) = replay_real(&hist);
        match cbor_roundtrip(&mut store, &format!("{}/replay.store.stam.cbor", workdir), shrink) {
            Some(f) => {
                println!("  shrink={}: {} :: {}", shrink, f.symptom, f.detail);
                rep.fail(&format!("shrink={}|{}", shrink, f.symptom), 0, || f.detail.clone(), || case.clone());
            }
            None => println!("  shrink={}: round trip ok", shrink),
        }
    }
    let _ = std::fs::remove_dir_all(&workdir);
}
