//! C06 — (module under construction)
use crate::report::{Coverage, Reporter};
use serde_json::Value;

pub fn run(_rep: &Reporter) -> Coverage {
    Coverage::default()
}

pub fn replay(_rep: &Reporter, _case: &Value) {}
