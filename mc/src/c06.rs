//! C06 — related-text search returns exactly the selections in the relation.
//!
//! Bounded-exhaustive enumeration: for every text of a small family, resources in which ALL
//! `(L+1)(L+2)/2` ranges are known text selections (one annotation each, inserted in ascending and in
//! descending order) and all sparse resources holding only {reference, one candidate} / {one candidate}
//! (reference unbound); every reference range, every ordered 2-element set of ranges; every one of the
//! ten relations of the statement x `all` x `negate` x limit in {none,0,1,2} x whitespace.
//!
//! Oracle: the library's own relation test (`reference.test(op, candidate)`, resp. `set.test(op, candidate)`)
//! applied to every known selection of the resource (C13 decides whether that test is right). The search must
//! return exactly the known selections other than the reference for which the test holds (Equals: including the
//! reference), each once, with non-decreasing begin position (textual order).
//!
//! Entry points: `ResultTextSelection::related_text` (primary for single references),
//! `ResultTextSelectionSet::related_text` (primary for sets); `ResultItem<TextSelection>::related_text`,
//! `ResultItem<TextResource>::related_text`, `ResultItem<Annotation>::related_text` must agree with the primary.
//!
//! Signatures (coarse to fine, so that `prefix*` patterns in KNOWN_FINDINGS.txt can cover a family):
//! `<sel|sel:bound|sel:unbound|set>|<operator+modifiers>|<missing|extra|extra:reference-itself|duplicate|order|unknown-selection|panic:..>|br=<branch>|<position class>`
//! where branch = reference begin vs textlen/2 (`lt|eq|gt`, sets: `first|second|mixed`, `na` for relations whose
//! search does not branch on it) and the position class is described at `pos_class`. None of the fields depends
//! on the text length, so the set of failing signatures is the same in both tiers (quick is a subset of thorough).
//! Entry-point disagreements: `entry-disagree|<entry>-vs-<primary>|<operator>`.

use crate::c13::{all_ops, OpSpec, Rel};
use crate::report::{Coverage, Reporter, Tier};
use crate::util::{all_ranges, catch, msg_class, order_type};
use rayon::prelude::*;
use serde_json::{json, Value};
use stam::*;
use std::sync::atomic::{AtomicU64, Ordering};

type R = (usize, usize);

const LIMITS: [Option<usize>; 4] = [None, Some(0), Some(1), Some(2)];
/// mirror of the private constant `WHITESPACE_LIMIT` in src/textselection.rs (only used to *classify* failures)
const WS_LIMIT: i64 = 10;
/// results longer than this are treated as a non-terminating iterator
const RESULT_CAP: usize = 20_000;

/// The ten relations of the statement with every modifier combination. `Equals{all:true}` is left out: the
/// set-level relation test itself hits `unreachable!()` for it (a C13 finding), so there is no oracle.
pub fn ops() -> Vec<OpSpec> {
    all_ops(&LIMITS)
        .into_iter()
        .filter(|o| !matches!(o.rel, Rel::InSet | Rel::SameRange))
        .filter(|o| !(o.rel == Rel::Equals && o.all))
        .collect()
}

fn base_text(len: usize) -> String {
    // whitespace runs of length 1, 2 and 3 so that the whitespace modifier has something to accept and to reject
    "a  b c   de f".chars().cycle().take(len).collect()
}

pub struct Res {
    pub text: String,
    pub len: usize,
    /// known ranges in insertion order
    pub known: Vec<R>,
    /// annotations with a MultiSelector over two ranges: (id, members)
    pub multis: Vec<(String, [R; 2])>,
    pub store: AnnotationStore,
}

fn ann_id(r: R) -> String {
    format!("a{}_{}", r.0, r.1)
}

pub fn build(text: &str, known: &[R], multis: &[[R; 2]]) -> Result<Res, String> {
    let r = catch(|| -> Result<AnnotationStore, String> {
        let mut store = AnnotationStore::default();
        store
            .add_resource(TextResourceBuilder::new().with_id("r").with_text(text))
            .map_err(|e| format!("add_resource: {}", e))?;
        for k in known {
            store
                .annotate(
                    AnnotationBuilder::new()
                        .with_id(ann_id(*k))
                        .with_target(SelectorBuilder::textselector("r", Offset::simple(k.0, k.1))),
                )
                .map_err(|e| format!("annotate {:?}: {}", k, e))?;
        }
        for (i, m) in multis.iter().enumerate() {
            store
                .annotate(
                    AnnotationBuilder::new().with_id(format!("m{}", i)).with_target(SelectorBuilder::multiselector(
                        m.iter()
                            .map(|r| SelectorBuilder::textselector("r", Offset::simple(r.0, r.1)))
                            .collect::<Vec<_>>(),
                    )),
                )
                .map_err(|e| format!("annotate multi {:?}: {}", m, e))?;
        }
        Ok(store)
    });
    let store = match r {
        Ok(Ok(s)) => s,
        Ok(Err(e)) => return Err(e),
        Err(p) => return Err(format!("panic: {}", p)),
    };
    Ok(Res {
        text: text.to_string(),
        len: text.chars().count(),
        known: known.to_vec(),
        multis: multis.iter().enumerate().map(|(i, m)| (format!("m{}", i), *m)).collect(),
        store,
    })
}

fn sel<'s>(store: &'s AnnotationStore, r: R) -> ResultTextSelection<'s> {
    store
        .resource("r")
        .expect("resource r")
        .textselection(&Offset::simple(r.0, r.1))
        .expect("range must be valid")
}

#[derive(Clone, Copy, Debug, PartialEq, Eq)]
pub enum Entry {
    /// `ResultTextSelection::related_text`
    Sel,
    /// `ResultItem<TextSelection>::related_text` (bound references only)
    Item,
    /// `ResultItem<TextResource>::related_text(op, selection)`
    ResSel,
    /// `ResultTextSelectionSet::related_text`
    Set,
    /// `ResultItem<TextResource>::related_text(op, set)`
    ResSet,
    /// `ResultItem<Annotation>::related_text` (annotation id given separately)
    Ann,
}

fn collect<'s>(it: impl Iterator<Item = ResultTextSelection<'s>>) -> Vec<R> {
    it.take(RESULT_CAP + 1).map(|t| (t.begin(), t.end())).collect()
}

/// Run the search through one entry point. `None` = entry point not applicable to this reference.
fn search(store: &AnnotationStore, refr: &[R], op: &OpSpec, entry: Entry, ann: Option<&str>) -> Option<Result<Vec<R>, String>> {
    let o = op.to_op();
    let r = match entry {
        Entry::Sel => {
            let s = sel(store, refr[0]);
            catch(|| collect(s.related_text(o)))
        }
        Entry::Item => {
            let s = sel(store, refr[0]);
            let item = s.as_resultitem()?.clone();
            catch(|| collect(item.related_text(o)))
        }
        Entry::ResSel => {
            let s = sel(store, refr[0]);
            let res = store.resource("r").unwrap();
            catch(|| collect(res.related_text(o, s)))
        }
        Entry::Set => {
            let set: ResultTextSelectionSet = refr.iter().map(|r| sel(store, *r)).collect();
            catch(|| collect(set.related_text(o)))
        }
        Entry::ResSet => {
            let set: ResultTextSelectionSet = refr.iter().map(|r| sel(store, *r)).collect();
            let res = store.resource("r").unwrap();
            catch(|| collect(res.related_text(o, set)))
        }
        Entry::Ann => {
            let a = store.annotation(ann?)?;
            catch(|| collect(a.related_text(o)))
        }
    };
    Some(r.map_err(|m| msg_class(&m)))
}

/// The library's own relation test of the reference against every candidate.
fn oracle(store: &AnnotationStore, refr: &[R], op: &OpSpec, cands: &[ResultTextSelection]) -> Result<Vec<bool>, String> {
    let o = op.to_op();
    if refr.len() == 1 {
        let s = sel(store, refr[0]);
        catch(|| cands.iter().map(|c| s.test(&o, c)).collect()).map_err(|m| msg_class(&m))
    } else {
        let set: ResultTextSelectionSet = refr.iter().map(|r| sel(store, *r)).collect();
        catch(|| cands.iter().map(|c| set.test(&o, c)).collect()).map_err(|m| msg_class(&m))
    }
}

fn cls(a: i64, b: i64) -> char {
    if a < b {
        '<'
    } else if a == b {
        '='
    } else {
        '>'
    }
}

fn branching(rel: Rel) -> bool {
    matches!(rel, Rel::Overlaps | Rel::Embedded)
}

/// Branch class of the reference: begin of each member relative to the middle of the text
/// (the search chooses window and direction from this for Overlaps / Embedded).
fn branch_class(op: &OpSpec, refr: &[R], len: usize) -> String {
    if !branching(op.rel) {
        return "na".into();
    }
    let h = len / 2;
    if refr.len() > 1 {
        // sets: only which branch of the search (`begin <= textlen/2`) the members take
        let first = refr.iter().filter(|r| r.0 <= h).count();
        return if first == refr.len() { "first".into() } else if first == 0 { "second".into() } else { "mixed".into() };
    }
    match refr[0].0.cmp(&h) {
        std::cmp::Ordering::Less => "lt".into(),
        std::cmp::Ordering::Equal => "eq".into(),
        std::cmp::Ordering::Greater => "gt".into(),
    }
}

fn hull(refr: &[R]) -> R {
    (refr.iter().map(|r| r.0).min().unwrap(), refr.iter().map(|r| r.1).max().unwrap())
}

fn refkind(res: &Res, refr: &[R], op: &OpSpec) -> String {
    if refr.len() == 1 {
        // bound and unbound references share their geometry; only the Equals shortcut treats them differently
        if op.rel == Rel::Equals {
            if res.known.contains(&refr[0]) { "sel:bound".into() } else { "sel:unbound".into() }
        } else {
            "sel".into()
        }
    } else {
        "set".into()
    }
}

/// Coarse (Allen-style) position of a candidate relative to the hull of a reference set.
fn coarse_rel(h: R, c: R) -> &'static str {
    if c == h {
        "same"
    } else if c.1 <= h.0 {
        "left"
    } else if c.0 >= h.1 {
        "right"
    } else if c.0 >= h.0 && c.1 <= h.1 {
        "inside"
    } else if c.0 <= h.0 && c.1 >= h.1 {
        "covers"
    } else if c.0 < h.0 {
        "crosses-begin"
    } else {
        "crosses-end"
    }
}

/// Position class of a candidate relative to the reference.
/// * single reference, positive operator: order type of (ref.begin, ref.end, cand.begin, cand.end, [textlen/2,] textlen)
///   (textlen/2 only for the relations whose search branches on it) plus limit / whitespace-window classes;
/// * single reference, negated operator: order type of (ref.begin, ref.end, cand.begin, cand.end) and whether the
///   candidate begins at the very end of the text (the negated search inherits the positive window, so a finer class
///   would only enumerate the complement of that window);
/// * set reference: coarse position relative to the hull of the set, zero-width / end-of-text flags.
fn pos_class(op: &OpSpec, refr: &[R], c: R, len: usize) -> String {
    let (hb, he) = hull(refr);
    if refr.len() > 1 {
        let mut s = format!("c={}", coarse_rel((hb, he), c));
        if c.0 == c.1 {
            s.push_str("|cz");
        }
        if c.0 == len {
            s.push_str("|cb=L");
        }
        return s;
    }
    let (hb, he, cb, ce, l) = (hb as i64, he as i64, c.0 as i64, c.1 as i64, len as i64);
    if op.negate {
        let mut s = format!("ot4={}", order_type(&[hb, he, cb, ce]));
        if cb == l {
            s.push_str("|cb=L");
        }
        return s;
    }
    let mut s = if branching(op.rel) {
        format!("ot6={}", order_type(&[hb, he, cb, ce, l / 2, l]))
    } else {
        format!("ot5={}", order_type(&[hb, he, cb, ce, l]))
    };
    if let Some(lim) = op.limit {
        let lim = lim as i64;
        match op.rel {
            Rel::Before => s.push_str(&format!("|cb{}re+lim", cls(cb, he + lim))),
            Rel::After => s.push_str(&format!("|cb{}rb-lim|ce{}rb-lim", cls(cb, hb - lim), cls(ce, hb - lim))),
            Rel::Embedded => s.push_str(&format!("|cb{}rb-lim|ce{}re+lim", cls(cb, hb - lim), cls(ce, he + lim))),
            _ => {}
        }
    }
    if op.ws {
        match op.rel {
            Rel::Precedes if cb > he + WS_LIMIT => s.push_str("|gap>10"),
            Rel::Succeeds if ce < hb - WS_LIMIT => s.push_str("|gap>10"),
            _ => {}
        }
    }
    s
}

pub struct CaseOut {
    pub evals: u64,
    pub expected: Vec<R>,
    pub got: Result<Vec<R>, String>,
    pub skipped: bool,
}

fn case_json(res: &Res, refr: &[R], op: &OpSpec) -> Value {
    json!({"text": res.text, "known": res.known, "multis": res.multis.iter().map(|m| m.1.to_vec()).collect::<Vec<_>>(),
           "ref": refr, "op": op.to_json()})
}

/// One case = (resource, reference, operator): primary search against the oracle, then entry-point agreement.
pub fn check_case(rep: &Reporter, res: &Res, cands: &[ResultTextSelection], refr: &[R], op: &OpSpec, ord: u64) -> CaseOut {
    let store = &res.store;
    let mut evals = 0u64;
    let primary = if refr.len() == 1 { Entry::Sel } else { Entry::Set };
    let kind = refkind(res, refr, op);
    let br = branch_class(op, refr, res.len);
    let detail_head = || format!("text={:?} known={} ref={:?} op={}", res.text, fmt_known(&res.known, res.len), refr, op.name());
    // oracle first: if the relation test itself panics there is nothing to compare with (C13's business)
    let verdicts = oracle(store, refr, op, cands);
    evals += cands.len() as u64;
    let got = search(store, refr, op, primary, None).unwrap();
    evals += 1;
    let verdicts = match verdicts {
        Ok(v) => v,
        Err(_) => {
            return CaseOut { evals, expected: vec![], got, skipped: true };
        }
    };
    // the oracle itself is checked against the documented definition (as in C13) so that this check does not follow a
    // relation test that has gone wrong: separate signature family, the search comparison below still uses the test
    {
        let pos = op.positive();
        for (c, v) in res.known.iter().zip(verdicts.iter()) {
            let def = if refr.len() == 1 { crate::c13::pair_def(&pos, refr[0], *c, &res.text) } else { crate::c13::set_def(&pos, refr, &[*c], &res.text) };
            if let Some(want_pos) = def {
                let want = want_pos != op.negate;
                if *v != want {
                    rep.fail(
                        &format!("oracle|{}|{}|test-vs-definition:got={}", if refr.len() == 1 { "sel" } else { "set" }, op.name(), v),
                        ord,
                        || format!("{}: the relation test of the reference against candidate {:?} gives {} but the documented definition says {}", detail_head(), c, v, want),
                        || case_json(res, refr, op),
                    );
                }
            }
        }
    }
    let equals_multi = op.rel == Rel::Equals && refr.len() > 1;
    // expected[i]: Some(true/false) or None = not pinned down
    let expected: Vec<Option<bool>> = res
        .known
        .iter()
        .zip(verdicts.iter())
        .map(|(c, v)| {
            if refr.contains(c) {
                if op.rel == Rel::Equals {
                    if refr.len() == 1 { Some(*v) } else { None }
                } else {
                    Some(false) // "other" selections only
                }
            } else {
                Some(*v)
            }
        })
        .collect();
    let mut exp_list: Vec<R> = res.known.iter().zip(expected.iter()).filter(|(_, e)| **e == Some(true)).map(|(c, _)| *c).collect();
    exp_list.sort();
    let fail = |symptom: &str, c: Option<R>, what: String| {
        let sig = match c {
            Some(c) => format!("{}|{}|{}|br={}|{}", kind, op.name(), symptom, br, pos_class(op, refr, c, res.len)),
            None => format!("{}|{}|{}|br={}", kind, op.name(), symptom, br),
        };
        rep.fail(
            &sig,
            ord,
            || format!("{}: {}; expected={:?} got={:?}", detail_head(), what, exp_list, got),
            || case_json(res, refr, op),
        );
    };
    match &got {
        Err(m) => fail(&format!("panic:{}", m), None, "search panicked".into()),
        Ok(g) if g.len() > RESULT_CAP => fail("unbounded", None, format!("more than {} results", RESULT_CAP)),
        Ok(g) => {
            for (c, e) in res.known.iter().zip(expected.iter()) {
                let cnt = g.iter().filter(|x| *x == c).count();
                match e {
                    None => {}
                    Some(true) => {
                        if cnt == 0 {
                            fail("missing", Some(*c), format!("candidate {:?} satisfies the relation test but is not returned", c));
                        } else if cnt > 1 {
                            fail("duplicate", Some(*c), format!("candidate {:?} returned {} times", c, cnt));
                        }
                    }
                    Some(false) => {
                        if cnt > 0 {
                            let sym = if refr.contains(c) { "extra:reference-itself" } else { "extra" };
                            fail(sym, Some(*c), format!("candidate {:?} returned {} time(s) but must not be", c, cnt));
                        }
                    }
                }
            }
            for x in g.iter() {
                if !res.known.contains(x) {
                    fail("unknown-selection", Some(*x), format!("returned {:?} which is not a known selection", x));
                }
            }
            if !equals_multi {
                for w in g.windows(2) {
                    if w[1].0 < w[0].0 {
                        fail("order", None, format!("{:?} returned before {:?}: not in textual order", w[0], w[1]));
                        break;
                    }
                }
            }
        }
    }
    // the other entry points must behave exactly like the primary one
    let others: &[Entry] = if refr.len() == 1 { &[Entry::Item, Entry::ResSel, Entry::Ann] } else { &[Entry::ResSet] };
    for e in others {
        let annid = if *e == Entry::Ann {
            if !res.known.contains(&refr[0]) {
                continue;
            }
            Some(ann_id(refr[0]))
        } else {
            None
        };
        if let Some(alt) = search(store, refr, op, *e, annid.as_deref()) {
            evals += 1;
            if alt != got {
                rep.fail(
                    &format!("entry-disagree|{:?}-vs-{:?}|{}", e, primary, op.name()),
                    ord,
                    || format!("{}: {:?} gives {:?} but {:?} gives {:?}", detail_head(), e, alt, primary, got),
                    || case_json(res, refr, op),
                );
            }
        }
    }
    CaseOut { evals, expected: exp_list, got, skipped: false }
}

/// `ResultItem<Annotation>::related_text` on an annotation with a MultiSelector must equal
/// `ResultTextSelectionSet::related_text` on the set of that annotation's text selections.
fn check_multi_ann(rep: &Reporter, res: &Res, idx: usize, op: &OpSpec, ord: u64) -> u64 {
    let store = &res.store;
    let (id, members) = &res.multis[idx];
    let ann = match store.annotation(id.as_str()) {
        Some(a) => a,
        None => return 0,
    };
    let order: Vec<R> = match catch(|| ann.textselections().map(|t| (t.begin(), t.end())).collect::<Vec<R>>()) {
        Ok(v) if !v.is_empty() => v,
        _ => return 0,
    };
    let a = search(store, members, op, Entry::Ann, Some(id.as_str())).unwrap();
    let s = search(store, &order, op, Entry::Set, None).unwrap();
    if a != s {
        rep.fail(
            &format!("entry-disagree|Ann-vs-Set|{}", op.name()),
            ord,
            || format!("text={:?} dense resource, annotation on {:?} op={}: annotation.related_text gives {:?} but the set of its text selections gives {:?}", res.text, members, op.name(), a, s),
            || {
                let mut c = case_json(res, &order, op);
                c["multi_index"] = json!(idx);
                c
            },
        );
    }
    2
}

fn fmt_known(known: &[R], len: usize) -> String {
    if known.len() == (len + 1) * (len + 2) / 2 && known.len() > 3 {
        let asc = known.windows(2).all(|w| w[0] < w[1]);
        format!("ALL({} ranges, inserted {})", known.len(), if asc { "ascending" } else { "descending" })
    } else {
        format!("{:?}", known)
    }
}

struct Plan {
    texts_dense: Vec<String>,
    sparse_maxlen: usize,
    sets_maxlen: usize,
    multi_maxlen: usize,
}

fn plan(tier: Tier) -> Plan {
    let mut texts: Vec<String> = match tier {
        Tier::Quick => [0usize, 1, 2, 3, 4, 5, 6, 7, 8, 9, 10].iter().map(|l| base_text(*l)).collect(),
        Tier::Thorough => (0usize..=12).map(base_text).collect(),
    };
    // a run of 12 whitespace characters: the whitespace modifier beyond the search window of 10
    texts.push(format!("a{}b", " ".repeat(12)));
    // multi-byte characters and non-ASCII whitespace
    texts.push(tier.pick("\u{e9}\u{3000} \u{1d11e}x", "\u{e9}\u{3000} \u{1d11e}x \u{a0}y").to_string());
    Plan {
        texts_dense: texts,
        sparse_maxlen: tier.pick(6, 10),
        sets_maxlen: tier.pick(9, 10),
        multi_maxlen: tier.pick(4, 6),
    }
}

pub fn run(rep: &Reporter) -> Coverage {
    let ops = ops();
    let plan = plan(rep.tier);
    let evals = AtomicU64::new(0);
    let cases = AtomicU64::new(0);
    let nontrivial = AtomicU64::new(0);
    let skipped = AtomicU64::new(0);
    let build_fail = AtomicU64::new(0);
    let mut space = Vec::new();

    let run_refs = |res: &Res, refs: &[Vec<R>], ord_base: u64| {
        let cands: Vec<ResultTextSelection> = res.known.iter().map(|k| sel(&res.store, *k)).collect();
        refs.par_iter().enumerate().for_each(|(ri, refr)| {
            let mut n = 0u64;
            let mut nt = 0u64;
            let mut sk = 0u64;
            for (oi, op) in ops.iter().enumerate() {
                let ord = ord_base + (ri as u64) * 1000 + oi as u64;
                let out = check_case(rep, res, &cands, refr, op, ord);
                n += out.evals;
                if out.skipped {
                    sk += 1;
                } else if !out.expected.is_empty() {
                    nt += 1;
                }
            }
            evals.fetch_add(n, Ordering::Relaxed);
            cases.fetch_add(ops.len() as u64, Ordering::Relaxed);
            nontrivial.fetch_add(nt, Ordering::Relaxed);
            skipped.fetch_add(sk, Ordering::Relaxed);
        });
    };

    for text in &plan.texts_dense {
        let len = text.chars().count();
        let ranges = all_ranges(len);
        let lbase = (len as u64) * 1_000_000_000_000;
        // (1) dense resources, single references (all bound), two insertion orders
        let singles: Vec<Vec<R>> = ranges.iter().map(|r| vec![*r]).collect();
        let mut desc = ranges.clone();
        desc.reverse();
        let mut nsets = 0usize;
        let mut nsparse = 0usize;
        let mut nmulti = 0usize;
        for (k, known) in [ranges.clone(), desc].iter().enumerate() {
            match build(text, known, &[]) {
                Ok(res) => {
                    run_refs(&res, &singles, lbase + 500_000_000_000 + (k as u64) * 100_000_000_000);
                    // (2) dense resource (ascending insertion), every ordered pair of distinct ranges as a set reference
                    if k == 0 && len <= plan.sets_maxlen {
                        let mut sets: Vec<Vec<R>> = Vec::new();
                        for a in &ranges {
                            for b in &ranges {
                                if a != b {
                                    sets.push(vec![*a, *b]);
                                }
                            }
                        }
                        nsets = sets.len();
                        run_refs(&res, &sets, lbase + 700_000_000_000);
                    }
                }
                Err(e) => {
                    build_fail.fetch_add(1, Ordering::Relaxed);
                    rep.fail("build-failed|dense", lbase, || format!("text={:?}: {}", text, e), || json!({"text": text, "known": known, "multis": [], "ref": [], "op": null}));
                }
            }
        }
        // (3) sparse resources: {reference, candidate} with a bound reference, {candidate} with an unbound reference
        if len <= plan.sparse_maxlen {
            let pairs: Vec<(R, R)> = ranges.iter().flat_map(|a| ranges.iter().filter(move |b| *b != a).map(move |b| (*a, *b))).collect();
            nsparse = pairs.len() * 2;
            pairs.par_iter().enumerate().for_each(|(pi, (r, c))| {
                for bound in [true, false] {
                    let known: Vec<R> = if bound {
                        let mut k = vec![*r, *c];
                        k.sort();
                        k
                    } else {
                        vec![*c]
                    };
                    let res = match build(text, &known, &[]) {
                        Ok(res) => res,
                        Err(e) => {
                            build_fail.fetch_add(1, Ordering::Relaxed);
                            rep.fail("build-failed|sparse", lbase, || format!("text={:?} known={:?}: {}", text, known, e), || json!({"text": text, "known": known, "multis": [], "ref": [], "op": null}));
                            continue;
                        }
                    };
                    let cands: Vec<ResultTextSelection> = res.known.iter().map(|k| sel(&res.store, *k)).collect();
                    let refr = vec![*r];
                    let mut n = 0;
                    let mut nt = 0;
                    let mut sk = 0;
                    for (oi, op) in ops.iter().enumerate() {
                        let ord = lbase + (bound as u64) * 100_000_000_000 + (pi as u64) * 1000 + oi as u64;
                        let out = check_case(rep, &res, &cands, &refr, op, ord);
                        n += out.evals;
                        if out.skipped {
                            sk += 1;
                        } else if !out.expected.is_empty() {
                            nt += 1;
                        }
                    }
                    evals.fetch_add(n, Ordering::Relaxed);
                    cases.fetch_add(ops.len() as u64, Ordering::Relaxed);
                    nontrivial.fetch_add(nt, Ordering::Relaxed);
                    skipped.fetch_add(sk, Ordering::Relaxed);
                }
            });
        }
        // (4) annotations with a MultiSelector: annotation entry point against the set entry point
        if len <= plan.multi_maxlen && len > 0 {
            let mut multis: Vec<[R; 2]> = Vec::new();
            for (i, a) in ranges.iter().enumerate() {
                for b in &ranges[i + 1..] {
                    multis.push([*a, *b]);
                }
            }
            match build(text, &ranges, &multis) {
                Ok(res) => {
                    nmulti = multis.len();
                    (0..multis.len()).into_par_iter().for_each(|mi| {
                        let mut n = 0;
                        for (oi, op) in ops.iter().enumerate() {
                            n += check_multi_ann(rep, &res, mi, op, lbase + 900_000_000_000 + (mi as u64) * 1000 + oi as u64);
                        }
                        evals.fetch_add(n, Ordering::Relaxed);
                        cases.fetch_add(ops.len() as u64, Ordering::Relaxed);
                    });
                }
                Err(e) => {
                    build_fail.fetch_add(1, Ordering::Relaxed);
                    rep.fail("build-failed|multi", lbase, || format!("text={:?}: {}", text, e), || json!({"text": text, "known": ranges, "multis": multis.iter().map(|m| m.to_vec()).collect::<Vec<_>>(), "ref": [], "op": null}));
                }
            }
        }
        space.push(json!({"text": text, "codepoints": len, "ranges": ranges.len(),
            "dense_resources": 2, "single_references_per_dense_resource": ranges.len(),
            "set_references_ordered_pairs": nsets, "sparse_resources": nsparse, "multiselector_annotations": nmulti,
            "operator_variants": ops.len()}));
    }

    // concrete samples, recomputed outside the sweep (expected = oracle, got = primary entry point)
    let mut samples = Vec::new();
    {
        let text = base_text(10);
        let ranges = all_ranges(10);
        if let Ok(res) = build(&text, &ranges, &[]) {
            let cands: Vec<ResultTextSelection> = res.known.iter().map(|k| sel(&res.store, *k)).collect();
            let pick = |rel: Rel, negate: bool, limit: Option<usize>, ws: bool| OpSpec { rel, all: false, negate, limit, ws };
            let fixed: Vec<(Vec<R>, OpSpec)> = vec![
                (vec![(2, 4)], pick(Rel::Overlaps, false, None, false)),
                (vec![(6, 8)], pick(Rel::Overlaps, false, None, false)),
                (vec![(1, 2)], pick(Rel::Precedes, false, None, true)),
                (vec![(4, 6)], pick(Rel::Before, false, Some(1), false)),
                (vec![(0, 3), (2, 5)], pick(Rel::Embeds, false, None, false)),
                (vec![(7, 9)], pick(Rel::Equals, false, None, false)),
            ];
            for (refr, op) in fixed {
                let exp: Vec<R> = match oracle(&res.store, &refr, &op, &cands) {
                    Ok(v) => res.known.iter().zip(v.iter()).filter(|(c, t)| **t && (op.rel == Rel::Equals || !refr.contains(c))).map(|(c, _)| *c).collect(),
                    Err(_) => continue,
                };
                let primary = if refr.len() == 1 { Entry::Sel } else { Entry::Set };
                let got = search(&res.store, &refr, &op, primary, None).unwrap();
                samples.push(json!({"text": res.text, "known": fmt_known(&res.known, res.len), "ref": refr, "op": op.name(),
                    "expected": format!("{:?}", exp), "got": format!("{:?}", got)}));
            }
        }
    }
    let mut cov = Coverage::default();
    cov.states = cases.load(Ordering::Relaxed);
    cov.transitions = evals.load(Ordering::Relaxed);
    cov.traces_validated = cases.load(Ordering::Relaxed);
    cov.evaluations = evals.load(Ordering::Relaxed);
    cov.distinct_nontrivial = nontrivial.load(Ordering::Relaxed);
    cov.rule = "states = (resource, reference, operator variant) cases; transitions = library calls (one related_text search per entry point plus one relation test per known selection); non-trivial = cases in which the oracle expects at least one selection to be returned".into();
    cov.samples = samples;
    cov.exhaustive = true;
    cov.extra.insert("space".into(), Value::Array(space));
    cov.extra.insert("operator_variants".into(), json!(ops.iter().map(|o| o.name()).collect::<Vec<_>>()));
    cov.extra.insert("cases_skipped_because_the_relation_test_itself_panics".into(), json!(skipped.load(Ordering::Relaxed)));
    cov.extra.insert("resources_that_could_not_be_built".into(), json!(build_fail.load(Ordering::Relaxed)));
    if std::env::var("C06_DEBUG").is_ok() {
        eprintln!("{}", serde_json::to_string_pretty(&json!({"samples": cov.samples, "extra": cov.extra, "nontrivial": cov.distinct_nontrivial})).unwrap());
    }
    cov.assumptions = vec![
        "the oracle is the library's own relation test reference.test(op, candidate) / set.test(op, candidate); whether that test has the documented meaning is property C13".into(),
        "Equals{all:true} (the set-level test hits unreachable!()) and any case in which the relation test panics are skipped; InSet/SameRange are not relations of the statement".into(),
        "for a multi-element reference set and the Equals relation, whether the members of the set themselves are returned is not pinned down and not compared".into(),
        "textual order is checked as non-decreasing begin position; the order among selections with the same begin is not compared".into(),
        "an unbound reference is only used when its range is not a known selection (the API returns a bound selection otherwise)".into(),
        "RELATION constraints in queries are covered by C08, empty reference sets are not covered (undocumented)".into(),
    ];
    cov
}

fn ranges_from(v: &Value) -> Vec<R> {
    v.as_array()
        .map(|a| a.iter().filter_map(|p| Some((p[0].as_u64()? as usize, p[1].as_u64()? as usize))).collect())
        .unwrap_or_default()
}

/// Re-execute one recorded case without the sweep.
pub fn replay(rep: &Reporter, case: &Value) {
    let text = case["text"].as_str().unwrap_or("").to_string();
    let known = ranges_from(&case["known"]);
    let refr = ranges_from(&case["ref"]);
    let multis: Vec<[R; 2]> = case["multis"]
        .as_array()
        .map(|a| a.iter().map(|m| ranges_from(m)).filter(|m| m.len() == 2).map(|m| [m[0], m[1]]).collect())
        .unwrap_or_default();
    let res = match build(&text, &known, &multis) {
        Ok(r) => r,
        Err(e) => {
            println!("replay C06: resource cannot be built: {}", e);
            rep.fail("build-failed|replay", 0, || e.clone(), || case.clone());
            return;
        }
    };
    let op = match OpSpec::from_json(&case["op"]) {
        Some(o) => o,
        None => {
            println!("replay C06: no operator recorded (build failure case); the resource builds now");
            return;
        }
    };
    println!("replay C06: text={:?} known={} ref={:?} op={}", text, fmt_known(&known, res.len), refr, op.name());
    if let Some(mi) = case["multi_index"].as_u64() {
        check_multi_ann(rep, &res, mi as usize, &op, 0);
        let (id, members) = &res.multis[mi as usize];
        println!("  annotation {} on {:?}: related_text = {:?}", id, members, search(&res.store, members, &op, Entry::Ann, Some(id.as_str())));
        println!("  set {:?}: related_text = {:?}", refr, search(&res.store, &refr, &op, Entry::Set, None));
        return;
    }
    if refr.is_empty() {
        println!("  no reference recorded");
        return;
    }
    let cands: Vec<ResultTextSelection> = res.known.iter().map(|k| sel(&res.store, *k)).collect();
    let out = check_case(rep, &res, &cands, &refr, &op, 0);
    if out.skipped {
        println!("  the relation test itself panics for this case: skipped");
    } else {
        println!("  expected (relation test true, in textual order) = {:?}", out.expected);
        println!("  related_text returned                            = {:?}", out.got);
    }
}
