//! Boring reference model of the STAM store: plain vectors, documented semantics only.
//! Model indices coincide with the library's handles as long as every applied operation succeeds
//! (tombstoned append-only vectors on both sides).

use crate::ops::*;
use std::collections::BTreeSet;

#[derive(Clone, Debug, PartialEq, Eq, Hash)]
pub struct MRes {
    pub id: String,
    pub text: String,
    /// known text selections (begin,end) in first-use order; never forgotten
    pub sels: Vec<(usize, usize)>,
}

impl MRes {
    pub fn len(&self) -> usize {
        self.text.chars().count()
    }
}

#[derive(Clone, Debug, PartialEq, Eq, Hash)]
pub struct MData {
    pub id: Option<String>,
    pub key: usize,
    pub val: Val,
}

#[derive(Clone, Debug, PartialEq, Eq, Hash)]
pub struct MSet {
    pub id: String,
    pub keys: Vec<Option<String>>,
    pub data: Vec<Option<MData>>,
}

/// A resolved simple target
#[derive(Clone, Debug, PartialEq, Eq, Hash, PartialOrd, Ord)]
pub enum MT {
    Text { res: usize, b: usize, e: usize, mode: u8 },
    Ann { ann: usize, text: Option<(usize, usize, usize, u8)> },
    Res(usize),
    Set(usize),
    Key(usize, usize),
    Data(usize, usize),
}

#[derive(Clone, Debug, PartialEq, Eq, Hash)]
pub struct MAnn {
    pub id: Option<String>,
    pub kind: TKind,
    pub parts: Vec<MT>,
    pub data: Vec<(usize, usize)>,
}

impl MAnn {
    /// the single text selection of a simple text-bearing target, if any (what a relative offset resolves against)
    pub fn simple_text(&self) -> Option<(usize, usize, usize)> {
        if self.kind != TKind::Simple {
            return None;
        }
        match &self.parts[0] {
            MT::Text { res, b, e, .. } => Some((*res, *b, *e)),
            MT::Ann { text: Some((res, b, e, _)), .. } => Some((*res, *b, *e)),
            _ => None,
        }
    }
    pub fn text_refs(&self) -> Vec<(usize, usize, usize)> {
        self.parts
            .iter()
            .filter_map(|p| match p {
                MT::Text { res, b, e, .. } => Some((*res, *b, *e)),
                MT::Ann { text: Some((res, b, e, _)), .. } => Some((*res, *b, *e)),
                _ => None,
            })
            .collect()
    }
    pub fn ann_refs(&self) -> Vec<usize> {
        self.parts
            .iter()
            .filter_map(|p| match p {
                MT::Ann { ann, .. } => Some(*ann),
                _ => None,
            })
            .collect()
    }
}

#[derive(Clone, Debug, Default, PartialEq, Eq, Hash)]
pub struct Model {
    pub res: Vec<Option<MRes>>,
    pub sets: Vec<Option<MSet>>,
    pub anns: Vec<Option<MAnn>>,
    /// every public id ever used: (kind letter, set id or "", id)
    pub ever_ids: BTreeSet<(char, String, String)>,
    /// ids of the sub-stores, by handle (only stores made outside the history alphabet have any)
    pub subs: Vec<String>,
}

#[derive(Debug, Clone, PartialEq, Eq)]
pub enum MErr {
    /// the documentation says this request is invalid (the library must return an error and change nothing)
    Invalid(&'static str),
    /// the documentation does not say what happens; the alphabet should not generate this
    Unspecified(&'static str),
}

impl Model {
    pub fn res_idx(&self, id: &str) -> Option<usize> {
        self.res.iter().position(|r| r.as_ref().map(|r| r.id == id).unwrap_or(false))
    }
    pub fn set_idx(&self, id: &str) -> Option<usize> {
        self.sets.iter().position(|r| r.as_ref().map(|r| r.id == id).unwrap_or(false))
    }
    pub fn ann_idx(&self, id: &str) -> Option<usize> {
        self.anns
            .iter()
            .position(|r| r.as_ref().map(|r| r.id.as_deref() == Some(id)).unwrap_or(false))
    }
    pub fn key_idx(&self, set: usize, key: &str) -> Option<usize> {
        self.sets[set]
            .as_ref()?
            .keys
            .iter()
            .position(|k| k.as_deref() == Some(key))
    }
    pub fn data_idx(&self, set: usize, d: &DRef) -> Option<usize> {
        let s = self.sets[set].as_ref()?;
        match d {
            DRef::Id(id) => s
                .data
                .iter()
                .position(|x| x.as_ref().map(|x| x.id.as_deref() == Some(id.as_str())).unwrap_or(false)),
            DRef::H(h) => {
                if s.data.get(*h).map(|x| x.is_some()).unwrap_or(false) {
                    Some(*h)
                } else {
                    None
                }
            }
        }
    }
    pub fn live_anns(&self) -> Vec<usize> {
        (0..self.anns.len()).filter(|i| self.anns[*i].is_some()).collect()
    }
    pub fn ann_name(&self, i: usize) -> String {
        match self.anns.get(i).and_then(|a| a.as_ref()) {
            Some(a) => a.id.clone().unwrap_or_else(|| format!("!A{}", i)),
            None => format!("<dead {}>", i),
        }
    }

    fn resolve_simple(&self, t: &TSimple) -> Result<MT, MErr> {
        match t {
            TSimple::Text { res, off } => {
                let r = self.res_idx(res).ok_or(MErr::Invalid("unknown resource"))?;
                let len = self.res[r].as_ref().unwrap().len();
                let (b, e) = off.resolve(len).ok_or(MErr::Invalid("offset out of range or inverted"))?;
                Ok(MT::Text { res: r, b, e, mode: off.mode() })
            }
            TSimple::Ann { ann, off } => {
                let a = self.ann_idx(ann).ok_or(MErr::Invalid("unknown annotation"))?;
                match off {
                    None => Ok(MT::Ann { ann: a, text: None }),
                    Some(off) => {
                        let parent = self.anns[a]
                            .as_ref()
                            .unwrap()
                            .simple_text()
                            .ok_or(MErr::Unspecified("relative offset on an annotation without a single text selection"))?;
                        let (pr, pb, pe) = parent;
                        let (b, e) = off
                            .resolve(pe - pb)
                            .ok_or(MErr::Invalid("relative offset out of range or inverted"))?;
                        Ok(MT::Ann { ann: a, text: Some((pr, pb + b, pb + e, off.mode())) })
                    }
                }
            }
            TSimple::Res(r) => Ok(MT::Res(self.res_idx(r).ok_or(MErr::Invalid("unknown resource"))?)),
            TSimple::Set(s) => Ok(MT::Set(self.set_idx(s).ok_or(MErr::Invalid("unknown dataset"))?)),
            TSimple::Key(s, k) => {
                let si = self.set_idx(s).ok_or(MErr::Invalid("unknown dataset"))?;
                let ki = self.key_idx(si, k).ok_or(MErr::Invalid("unknown key"))?;
                Ok(MT::Key(si, ki))
            }
            TSimple::Data(s, d) => {
                let si = self.set_idx(s).ok_or(MErr::Invalid("unknown dataset"))?;
                let di = self.data_idx(si, d).ok_or(MErr::Invalid("unknown data"))?;
                Ok(MT::Data(si, di))
            }
        }
    }

    /// Transitive closure: every live annotation that targets (via an annotation selector) one in `seed`
    fn closure(&self, seed: BTreeSet<usize>) -> BTreeSet<usize> {
        let mut dead = seed;
        loop {
            let mut grew = false;
            for (i, a) in self.anns.iter().enumerate() {
                if let Some(a) = a {
                    if !dead.contains(&i) && a.ann_refs().iter().any(|t| dead.contains(t)) {
                        dead.insert(i);
                        grew = true;
                    }
                }
            }
            if !grew {
                return dead;
            }
        }
    }

    fn kill(&mut self, victims: &BTreeSet<usize>) {
        for v in victims {
            self.anns[*v] = None;
        }
    }

    /// remove one data item (strict / non-strict) — the documented cascade
    fn remove_data_item(&mut self, si: usize, di: usize, strict: bool) {
        let mut victims = BTreeSet::new();
        for (i, a) in self.anns.iter_mut().enumerate() {
            if let Some(a) = a {
                let uses = a.data.contains(&(si, di));
                let targets = a.parts.iter().any(|p| *p == MT::Data(si, di));
                if targets {
                    victims.insert(i);
                } else if uses {
                    if strict {
                        victims.insert(i);
                    } else {
                        a.data.retain(|x| *x != (si, di));
                        if a.data.is_empty() {
                            victims.insert(i);
                        }
                    }
                }
            }
        }
        let victims = self.closure(victims);
        self.kill(&victims);
        self.sets[si].as_mut().unwrap().data[di] = None;
    }

    /// Apply an operation according to the documentation. `Ok` means the library must succeed.
    pub fn apply(&mut self, op: &Op) -> Result<(), MErr> {
        match op {
            Op::AddRes { id, text } => {
                if self.res_idx(id).is_some() {
                    return Err(MErr::Invalid("duplicate resource id"));
                }
                self.ever_ids.insert(('R', String::new(), id.clone()));
                self.res.push(Some(MRes { id: id.clone(), text: text.clone(), sels: Vec::new() }));
                Ok(())
            }
            Op::AddSet { id } => {
                if self.set_idx(id).is_some() {
                    return Err(MErr::Invalid("duplicate dataset id"));
                }
                self.ever_ids.insert(('S', String::new(), id.clone()));
                self.sets.push(Some(MSet { id: id.clone(), keys: Vec::new(), data: Vec::new() }));
                Ok(())
            }
            Op::Annotate { id, target, data } => {
                // validate everything first: a failing annotate has no effect
                if let Some(id) = id {
                    if self.ann_idx(id).is_some() {
                        return Err(MErr::Invalid("duplicate annotation id"));
                    }
                }
                if target.parts.is_empty() {
                    return Err(MErr::Invalid("no target"));
                }
                let mut parts = Vec::new();
                for p in &target.parts {
                    parts.push(self.resolve_simple(p)?);
                }
                for d in data {
                    if let DataT::Existing { set, id } = d {
                        let si = self.set_idx(set).ok_or(MErr::Invalid("unknown dataset for existing data"))?;
                        self.data_idx(si, &DRef::Id(id.clone())).ok_or(MErr::Invalid("unknown existing data"))?;
                    }
                }
                // effects
                for p in &parts {
                    let t = match p {
                        MT::Text { res, b, e, .. } => Some((*res, *b, *e)),
                        MT::Ann { text: Some((res, b, e, _)), .. } => Some((*res, *b, *e)),
                        _ => None,
                    };
                    if let Some((r, b, e)) = t {
                        let res = self.res[r].as_mut().unwrap();
                        if !res.sels.contains(&(b, e)) {
                            res.sels.push((b, e));
                        }
                    }
                }
                let mut drefs = Vec::new();
                for d in data {
                    match d {
                        DataT::Existing { set, id } => {
                            let si = self.set_idx(set).unwrap();
                            let di = self.data_idx(si, &DRef::Id(id.clone())).unwrap();
                            drefs.push((si, di));
                        }
                        DataT::New { set, key, val, id } => {
                            let si = match self.set_idx(set) {
                                Some(si) => si,
                                None => {
                                    self.ever_ids.insert(('S', String::new(), set.clone()));
                                    self.sets.push(Some(MSet { id: set.clone(), keys: Vec::new(), data: Vec::new() }));
                                    self.sets.len() - 1
                                }
                            };
                            // explicit id that already exists: that item is used as is
                            if let Some(id) = id {
                                if let Some(di) = self.data_idx(si, &DRef::Id(id.clone())) {
                                    drefs.push((si, di));
                                    continue;
                                }
                            }
                            let ki = match self.key_idx(si, key) {
                                Some(k) => k,
                                None => {
                                    self.ever_ids.insert(('K', set.clone(), key.clone()));
                                    let s = self.sets[si].as_mut().unwrap();
                                    s.keys.push(Some(key.clone()));
                                    s.keys.len() - 1
                                }
                            };
                            let s = self.sets[si].as_mut().unwrap();
                            if id.is_none() {
                                // the same (key, value) never yields a second data item
                                if let Some(di) = s.data.iter().position(|x| {
                                    x.as_ref().map(|x| x.key == ki && x.val == *val).unwrap_or(false)
                                }) {
                                    drefs.push((si, di));
                                    continue;
                                }
                            }
                            s.data.push(Some(MData { id: id.clone(), key: ki, val: val.clone() }));
                            let di = s.data.len() - 1;
                            if let Some(id) = id {
                                self.ever_ids.insert(('D', set.clone(), id.clone()));
                            }
                            drefs.push((si, di));
                        }
                    }
                }
                if let Some(id) = id {
                    self.ever_ids.insert(('A', String::new(), id.clone()));
                }
                self.anns.push(Some(MAnn { id: id.clone(), kind: target.kind, parts, data: drefs }));
                Ok(())
            }
            Op::RemoveAnn(a) => {
                let ai = self.ann_idx(a).ok_or(MErr::Invalid("unknown annotation"))?;
                let mut seed = BTreeSet::new();
                seed.insert(ai);
                let victims = self.closure(seed);
                self.kill(&victims);
                Ok(())
            }
            Op::RemoveRes(r) => {
                let ri = self.res_idx(r).ok_or(MErr::Invalid("unknown resource"))?;
                let mut seed = BTreeSet::new();
                for (i, a) in self.anns.iter().enumerate() {
                    if let Some(a) = a {
                        if a.text_refs().iter().any(|t| t.0 == ri) || a.parts.iter().any(|p| *p == MT::Res(ri)) {
                            seed.insert(i);
                        }
                    }
                }
                let victims = self.closure(seed);
                self.kill(&victims);
                self.res[ri] = None;
                Ok(())
            }
            Op::RemoveSet(s) => {
                let si = self.set_idx(s).ok_or(MErr::Invalid("unknown dataset"))?;
                let mut seed = BTreeSet::new();
                for (i, a) in self.anns.iter().enumerate() {
                    if let Some(a) = a {
                        let uses = a.data.iter().any(|d| d.0 == si);
                        let targets = a.parts.iter().any(|p| match p {
                            MT::Set(x) => *x == si,
                            MT::Key(x, _) => *x == si,
                            MT::Data(x, _) => *x == si,
                            _ => false,
                        });
                        if uses || targets {
                            seed.insert(i);
                        }
                    }
                }
                let victims = self.closure(seed);
                self.kill(&victims);
                self.sets[si] = None;
                Ok(())
            }
            Op::RemoveData { set, data, strict } => {
                let si = self.set_idx(set).ok_or(MErr::Unspecified("remove_data on unknown set"))?;
                let di = self.data_idx(si, data).ok_or(MErr::Unspecified("remove_data on unknown data"))?;
                self.remove_data_item(si, di, *strict);
                Ok(())
            }
            Op::RemoveKey { set, key, strict } => {
                let si = self.set_idx(set).ok_or(MErr::Unspecified("remove_key on unknown set"))?;
                let ki = self.key_idx(si, key).ok_or(MErr::Unspecified("remove_key on unknown key"))?;
                let items: Vec<usize> = self.sets[si]
                    .as_ref()
                    .unwrap()
                    .data
                    .iter()
                    .enumerate()
                    .filter_map(|(i, d)| d.as_ref().filter(|d| d.key == ki).map(|_| i))
                    .collect();
                for di in items {
                    if self.sets[si].as_ref().unwrap().data[di].is_some() {
                        self.remove_data_item(si, di, *strict);
                    }
                }
                let mut seed = BTreeSet::new();
                for (i, a) in self.anns.iter().enumerate() {
                    if let Some(a) = a {
                        if a.parts.iter().any(|p| *p == MT::Key(si, ki)) {
                            seed.insert(i);
                        }
                    }
                }
                let victims = self.closure(seed);
                self.kill(&victims);
                self.sets[si].as_mut().unwrap().keys[ki] = None;
                Ok(())
            }
            Op::Protect(_) => Err(MErr::Unspecified("protect_text is not modelled in this alphabet")),
        }
    }
}

// ---------------------------------------------------------------------------------------------
// canonical, id-based rendering of forward references (shared by the model and the observation)

/// data item identified by public id, else by handle
pub fn data_name(id: Option<&str>, handle: usize) -> String {
    match id {
        Some(id) => id.to_string(),
        None => format!("#{}", handle),
    }
}

#[derive(Clone, Debug, PartialEq, Eq, PartialOrd, Ord, Hash)]
pub enum FRef {
    Text { res: String, b: usize, e: usize, mode: u8 },
    Ann { ann: String, text: Option<(String, usize, usize, u8)> },
    Res(String),
    Set(String),
    Key(String, String),
    Data(String, String),
}

#[derive(Clone, Debug, PartialEq, Eq, Hash)]
pub struct FAnn {
    pub name: String,
    pub kind: TKind,
    pub parts: Vec<FRef>,
    /// (set id, data name, key id, value)
    pub data: Vec<(String, String, String, Val)>,
}

impl Model {
    pub fn forward(&self) -> Vec<FAnn> {
        let mut out = Vec::new();
        for (i, a) in self.anns.iter().enumerate() {
            if let Some(a) = a {
                let rname = |r: usize| self.res[r].as_ref().map(|r| r.id.clone()).unwrap_or_else(|| format!("<dead res {}>", r));
                let sname = |s: usize| self.sets[s].as_ref().map(|s| s.id.clone()).unwrap_or_else(|| format!("<dead set {}>", s));
                let parts = a
                    .parts
                    .iter()
                    .map(|p| match p {
                        MT::Text { res, b, e, mode } => FRef::Text { res: rname(*res), b: *b, e: *e, mode: *mode },
                        MT::Ann { ann, text } => FRef::Ann {
                            ann: self.ann_name(*ann),
                            text: text.map(|(r, b, e, m)| (rname(r), b, e, m)),
                        },
                        MT::Res(r) => FRef::Res(rname(*r)),
                        MT::Set(s) => FRef::Set(sname(*s)),
                        MT::Key(s, k) => FRef::Key(
                            sname(*s),
                            self.sets[*s].as_ref().and_then(|x| x.keys[*k].clone()).unwrap_or_else(|| format!("<dead key {}>", k)),
                        ),
                        MT::Data(s, d) => FRef::Data(
                            sname(*s),
                            self.sets[*s]
                                .as_ref()
                                .and_then(|x| x.data[*d].as_ref())
                                .map(|x| data_name(x.id.as_deref(), *d))
                                .unwrap_or_else(|| format!("<dead data {}>", d)),
                        ),
                    })
                    .collect();
                let data = a
                    .data
                    .iter()
                    .map(|(s, d)| {
                        let set = self.sets[*s].as_ref();
                        let item = set.and_then(|x| x.data[*d].as_ref());
                        match (set, item) {
                            (Some(set), Some(item)) => (
                                set.id.clone(),
                                data_name(item.id.as_deref(), *d),
                                set.keys[item.key].clone().unwrap_or_else(|| format!("<dead key {}>", item.key)),
                                item.val.clone(),
                            ),
                            _ => (format!("<dead {}>", s), format!("<dead {}>", d), String::new(), Val::I(0)),
                        }
                    })
                    .collect();
                out.push(FAnn { name: self.ann_name(i), kind: a.kind, parts, data });
            }
        }
        out
    }
}
