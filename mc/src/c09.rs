//! C09 — STAMQL parsing is total, and printing then parsing is a fixpoint.
//!
//! Part 1 (totality): every token sequence up to a length over a fixed alphabet, appended to a menu of context
//! prefixes (top level, constraint position, operator position, value position, assignment position, sub-query
//! position, union position) and joined in three ways; plus every prefix at every char boundary, every
//! single-character deletion / duplication and every single-token substitution / insertion / deletion of a list
//! of valid seed queries. Every `Query::parse` call runs under `catch`; a panic is a finding.
//!
//! Part 2 (fixpoint): every seed query, every query of a small grammar (result type x name x constraint menu,
//! pairs of constraints, sub-query templates, ADD / DELETE forms) that parses, and a menu of programmatically
//! built queries and constraints whose `to_string()` returns Ok: `p1 = parse(print(q))` must succeed,
//! `structure(p1) == structure(q)`, `print(p1) == print(q)` and q and p1 must give the same rows on three small stores.

use crate::report::{Coverage, Reporter, Tier};
use crate::util::{catch, fnv64, msg_class};
use rayon::prelude::*;
use serde_json::{json, Value};
use stam::*;
use std::collections::{BTreeMap, BTreeSet};
use std::sync::atomic::{AtomicBool, AtomicU64, Ordering};

// ---------------------------------------------------------------------------------------------------------
// Part 1: totality
// ---------------------------------------------------------------------------------------------------------

/// The token alphabet (48 tokens).
pub const ALPHABET: &[&str] = &[
    "SELECT", "ADD", "DELETE", "OPTIONAL", "ANNOTATION", "DATA", "KEY", "TEXT", "RESOURCE", "DATASET", "WHERE", "WITH",
    "ID", "VALUE", "RELATION", "SUBSTORE", "LIMIT", "OFFSET", "AS", "TARGET", "RECURSIVE", "EMBEDS", "OR", "COMPOSITE",
    ";", "{", "}", "|", "[", "]", "=", ">",
    "?x", "\"s\"", "\"a\\\"b\"", "s", "-", "-1", "99999999999999999999", "null", "true", "a|b", "@attr", "\u{c9}",
    "\u{2003}", "\"", "2024-01-01T00:00:00Z", "1.5",
];

/// Context prefixes: the enumerated token sequence is appended to each of them.
pub const CONTEXTS: &[(&str, &str)] = &[
    ("top", ""),
    ("constraint", "SELECT ANNOTATION WHERE "),
    ("operator", "SELECT ANNOTATION WHERE DATA s k "),
    ("value", "SELECT ANNOTATION WHERE DATA s k = "),
    ("assignment", "ADD ANNOTATION WITH "),
    ("subquery", "SELECT ANNOTATION ?a WHERE ID x; { "),
    ("union", "SELECT ANNOTATION WHERE [ "),
];

const KEYWORDS: &[&str] = &[
    "SELECT", "ADD", "DELETE", "OPTIONAL", "ANNOTATION", "DATA", "KEY", "TEXT", "RESOURCE", "DATASET", "WHERE", "WITH", "ID",
    "VALUE", "RELATION", "SUBSTORE", "LIMIT", "OFFSET", "AS", "TARGET", "METADATA", "RECURSIVE", "NOCASE", "REGEX", "REGEXP",
    "OR", "COMPOSITE", "MULTI", "DIRECTIONAL", "WHOLE", "ALL", "NONE", "EQUALS", "EMBEDS", "EMBEDDED", "OVERLAPS", "PRECEDES",
    "SUCCEEDS", "SAMEBEGIN", "SAMEEND", "BEFORE", "AFTER",
];

const WS: &[char] = &[' ', '\n', '\r', '\t'];

#[derive(Clone, Copy, PartialEq, Eq, Debug)]
enum Joiner {
    Space,
    Newline,
    /// no separator after a punctuation token and none before `;`, otherwise one space
    Tight,
}

fn is_punct_token(t: &str) -> bool {
    matches!(t, ";" | "{" | "}" | "|" | "[" | "]" | "=" | ">")
}

/// Class of a whitespace-delimited token (used in signatures only).
pub fn tok_class(orig: &str) -> &'static str {
    // the parser ends an argument at `;`: classify what precedes the first one
    let t = orig.split(';').next().unwrap_or("");
    if t.is_empty() {
        return if orig.is_empty() { "empty" } else { "punct" };
    }
    if !t.is_ascii() {
        return "non-ascii";
    }
    if KEYWORDS.contains(&t) {
        return "keyword";
    }
    if matches!(t, "null" | "any" | "true" | "false") {
        return "literal";
    }
    let first = t.chars().next().unwrap();
    if first == '?' {
        return "var";
    }
    if first == '@' {
        return "attr";
    }
    if t.contains('"') {
        return "quoted";
    }
    if t.chars().all(|c| c.is_ascii_digit() || c == '-' || c == '.') && t.chars().any(|c| c.is_ascii_digit()) {
        return "number";
    }
    if first.is_ascii_digit() && t.contains('T') && t.contains(':') {
        return "datetime";
    }
    if t.len() > 1 && t.contains('|') {
        return "list";
    }
    if t.chars().all(|c| c.is_ascii_punctuation()) {
        return "punct";
    }
    if t.chars().all(|c| c.is_ascii_alphanumeric() || c == '_') {
        return "name";
    }
    "other"
}

/// (start, end) byte spans of the whitespace-delimited tokens
fn token_spans(s: &str) -> Vec<(usize, usize)> {
    let mut v = Vec::new();
    let mut start: Option<usize> = None;
    for (i, c) in s.char_indices() {
        if WS.contains(&c) {
            if let Some(b) = start.take() {
                v.push((b, i));
            }
        } else if start.is_none() {
            start = Some(i);
        }
    }
    if let Some(b) = start {
        v.push((b, s.len()));
    }
    v
}

fn parse_outcome(s: &str) -> Result<bool, String> {
    catch(|| Query::parse(s).is_ok())
}

fn panic_class(msg: &str) -> String {
    let mut c = msg_class(msg);
    // std quotes the character a bad slice index falls into: data, not class
    if let Some(p) = c.find("inside '") {
        let rest = &c[p + 8..];
        if let Some(q) = rest.find('\'') {
            c = format!("{}inside 'C{}", &c[..p], &rest[q..]);
        }
    }
    c
}

/// Signature of a parser panic: message class, the first SELECT/ADD/DELETE keyword of the input, and the class of the
/// offending token = last token of the shortest token-prefix of the input that, as it stands or closed with `;`,
/// already panics with the same message class.
fn panic_sig(s: &str, msg: &str) -> (String, String) {
    let spans = token_spans(s);
    let class = panic_class(msg);
    let same = |t: &str| match parse_outcome(t) {
        Err(m) => panic_class(&m) == class,
        Ok(_) => false,
    };
    let mut idx = spans.len().saturating_sub(1);
    for (i, &(_, e)) in spans.iter().enumerate() {
        if same(&s[..e]) || same(&format!("{};", &s[..e])) {
            idx = i;
            break;
        }
    }
    let offending = spans.get(idx).map(|&(b, e)| &s[b..e]).unwrap_or("");
    // first keyword: the first SELECT / ADD / DELETE token of the input (a `{` or `|` glued in front is ignored)
    let first = spans
        .iter()
        .map(|&(b, e)| s[b..e].trim_start_matches(|c| c == '{' || c == '|'))
        .find(|t| matches!(*t, "SELECT" | "ADD" | "DELETE"))
        .unwrap_or("none");
    (format!("total|{}|first={}|tok={}", class, first, tok_class(offending)), offending.to_string())
}

#[derive(Default)]
struct Stats {
    cases: AtomicU64,
    ok: AtomicU64,
    err: AtomicU64,
    panics: AtomicU64,
    nontrivial: AtomicU64,
    calls: AtomicU64,
}

#[derive(Default)]
struct Local {
    cases: u64,
    ok: u64,
    err: u64,
    panics: u64,
    nontrivial: u64,
    calls: u64,
}

impl Local {
    fn flush(&mut self, st: &Stats) {
        st.cases.fetch_add(self.cases, Ordering::Relaxed);
        st.ok.fetch_add(self.ok, Ordering::Relaxed);
        st.err.fetch_add(self.err, Ordering::Relaxed);
        st.panics.fetch_add(self.panics, Ordering::Relaxed);
        st.nontrivial.fetch_add(self.nontrivial, Ordering::Relaxed);
        st.calls.fetch_add(self.calls, Ordering::Relaxed);
        *self = Local::default();
    }
}

fn past_dispatch(s: &str) -> bool {
    let t = s.trim_start();
    t.starts_with("SELECT") || t.starts_with("ADD") || t.starts_with("DELETE") || t.starts_with('@')
}

fn ord_of(s: &str) -> u64 {
    (s.len() as u64) * 1_000_000 + fnv64(s.as_bytes()) % 1_000_000
}

/// One totality case. `also_tryfrom` additionally runs the `TryFrom<&str>` entry point.
fn check_total(rep: &Reporter, s: &str, also_tryfrom: bool, how: &str, l: &mut Local) {
    l.cases += 1;
    l.calls += 1;
    if past_dispatch(s) {
        l.nontrivial += 1;
    }
    let report = |msg: &str, entry: &str| {
        let (sig, offending) = panic_sig(s, msg);
        rep.fail(
            &sig,
            ord_of(s),
            || format!("{}({:?}) panicked: {} (offending token {:?}; input from {})", entry, s, msg, offending, how),
            || json!({"part": "totality", "input": s}),
        );
    };
    match parse_outcome(s) {
        Ok(true) => l.ok += 1,
        Ok(false) => l.err += 1,
        Err(msg) => {
            l.panics += 1;
            report(&msg, "Query::parse");
        }
    }
    if also_tryfrom {
        l.calls += 1;
        if let Err(msg) = catch(|| Query::try_from(s).is_ok()) {
            report(&msg, "Query::try_from");
        }
    }
}

fn join_into(buf: &mut String, prev: Option<&str>, tok: &str, joiner: Joiner) {
    if let Some(p) = prev {
        match joiner {
            Joiner::Space => buf.push(' '),
            Joiner::Newline => buf.push('\n'),
            Joiner::Tight => {
                if !(is_punct_token(p) || tok == ";") {
                    buf.push(' ')
                }
            }
        }
    }
    buf.push_str(tok);
}

/// All sequences of exactly `len` tokens appended to `ctx`. Returns false if the wall-clock deadline cut it short.
fn enumerate_sequences(rep: &Reporter, ctx: (&str, &str), joiner: Joiner, len: usize, st: &Stats, deadline: f64) -> bool {
    let a = ALPHABET.len();
    let how = format!("token sequences, context {:?}, joiner {:?}, length {}", ctx.0, joiner, len);
    if len == 0 {
        let mut l = Local::default();
        check_total(rep, ctx.1, false, &how, &mut l);
        check_total(rep, ctx.1.trim_end(), false, &how, &mut l);
        l.flush(st);
        return true;
    }
    let outer = a.pow((len - 1) as u32);
    let cut = AtomicBool::new(false);
    (0..outer).into_par_iter().for_each(|idx| {
        if cut.load(Ordering::Relaxed) {
            return;
        }
        if idx % 4096 == 0 && rep.elapsed() > deadline {
            cut.store(true, Ordering::Relaxed);
            return;
        }
        let mut l = Local::default();
        let mut prefix = String::with_capacity(128);
        prefix.push_str(ctx.1);
        let mut prev: Option<&str> = None;
        let mut x = idx;
        let mut digits = Vec::with_capacity(len);
        for _ in 0..len - 1 {
            digits.push(x % a);
            x /= a;
        }
        digits.reverse();
        for d in digits {
            join_into(&mut prefix, prev, ALPHABET[d], joiner);
            prev = Some(ALPHABET[d]);
        }
        let plen = prefix.len();
        for tok in ALPHABET {
            prefix.truncate(plen);
            join_into(&mut prefix, prev, tok, joiner);
            check_total(rep, &prefix, false, &how, &mut l);
        }
        l.flush(st);
    });
    !cut.load(Ordering::Relaxed)
}

/// The valid seed queries (the queries of the suite's query_parse* / query* tests plus grammar-derived variants).
pub fn seeds() -> Vec<&'static str> {
    vec![
        "SELECT ANNOTATION ?a WHERE DATA set key = value;",
        "SELECT ANNOTATION ?a WHERE DATA \"set\" \"key\" = \"value\";",
        "SELECT ANNOTATION ?a WHERE DATA \"set\" \"key\" = 5;",
        "SELECT ANNOTATION ?a WHERE DATA \"set\" \"key\";",
        "SELECT ANNOTATION ?a WHERE DATA \"set\" \"key\" = value|value2|value3;",
        "SELECT ANNOTATION ?a WHERE DATA \"set\" \"key\" = 3|4|5;",
        "SELECT ANNOTATION ?a WHERE DATA \"set\" \"key\" = \"value|value2|value3\";",
        "@a @b SELECT ANNOTATION ?a WHERE @blah @blieh=bloeh DATA \"set\" \"key\" = \"value\";",
        "SELECT ANNOTATION ?a WHERE TEXT blah;",
        "SELECT ANNOTATION ?a WHERE DATA \"set\" \"key\" = \"value\"; { SELECT ANNOTATION WHERE RELATION ?a SUCCEEDS; }",
        "SELECT ANNOTATION ?a WHERE DATA \"set\" \"key\" = \"value\"; { SELECT OPTIONAL ANNOTATION WHERE RELATION ?a SUCCEEDS; }",
        "SELECT ANNOTATION ?a WHERE DATA \"set\" \"key\" = \"value\"; { SELECT ANNOTATION WHERE RELATION ?a SUCCEEDS; | SELECT ANNOTATION WHERE RELATION ?a PRECEDES; }",
        "SELECT ANNOTATION ?a WHERE DATA \"set\" \"key\" = \"value\"; { SELECT ANNOTATION ?b WHERE RELATION ?a SUCCEEDS; | SELECT ANNOTATION ?c WHERE RELATION ?a PRECEDES; }",
        "SELECT ANNOTATION ?a WHERE [ DATA \"set\" \"key\" = \"value\" OR DATA \"set\" \"key\" = \"value\" ];",
        "SELECT ANNOTATION ?a WHERE [ DATA set key = value OR DATA set key = value ];",
        "SELECT ANNOTATION ?a WHERE DATA \"set\" \"key\"; [ DATA \"set\" \"key\" = \"value\" OR DATA \"set\" \"key\" = \"value\" ]; RESOURCE \"x\";",
        "ADD ANNOTATION ?a WITH DATA \"set\" \"key\" \"value\"; TARGET ?x; { SELECT ANNOTATION ?x WHERE ID \"A1\"; }",
        "DELETE ANNOTATION ?a { SELECT ANNOTATION ?a WHERE ID \"A1\"; }",
        "SELECT ANNOTATION ?a WHERE DATA myset type = phrase;",
        "SELECT ANNOTATION ?a WHERE LIMIT 1;",
        "SELECT ANNOTATION ?a WHERE LIMIT -1;",
        "SELECT ANNOTATION ?a WHERE LIMIT 0 1;",
        "SELECT ANNOTATION ?sentence WHERE DATA myset type = sentence; { SELECT ANNOTATION ?phrase WHERE RELATION ?sentence EMBEDS; DATA myset type = phrase; }",
        "SELECT ANNOTATION ?sentence WHERE DATA myset type = sentence; { SELECT ANNOTATION ?phrase WHERE RELATION ?sentence EMBEDS; DATA myset type = phrase; | SELECT ANNOTATION ?word WHERE RELATION ?sentence EMBEDS; DATA myset type = word;}",
        "SELECT ANNOTATION ?sentence WHERE DATA myset type = sentence; { SELECT OPTIONAL ANNOTATION ?phrase WHERE RELATION ?sentence EMBEDS; DATA myset type = phrase; | SELECT OPTIONAL ANNOTATION ?word WHERE RELATION ?sentence EMBEDS; DATA myset type = word; | SELECT OPTIONAL ANNOTATION ?nonexistant WHERE RELATION ?sentence EMBEDS; DATA myset type = nonexistant; }",
        " \n    SELECT ANNOTATION ?det WHERE\n        DATA testdataset pos = det;\n    {\n        SELECT ANNOTATION ?adj WHERE\n            RELATION ?det PRECEDES;\n            DATA testdataset pos = adj;\n        {\n            SELECT ANNOTATION ?n WHERE\n                RELATION ?adj PRECEDES;\n                DATA testdataset pos = n;\n        }\n    }\n    ",
        " \n    SELECT ANNOTATION ?n WHERE\n        DATA testdataset pos = n;\n    {\n        SELECT OPTIONAL ANNOTATION ?v WHERE\n            RELATION ?n PRECEDES;\n            DATA testdataset pos = v;\n    }\n    ",
        "SELECT ANNOTATION ?a WHERE [ DATA myset type = phrase OR DATA myset type = sentence ];",
        "ADD ANNOTATION ?a WITH DATA \"testdataset\" \"type\" \"phrase\"; TARGET ?target; \n            { SELECT TEXT ?target WHERE RESOURCE \"testres\" OFFSET 0 11; }",
        // grammar-derived variants
        "SELECT TEXT ?t WHERE RESOURCE \"r\" OFFSET 0 5;",
        "SELECT TEXT WHERE TEXT \"hello world\";",
        "SELECT TEXT WHERE TEXT \"\u{c9} a\\\"b\";",
        "SELECT RESOURCE ?r WHERE DATASET s;",
        "SELECT DATA ?d WHERE DATA s k > 1.5;",
        "SELECT KEY ?k WHERE DATASET \"s\";",
        "SELECT DATASET ?s;",
        "SELECT ANNOTATION",
        "SELECT annotation ?a WHERE ID a1;",
        "SELECT ANNOTATION ?a WHERE ANNOTATION a1 OFFSET 0 -1;",
        "SELECT ANNOTATION ?a WHERE DATA s k != null;",
        "SELECT ANNOTATION ?a WHERE DATA s k = true; DATA s k2 = any;",
        "SELECT ANNOTATION ?a WHERE DATA s k >= 2024-03-01T12:30:45+01:00;",
        "SELECT ANNOTATION ?a WHERE DATA s k <= -3; DATA s k < 2.5; DATA s k != 7;",
        "SELECT DATA ?d WHERE VALUE = 5;",
        "SELECT DATA ?d WHERE VALUE != \"x\";",
        "SELECT ANNOTATION ?a WHERE SUBSTORE NONE;",
        "SELECT ANNOTATION ?a WHERE ID \"a1\";\n{ SELECT DATA ?d WHERE ANNOTATION ?a;\n{ SELECT KEY ?k WHERE DATA ?d; } }",
        "SELECT ANNOTATION ?a WHERE ID \"a1\"; { SELECT ANNOTATION ?b WHERE KEY ?k; SUBSTORE ?s; DATASET ?d; TEXT ?t; }",
        "SELECT ANNOTATION ?a WHERE [ ID a1 OR [ DATA s k OR TEXT x ] ];",
        "SELECT TEXT ?t WHERE RESOURCE ?r OFFSET WHOLE;",
        "SELECT\tANNOTATION\n?a\nWHERE\n\tDATA s k = v;\n",
        "ADD ANNOTATION ?n WITH ID \"new\"; DATA s k 5; DATA s k2 1.5; DATA s k3 true; TARGET ?x OFFSET 0 2; { SELECT ANNOTATION ?x WHERE ID a1; }",
        "ADD ANNOTATION WITH COMPOSITE; TARGET ?x; TARGET ?y; { SELECT TEXT ?x WHERE RESOURCE r OFFSET 0 1; { SELECT TEXT ?y WHERE RESOURCE r OFFSET 2 3; } }",
        "DELETE ANNOTATION { SELECT ANNOTATION WHERE DATA s k = v; }",
        "@x SELECT ANNOTATION ?a { @y SELECT ANNOTATION ?b WHERE @z ANNOTATION ?a; }",
        "SELECT ANNOTATION ?a WHERE DATA s k = \"a|b\"; LIMIT -2 -1;",
    ]
}

/// Character-level and token-level single edits of the seed queries.
fn seed_edits(rep: &Reporter, st: &Stats, double_tokens: bool) -> u64 {
    let seeds = seeds();
    let n = AtomicU64::new(0);
    seeds.par_iter().for_each(|seed| {
        let mut l = Local::default();
        let bounds: Vec<usize> = seed.char_indices().map(|(i, _)| i).chain(std::iter::once(seed.len())).collect();
        // prefixes at every char boundary
        for &b in &bounds {
            check_total(rep, &seed[..b], true, "prefix of a seed query", &mut l);
        }
        // single-character deletion and duplication
        for w in bounds.windows(2) {
            let (b, e) = (w[0], w[1]);
            let del = format!("{}{}", &seed[..b], &seed[e..]);
            check_total(rep, &del, true, "seed query with one character deleted", &mut l);
            let dup = format!("{}{}{}", &seed[..e], &seed[b..e], &seed[e..]);
            check_total(rep, &dup, true, "seed query with one character duplicated", &mut l);
        }
        // token-level: deletion, substitution and insertion of one alphabet token
        let spans = token_spans(seed);
        for (i, &(b, e)) in spans.iter().enumerate() {
            let del = format!("{}{}", &seed[..b], &seed[e..]);
            check_total(rep, &del, true, "seed query with one token deleted", &mut l);
            for tok in ALPHABET {
                let sub = format!("{}{}{}", &seed[..b], tok, &seed[e..]);
                check_total(rep, &sub, true, "seed query with one token substituted", &mut l);
                // keep a trailing `;` glued to the substituted token, as in the seed
                if seed[b..e].ends_with(';') && e - b > 1 {
                    let sub = format!("{}{};{}", &seed[..b], tok, &seed[e..]);
                    check_total(rep, &sub, true, "seed query with one token substituted (semicolon kept)", &mut l);
                }
                let ins = format!("{}{} {}", &seed[..b], tok, &seed[b..]);
                check_total(rep, &ins, true, "seed query with one token inserted", &mut l);
                if double_tokens {
                    if let Some(&(_, e2)) = spans.get(i + 1) {
                        for tok2 in ALPHABET {
                            let sub = format!("{}{} {}{}", &seed[..b], tok, tok2, &seed[e2..]);
                            check_total(rep, &sub, false, "seed query with two adjacent tokens substituted", &mut l);
                        }
                    }
                }
            }
        }
        for tok in ALPHABET {
            let app = format!("{} {}", seed, tok);
            check_total(rep, &app, true, "seed query with one token appended", &mut l);
        }
        n.fetch_add(l.cases, Ordering::Relaxed);
        l.flush(st);
    });
    n.load(Ordering::Relaxed)
}

struct TotalityPlan {
    /// (context index, joiner, max length)
    runs: Vec<(usize, Joiner, usize)>,
    double_tokens: bool,
    deadline_s: f64,
}

fn totality_plan(tier: Tier) -> TotalityPlan {
    let mut runs = Vec::new();
    match tier {
        Tier::Quick => {
            for c in 0..CONTEXTS.len() {
                runs.push((c, Joiner::Space, 4));
                runs.push((c, Joiner::Newline, 2));
                runs.push((c, Joiner::Tight, 3));
            }
            TotalityPlan { runs, double_tokens: false, deadline_s: 24.0 }
        }
        Tier::Thorough => {
            for c in 0..CONTEXTS.len() {
                runs.push((c, Joiner::Tight, 4));
                runs.push((c, Joiner::Newline, 4));
            }
            // the longest runs last, so that a wall-clock cap cuts only them
            for c in 0..CONTEXTS.len() {
                runs.push((c, Joiner::Space, 5));
            }
            TotalityPlan { runs, double_tokens: true, deadline_s: 420.0 }
        }
    }
}

// ---------------------------------------------------------------------------------------------------------
// Part 2: print/parse fixpoint
// ---------------------------------------------------------------------------------------------------------

fn build_store(which: usize) -> AnnotationStore {
    let mut st = AnnotationStore::new(Config::default());
    let r = catch(|| -> Result<(), StamError> {
        let ts = |r: &'static str, b: usize, e: usize| SelectorBuilder::textselector(r, Offset::simple(b, e));
        match which {
            0 => {
                st.add_resource(TextResourceBuilder::new().with_id("r").with_text("hello world, hello v"))?;
                st.annotate(AnnotationBuilder::new().with_id("a1").with_target(ts("r", 0, 5)).with_data("s", "k", "v"))?;
                st.annotate(AnnotationBuilder::new().with_id("a2").with_target(ts("r", 6, 11)).with_data("s", "k", 5isize))?;
                st.annotate(
                    AnnotationBuilder::new()
                        .with_id("a3")
                        .with_target(SelectorBuilder::annotationselector("a1", Some(Offset::whole())))
                        .with_data("s", "k2", true),
                )?;
                st.annotate(AnnotationBuilder::new().with_id("a4").with_target(SelectorBuilder::resourceselector("r")).with_data("s", "k", 1.5f64))?;
                st.annotate(
                    AnnotationBuilder::new()
                        .with_id("a5")
                        .with_target(ts("r", 13, 18))
                        .with_data("s", "k", "v")
                        .with_data("s", "k2", DataValue::Null),
                )?;
                st.annotate(AnnotationBuilder::new().with_id("a6").with_target(ts("r", 0, 11)).with_data("s", "k", "two words"))?;
            }
            1 => {
                st.add_resource(TextResourceBuilder::new().with_id("r").with_text("abc def"))?;
                st.add_resource(TextResourceBuilder::new().with_id("r2").with_text("hello"))?;
                st.annotate(AnnotationBuilder::new().with_id("a1").with_target(ts("r", 0, 3)).with_data("s", "k", 2.0f64))?;
                st.annotate(AnnotationBuilder::new().with_id("a2").with_target(ts("r2", 0, 5)).with_data("s2", "k", "v"))?;
                st.annotate(AnnotationBuilder::new().with_id("a3").with_target(SelectorBuilder::datasetselector("s")).with_data("s", "k2", "meta"))?;
                st.annotate(
                    AnnotationBuilder::new()
                        .with_id("a4")
                        .with_target(SelectorBuilder::multiselector(vec![ts("r", 0, 3), ts("r", 4, 7)]))
                        .with_data("s", "k", -1isize),
                )?;
                st.annotate(
                    AnnotationBuilder::new()
                        .with_id("a5")
                        .with_target(ts("r", 4, 7))
                        .with_data("s", "k", DataValue::Datetime(chrono::DateTime::parse_from_rfc3339("2024-03-01T12:30:45+01:00").unwrap())),
                )?;
                st.annotate(AnnotationBuilder::new().with_id("a6").with_target(ts("r", 1, 2)).with_data("s", "k", "a\"b").with_data("s", "k2", "a|b"))?;
            }
            _ => {
                st.add_resource(TextResourceBuilder::new().with_id("r").with_text("hello"))?;
                st.annotate(AnnotationBuilder::new().with_id("a1").with_target(ts("r", 0, 5)).with_data("s", "k", false))?;
                st.annotate(AnnotationBuilder::new().with_id("x").with_target(ts("r", 1, 4)).with_data("s", "k", "5"))?;
            }
        }
        Ok(())
    });
    match r {
        Ok(Ok(())) => st,
        other => panic!("C09 harness: cannot build meaning store {}: {:?}", which, other.map(|x| x.map_err(|e| e.to_string()))),
    }
}

const NSTORES: usize = 3;

fn render_item(item: &QueryResultItem) -> String {
    match item {
        QueryResultItem::None => "None".into(),
        QueryResultItem::TextSelection(t) => format!("T:{}:{}-{}", t.resource().id().unwrap_or("?"), t.begin(), t.end()),
        QueryResultItem::Annotation(a) => match a.id() {
            Some(id) => format!("A:{}", id),
            None => format!("A:#{}", a.handle().as_usize()),
        },
        QueryResultItem::TextResource(r) => format!("R:{}", r.id().unwrap_or("?")),
        QueryResultItem::DataKey(k) => format!("K:{}/{}", k.set().id().unwrap_or("?"), k.as_str()),
        QueryResultItem::AnnotationData(d) => format!("D:{}/{}={:?}", d.set().id().unwrap_or("?"), d.key().as_str(), d.value()),
        QueryResultItem::AnnotationDataSet(s) => format!("S:{}", s.id().unwrap_or("?")),
        QueryResultItem::AnnotationSubStore(_) => "SUBSTORE".into(),
    }
}

fn render_rows(iter: QueryIter) -> String {
    let mut rows = Vec::new();
    for row in iter {
        let names: Vec<String> = row.names().map(|n| n.unwrap_or("_").to_string()).collect();
        let items: Vec<String> = row.iter().map(render_item).collect();
        rows.push(format!("({} = {})", names.join(","), items.join(",")));
        if rows.len() > 200 {
            rows.push("...".into());
            break;
        }
    }
    format!("{} rows [{}]", rows.len(), rows.join(" "))
}

fn err_class(e: &StamError) -> String {
    let m = e.to_string();
    let m = m.split('\'').next().unwrap_or("").to_string();
    let m = m.replace("[StamError] ", "").replace("QuerySyntaxError: Malformed query: ", "");
    msg_class(&m).chars().take(90).collect::<String>().trim().to_string()
}

/// Outcome of evaluating `q` on each meaning store (rows rendered; for ADD/DELETE also the store afterwards).
fn outcomes(q: &Query, stores: &[AnnotationStore], calls: &mut u64) -> Vec<String> {
    let mut out = Vec::new();
    for (i, store) in stores.iter().enumerate() {
        *calls += 1;
        if q.querytype().readonly() {
            let r = catch(|| match store.query(q.clone()) {
                Ok(it) => render_rows(it),
                Err(e) => format!("Err({})", err_class(&e)),
            });
            out.push(r.unwrap_or_else(|m| format!("panic({})", panic_class(&m))));
        } else {
            let mut store = build_store(i);
            let r = catch(|| match store.query_mut(q.clone()) {
                Ok(it) => render_rows(it),
                Err(e) => format!("Err({})", err_class(&e)),
            });
            let rows = r.unwrap_or_else(|m| format!("panic({})", panic_class(&m)));
            let dump = catch(|| {
                crate::ser::ser_abstract(&store, true, true)
                    .into_iter()
                    .filter(|(sec, _)| sec == "annotation" || sec == "data")
                    .map(|(_, l)| l)
                    .collect::<Vec<_>>()
                    .join("; ")
            })
            .unwrap_or_else(|m| format!("dump-panic({})", panic_class(&m)));
            out.push(format!("{} ; store after: {}", rows, dump));
        }
    }
    out
}

// ---- structure -------------------------------------------------------------------------------------------

#[derive(Clone, PartialEq, Debug)]
struct CS {
    variant: &'static str,
    fields: Vec<(&'static str, String)>,
    subs: Vec<CS>,
}

fn d<T: std::fmt::Debug>(x: T) -> String {
    format!("{:?}", x)
}

fn op_variant(dbg: &str) -> String {
    // "Not(Equals(..))" -> "Not(Equals)"
    let mut out = String::new();
    let head: String = dbg.chars().take_while(|c| c.is_ascii_alphabetic()).collect();
    out.push_str(&head);
    if head == "Not" {
        let inner: String = dbg[head.len()..].trim_start_matches('(').chars().take_while(|c| c.is_ascii_alphabetic()).collect();
        out.push('(');
        out.push_str(&inner);
        out.push(')');
    }
    out
}

fn cs(c: &Constraint) -> CS {
    let mut subs = Vec::new();
    let (variant, fields): (&'static str, Vec<(&'static str, String)>) = match c {
        Constraint::Id(id) => ("Id", vec![("id", d(id))]),
        Constraint::Annotation(id, q, dep, off) => ("Annotation", vec![("id", d(id)), ("qualifier", d(q)), ("depth", d(dep)), ("offset", d(off))]),
        Constraint::TextResource(id, q, off) => ("TextResource", vec![("id", d(id)), ("qualifier", d(q)), ("offset", d(off))]),
        Constraint::DataSet(id, q) => ("DataSet", vec![("id", d(id)), ("qualifier", d(q))]),
        Constraint::DataKey { set, key, qualifier } => ("DataKey", vec![("set", d(set)), ("key", d(key)), ("qualifier", d(qualifier))]),
        Constraint::SubStore(s) => ("SubStore", vec![("id", d(s))]),
        Constraint::KeyVariable(v, q) => ("KeyVariable", vec![("var", d(v)), ("qualifier", d(q))]),
        Constraint::DataVariable(v, q) => ("DataVariable", vec![("var", d(v)), ("qualifier", d(q))]),
        Constraint::DataSetVariable(v, q) => ("DataSetVariable", vec![("var", d(v)), ("qualifier", d(q))]),
        Constraint::ResourceVariable(v, q, off) => ("ResourceVariable", vec![("var", d(v)), ("qualifier", d(q)), ("offset", d(off))]),
        Constraint::TextVariable(v) => ("TextVariable", vec![("var", d(v))]),
        Constraint::SubStoreVariable(v) => ("SubStoreVariable", vec![("var", d(v))]),
        Constraint::TextRelation { var, operator } => ("TextRelation", vec![("var", d(var)), ("operator", d(operator))]),
        // `DATA s k = any` is deliberately printed as `DATA s k` (explicit branch in Constraint::to_string): one normal form
        Constraint::KeyValue { set, key, operator: DataOperator::Any, qualifier } => ("DataKey", vec![("set", d(set)), ("key", d(key)), ("qualifier", d(qualifier))]),
        Constraint::KeyValue { set, key, operator, qualifier } => {
            ("KeyValue", vec![("set", d(set)), ("key", d(key)), ("operator", d(operator)), ("qualifier", d(qualifier))])
        }
        Constraint::Value(op, q) => ("Value", vec![("operator", d(op)), ("qualifier", d(q))]),
        Constraint::KeyValueVariable(v, op, q) => ("KeyValueVariable", vec![("var", d(v)), ("operator", d(op)), ("qualifier", d(q))]),
        Constraint::Text(t, m) => ("Text", vec![("text", d(t)), ("mode", d(m))]),
        Constraint::Regex(r) => ("Regex", vec![("regex", d(r.as_str()))]),
        Constraint::Union(v) => {
            subs = v.iter().map(cs).collect();
            ("Union", vec![])
        }
        Constraint::AnnotationVariable(v, q, dep, off) => {
            ("AnnotationVariable", vec![("var", d(v)), ("qualifier", d(q)), ("depth", d(dep)), ("offset", d(off))])
        }
        Constraint::Limit { begin, end } => ("Limit", vec![("begin", d(begin)), ("end", d(end))]),
        Constraint::Annotations(..) => ("Annotations", vec![("debug", d(c))]),
        Constraint::Data(..) => ("Data", vec![("debug", d(c))]),
        Constraint::Keys(..) => ("Keys", vec![("debug", d(c))]),
        Constraint::Resources(..) => ("Resources", vec![("debug", d(c))]),
        Constraint::TextSelections(..) => ("TextSelections", vec![("debug", d(c))]),
    };
    CS { variant, fields, subs }
}

fn cs_diff(a: &CS, b: &CS) -> Option<String> {
    if a.variant != b.variant {
        return Some(format!("constraint:{}->{}", a.variant, b.variant));
    }
    for ((name, va), (_, vb)) in a.fields.iter().zip(b.fields.iter()) {
        if va != vb {
            if *name == "operator" {
                let (oa, ob) = (op_variant(va), op_variant(vb));
                let what = if a.variant == "TextRelation" { "relation-operator" } else { "operator" };
                return Some(if oa != ob {
                    format!("{}:{}->{}", what, oa, ob)
                } else if a.variant == "TextRelation" {
                    "relation-operator:modifiers".to_string()
                } else {
                    format!("operator:{}:value", oa)
                });
            }
            if *name == "qualifier" || *name == "depth" || *name == "mode" {
                return Some(format!("{}:{}->{}", name, va, vb));
            }
            return Some(format!("constraint:{}.{}", a.variant, name));
        }
    }
    if a.subs.len() != b.subs.len() {
        return Some("constraint:Union.len".into());
    }
    for (x, y) in a.subs.iter().zip(b.subs.iter()) {
        if let Some(dd) = cs_diff(x, y) {
            return Some(format!("Union/{}", dd.trim_start_matches("Union/")));
        }
    }
    None
}

#[derive(Clone, PartialEq, Debug)]
struct QS {
    qtype: String,
    rtype: Option<&'static str>,
    name: Option<String>,
    qualifier: String,
    attrs: Vec<String>,
    cons: Vec<(Vec<String>, CS)>,
    assigns: Vec<String>,
    subs: Vec<QS>,
}

fn structure(q: &Query) -> QS {
    // `constraints_with_attributes` zips with a vector that `with_constraint` does not fill: read both separately
    let cattrs: Vec<Vec<String>> = q.constraints_with_attributes().map(|(_, a)| a.iter().map(|s| s.to_string()).collect()).collect();
    QS {
        qtype: q.querytype().as_str().to_string(),
        rtype: q.resulttype_as_str(),
        name: q.name().map(|s| s.to_string()),
        qualifier: format!("{:?}", q.qualifier()),
        attrs: q.attributes().map(|s| s.to_string()).collect(),
        cons: q.constraints().enumerate().map(|(i, c)| (cattrs.get(i).cloned().unwrap_or_default(), cs(c))).collect(),
        assigns: q.assignments().map(|a| format!("{:?}", a)).collect(),
        subs: q.subqueries().map(structure).collect(),
    }
}

fn len_cmp(a: usize, b: usize) -> &'static str {
    if b < a {
        "fewer"
    } else {
        "more"
    }
}

/// Class of the first structural difference (original -> reparsed), None if equal.
fn qs_diff(a: &QS, b: &QS) -> Option<String> {
    if a.qtype != b.qtype {
        return Some(format!("querytype:{}->{}", a.qtype, b.qtype));
    }
    if a.rtype != b.rtype {
        return Some("resulttype".into());
    }
    if a.name != b.name {
        return Some("name".into());
    }
    if a.qualifier != b.qualifier {
        return Some(format!("qualifier:{}->{}", a.qualifier, b.qualifier));
    }
    if a.attrs != b.attrs {
        return Some("attributes".into());
    }
    if a.cons.len() != b.cons.len() {
        return Some(format!("constraints-len:{}", len_cmp(a.cons.len(), b.cons.len())));
    }
    for ((aa, ca), (ab, cb)) in a.cons.iter().zip(b.cons.iter()) {
        if let Some(dd) = cs_diff(ca, cb) {
            return Some(dd);
        }
        if aa != ab {
            return Some("constraint-attributes".into());
        }
    }
    if a.assigns.len() != b.assigns.len() {
        return Some(format!("assignments-len:{}", len_cmp(a.assigns.len(), b.assigns.len())));
    }
    if a.assigns != b.assigns {
        return Some("assignment".into());
    }
    if a.subs.len() != b.subs.len() {
        return Some(format!("subqueries-len:{}", len_cmp(a.subs.len(), b.subs.len())));
    }
    for (x, y) in a.subs.iter().zip(b.subs.iter()) {
        if let Some(dd) = qs_diff(x, y) {
            return Some(dd);
        }
    }
    None
}

// ---- the fixpoint check ------------------------------------------------------------------------------------

struct FixFail {
    /// symptom kind: reparse-err, reparse-panic, print-panic, structure-differs, print-differs, reprint-err, meaning-differs
    kind: &'static str,
    /// middle part of the signature (error class / difference class)
    mid: String,
    /// whether the signature needs the feature labels (no difference class available)
    by_labels: bool,
    detail: String,
}

#[derive(Default)]
struct FixOut {
    printed: Option<String>,
    unprintable: bool,
    fails: Vec<FixFail>,
    calls: u64,
}

/// The fixpoint check for one query. `skip_structure`: the constraint cannot be spelled in STAMQL one-to-one
/// (handle collections are printed as unions), only reparse / print stability / meaning are compared.
fn fix_check(q: &Query, stores: &[AnnotationStore], skip_structure: bool) -> FixOut {
    let mut o = FixOut::default();
    o.calls += 1;
    let s1 = match catch(|| q.to_string()) {
        Err(m) => {
            o.fails.push(FixFail { kind: "print-panic", mid: panic_class(&m), by_labels: true, detail: format!("to_string() panicked: {}", m) });
            return o;
        }
        Ok(Err(_)) => {
            o.unprintable = true;
            return o;
        }
        Ok(Ok(s)) => s,
    };
    o.printed = Some(s1.clone());
    o.calls += 1;
    let p1 = match catch(|| Query::try_from(s1.as_str())) {
        Err(m) => {
            o.fails.push(FixFail {
                kind: "reparse-panic",
                mid: panic_class(&m),
                by_labels: true,
                detail: format!("printed as {:?}; parsing that panicked: {}", s1, m),
            });
            return o;
        }
        Ok(Err(e)) => {
            o.fails.push(FixFail {
                kind: "reparse-err",
                mid: err_class(&e),
                by_labels: true,
                detail: format!("printed as {:?}; parsing that fails: {}", s1, e),
            });
            return o;
        }
        Ok(Ok(p)) => p,
    };
    let (sq, sp) = (structure(q), structure(&p1));
    let diff = if skip_structure { None } else { qs_diff(&sq, &sp) };
    if let Some(dc) = &diff {
        o.fails.push(FixFail {
            kind: "structure-differs",
            mid: dc.clone(),
            by_labels: false,
            detail: format!("printed as {:?}; reparsed structure differs at {}: original {:?} reparsed {:?}", s1, dc, sq, sp),
        });
    }
    o.calls += 1;
    let mut notes: Vec<String> = Vec::new();
    match catch(|| p1.to_string()) {
        Err(m) => o.fails.push(FixFail { kind: "print-panic", mid: panic_class(&m), by_labels: true, detail: format!("second to_string() panicked: {}", m) }),
        Ok(Err(e)) => {
            if diff.is_none() {
                o.fails.push(FixFail {
                    kind: "reprint-err",
                    mid: "structure-equal".into(),
                    by_labels: true,
                    detail: format!("printed as {:?}; the reparsed query cannot be printed: {}", s1, e),
                });
            } else {
                notes.push(format!("the reparsed query cannot be printed ({})", e));
            }
        }
        Ok(Ok(s2)) => {
            if s2 != s1 {
                if diff.is_none() {
                    o.fails.push(FixFail {
                        kind: "print-differs",
                        mid: "structure-equal".into(),
                        by_labels: true,
                        detail: format!("first print {:?}, print of the reparsed query {:?}", s1, s2),
                    });
                } else {
                    notes.push(format!("second print differs: {:?}", s2));
                }
            }
        }
    }
    let oq = outcomes(q, stores, &mut o.calls);
    let op = outcomes(&p1, stores, &mut o.calls);
    for i in 0..oq.len() {
        if oq[i] != op[i] {
            if diff.is_none() {
                o.fails.push(FixFail {
                    kind: "meaning-differs",
                    mid: "structure-equal".into(),
                    by_labels: true,
                    detail: format!("printed as {:?}; on store {} the original gives {} but the reparsed query gives {}", s1, i, oq[i], op[i]),
                });
            } else {
                notes.push(format!("meaning differs too: on store {} the original gives {} but the reparsed query gives {}", i, oq[i], op[i]));
            }
            break;
        }
    }
    if !notes.is_empty() {
        if let Some(f) = o.fails.iter_mut().find(|f| f.kind == "structure-differs") {
            f.detail = format!("{}; {}", f.detail, notes.join("; "));
        }
    }
    o
}

// ---- generators ----------------------------------------------------------------------------------------------

#[derive(Clone)]
struct TextCase {
    labels: Vec<String>,
    text: String,
}

fn tc(labels: &[&str], text: impl Into<String>) -> TextCase {
    TextCase { labels: labels.iter().map(|s| s.to_string()).collect(), text: text.into() }
}

const RTYPES: &[&str] = &["ANNOTATION", "DATA", "KEY", "TEXT", "RESOURCE", "DATASET"];

/// (label, constraint text including the closing `;`)
fn constraint_menu() -> Vec<(String, String)> {
    let mut v: Vec<(String, String)> = Vec::new();
    let mut add = |l: &str, t: &str| v.push((l.to_string(), t.to_string()));
    add("ID-bare", "ID a1;");
    add("ID-quoted", "ID \"a1\";");
    add("ID-quoted-space", "ID \"a 1\";");
    add("ID-escaped-quote", "ID \"a\\\"1\";");
    add("DATA-key", "DATA s k;");
    add("DATA-key-quoted", "DATA \"s\" \"k2\";");
    add("DATA-var", "DATA ?d;");
    add("KEY-var", "KEY ?k;");
    add("DATA-as-metadata", "DATA AS METADATA s k;");
    add("DATA-as-metadata-var", "DATA AS METADATA ?d;");
    add("KEY-as-metadata-var", "KEY AS METADATA ?k;");
    add("TEXT-bare", "TEXT hello;");
    add("TEXT-quoted", "TEXT \"hello world\";");
    add("TEXT-escaped-quote", "TEXT \"a\\\"b\";");
    add("TEXT-nocase", "TEXT AS NOCASE \"Hello\";");
    add("TEXT-regex", "TEXT AS REGEX \"h.*o\";");
    add("TEXT-var", "TEXT ?x;");
    add("RESOURCE-id", "RESOURCE r;");
    add("RESOURCE-quoted", "RESOURCE \"r\";");
    add("RESOURCE-offset2", "RESOURCE r OFFSET 0 5;");
    add("RESOURCE-offset1", "RESOURCE r OFFSET 6;");
    add("RESOURCE-offset-neg", "RESOURCE r OFFSET -3 -1;");
    add("RESOURCE-offset-whole", "RESOURCE r OFFSET WHOLE;");
    add("RESOURCE-var", "RESOURCE ?x;");
    add("RESOURCE-var-offset", "RESOURCE ?x OFFSET 0 2;");
    add("RESOURCE-as-metadata", "RESOURCE AS METADATA r;");
    add("RESOURCE-as-target-var", "RESOURCE AS TARGET ?x;");
    add("DATASET-id", "DATASET s;");
    add("DATASET-quoted", "DATASET \"s\";");
    add("DATASET-var", "DATASET ?x;");
    add("DATASET-as-metadata", "DATASET AS METADATA s;");
    add("ANNOTATION-id", "ANNOTATION a1;");
    add("ANNOTATION-quoted", "ANNOTATION \"a1\";");
    add("ANNOTATION-var", "ANNOTATION ?x;");
    add("ANNOTATION-offset", "ANNOTATION a1 OFFSET 0 2;");
    add("ANNOTATION-as-metadata", "ANNOTATION AS METADATA a1;");
    add("ANNOTATION-as-target-recursive", "ANNOTATION AS TARGET RECURSIVE a1;");
    add("ANNOTATION-as-metadata-var", "ANNOTATION AS METADATA ?x;");
    for op in ["EQUALS", "EMBEDS", "EMBEDDED", "OVERLAPS", "PRECEDES", "SUCCEEDS", "SAMEBEGIN", "SAMEEND", "BEFORE", "AFTER"] {
        add(&format!("RELATION-{}", op), &format!("RELATION ?x {};", op));
    }
    add("SUBSTORE-id", "SUBSTORE x;");
    add("SUBSTORE-none", "SUBSTORE NONE;");
    add("SUBSTORE-var", "SUBSTORE ?x;");
    for (l, t) in [("1", "1"), ("neg", "-1"), ("two", "0 1"), ("two-neg", "-2 -1"), ("zero", "0"), ("open-end", "2 0")] {
        add(&format!("LIMIT-{}", l), &format!("LIMIT {};", t));
    }
    add("UNION-2", "[ ID a1 OR ID a2 ];");
    add("UNION-3", "[ DATA s k = v OR DATA s k = 5 OR TEXT hello ];");
    add("UNION-1", "[ ID a1 ];");
    add("UNION-nested", "[ ID a1 OR [ DATA s k OR TEXT hello ] ];");
    add("UNION-semicolons", "[ ID a1; OR ID a2; ];");
    let vals: &[(&str, &str)] = &[
        ("str", "v"),
        ("qstr", "\"v\""),
        ("qstr-space", "\"two words\""),
        ("int", "5"),
        ("negint", "-1"),
        ("zero", "0"),
        ("negzero", "-0"),
        ("float", "1.5"),
        ("float-integral", "2.0"),
        ("negfloat", "-0.5"),
        ("float-long", "123456789012345678901234.5"),
        ("true", "true"),
        ("false", "false"),
        ("null", "null"),
        ("any", "any"),
        ("list", "v|w"),
        ("intlist", "3|5"),
        ("mixedlist", "1.5|x"),
        ("qlist", "\"v|w\""),
        ("datetime", "2024-03-01T12:30:45+01:00"),
        ("datetime-z", "2024-03-01T11:30:45Z"),
        ("datetime-subsec", "2024-03-01T12:30:45.250+01:00"),
        ("qdigits", "\"5\""),
        ("qnull", "\"null\""),
        ("qtrue", "\"true\""),
        ("qescquote", "\"a\\\"b\""),
        ("qescpipe", "\"a\\|b\""),
        ("qempty", "\"\""),
    ];
    for op in ["=", "!=", ">", ">=", "<", "<="] {
        for (vl, vt) in vals {
            add(&format!("DATA{}{}", op, vl), &format!("DATA s k {} {};", op, vt));
            add(&format!("VALUE{}{}", op, vl), &format!("VALUE {} {};", op, vt));
        }
    }
    v
}

/// A reduced constraint menu for the combination templates.
fn reduced_menu() -> Vec<(String, String)> {
    let keep = [
        "ID-quoted", "DATA-key", "DATA-var", "KEY-var", "TEXT-quoted", "TEXT-var", "RESOURCE-offset2", "RESOURCE-var", "DATASET-id",
        "DATASET-var", "ANNOTATION-id", "ANNOTATION-var", "RELATION-EMBEDS", "RELATION-PRECEDES", "SUBSTORE-none", "LIMIT-two",
        "LIMIT-neg", "UNION-2", "DATA=str", "DATA=int", "DATA=float", "DATA!=null", "DATA=list", "DATA>int", "DATA=true",
        "VALUE=qstr", "VALUE>=float",
    ];
    constraint_menu().into_iter().filter(|(l, _)| keep.contains(&l.as_str())).collect()
}

fn grammar_cases() -> Vec<TextCase> {
    let mut v = Vec::new();
    let menu = constraint_menu();
    let red = reduced_menu();
    // base forms
    for rt in RTYPES {
        v.push(tc(&["base"], format!("SELECT {}", rt)));
        v.push(tc(&["base"], format!("SELECT {} ?a", rt)));
        v.push(tc(&["rt-lowercase"], format!("SELECT {} ?a", rt.to_lowercase())));
    }
    v.push(tc(&["where-empty"], "SELECT ANNOTATION ?a WHERE"));
    // single constraints under every result type, with and without a name
    for rt in RTYPES {
        for (l, c) in &menu {
            v.push(tc(&[l], format!("SELECT {} ?a WHERE {}", rt, c)));
            v.push(tc(&[l], format!("SELECT {} WHERE {}", rt, c)));
        }
    }
    // a constraint without the closing semicolon, whitespace variants
    for (l, c) in &red {
        v.push(tc(&[l, "no-final-semicolon"], format!("SELECT ANNOTATION ?a WHERE {}", c.trim_end_matches(';'))));
        v.push(tc(&[l, "ws-newlines"], format!("SELECT\nANNOTATION\t?a\r\nWHERE\n\t{}\n", c)));
    }
    // ordered pairs of constraints
    for (l1, c1) in &red {
        for (l2, c2) in &red {
            v.push(tc(&[l1, l2], format!("SELECT ANNOTATION ?a WHERE {} {}", c1, c2)));
        }
    }
    // attributes
    v.push(tc(&["attr-query"], "@x SELECT ANNOTATION ?a WHERE ID a1;"));
    v.push(tc(&["attr-query"], "@x @y=z SELECT TEXT"));
    v.push(tc(&["attr-constraint"], "SELECT ANNOTATION ?a WHERE @x ID a1; @y @z DATA s k;"));
    v.push(tc(&["attr-subquery"], "SELECT ANNOTATION ?a WHERE ID a1; { @x SELECT ANNOTATION ?b WHERE ANNOTATION ?a; }"));
    v.push(tc(&["attr-in-union"], "SELECT ANNOTATION ?a WHERE [ @x ID a1 OR @y ID a2 ];"));
    // sub-query templates
    v.push(tc(&["base:subq"], "SELECT ANNOTATION ?x WHERE ID a1; { SELECT ANNOTATION ?y WHERE ID a3; }"));
    v.push(tc(&["base:subq"], "SELECT ANNOTATION ?x { SELECT DATA ?y }"));
    v.push(tc(&["base:subq", "subq-no-outer-where"], "SELECT TEXT ?x { SELECT ANNOTATION ?y WHERE TEXT ?x; }"));
    for rt in RTYPES {
        for (l, c) in &red {
            v.push(tc(&["base:subq", l], format!("SELECT ANNOTATION ?x WHERE DATA s k; {{ SELECT {} ?y WHERE {} }}", rt, c)));
            v.push(tc(&["base:subq", l], format!("SELECT TEXT ?x WHERE RESOURCE r OFFSET 0 11; {{ SELECT {} ?y WHERE {} }}", rt, c)));
        }
    }
    for (l, c) in &red {
        v.push(tc(&["base:subq", "subq-optional", l], format!("SELECT ANNOTATION ?x WHERE DATA s k; {{ SELECT OPTIONAL ANNOTATION ?y WHERE {} }}", c)));
        v.push(tc(
            &["base:subq", "subq-siblings", l],
            format!("SELECT ANNOTATION ?x WHERE DATA s k; {{ SELECT ANNOTATION ?y WHERE {} | SELECT TEXT ?z WHERE {} }}", c, c),
        ));
        v.push(tc(
            &["base:subq", "subq-nested", l],
            format!("SELECT ANNOTATION ?x WHERE DATA s k; {{ SELECT TEXT ?y WHERE ANNOTATION ?x; {{ SELECT ANNOTATION ?z WHERE {} }} }}", c),
        ));
    }
    v.push(tc(&["base:subq", "subq-optional"], "SELECT ANNOTATION ?x WHERE ID a1; { SELECT OPTIONAL ANNOTATION ?y WHERE ANNOTATION ?x; }"));
    v.push(tc(&["base:subq", "subq-optional"], "SELECT ANNOTATION ?x { SELECT OPTIONAL ANNOTATION ?y WHERE ID nope; }"));
    v.push(tc(&["base:subq", "subq-siblings"], "SELECT ANNOTATION ?x WHERE ID a1; { SELECT ANNOTATION ?y WHERE ANNOTATION ?x; | SELECT TEXT ?z WHERE ANNOTATION ?x; }"));
    v.push(tc(
        &["base:subq", "subq-siblings"],
        "SELECT ANNOTATION ?x WHERE ID a1; { SELECT ANNOTATION ?y WHERE ANNOTATION ?x; | SELECT TEXT ?z WHERE ANNOTATION ?x; | SELECT DATA ?w WHERE ANNOTATION ?x; }",
    ));
    v.push(tc(&["base:subq", "subq-nested"], "SELECT ANNOTATION ?x WHERE ID a1; { SELECT TEXT ?y WHERE ANNOTATION ?x; { SELECT ANNOTATION ?z WHERE TEXT ?y; } }"));
    v.push(tc(&["top-optional"], "SELECT OPTIONAL ANNOTATION ?x WHERE ID a1;"));
    // ADD
    let sub = "{ SELECT ANNOTATION ?x WHERE ID a1; }";
    let tsub = "{ SELECT TEXT ?x WHERE RESOURCE r OFFSET 0 5; }";
    v.push(tc(&["add-no-with"], format!("ADD ANNOTATION ?n {}", sub)));
    v.push(tc(&["add-target"], format!("ADD ANNOTATION ?n WITH TARGET ?x; {}", sub)));
    v.push(tc(&["add-target"], format!("ADD ANNOTATION WITH TARGET ?x; {}", tsub)));
    v.push(tc(&["add-target", "add-target-offset"], format!("ADD ANNOTATION ?n WITH TARGET ?x OFFSET 0 2; {}", tsub)));
    v.push(tc(&["add-target", "add-id"], format!("ADD ANNOTATION ?n WITH ID \"new\"; TARGET ?x; {}", sub)));
    for (l, val) in [
        ("str", "w"), ("qstr", "\"two words\""), ("int", "5"), ("negint", "-1"), ("float", "1.5"), ("true", "true"), ("false", "false"),
        ("none", ""), ("qdigits", "\"5\""), ("qescquote", "\"a\\\"b\""),
    ] {
        v.push(tc(&["add-target", &format!("add-data-{}", l)], format!("ADD ANNOTATION ?n WITH DATA s k3 {}; TARGET ?x; {}", val, sub)));
    }
    for kind in ["COMPOSITE", "MULTI", "DIRECTIONAL"] {
        v.push(tc(
            &["add-target", "add-complex"],
            format!("ADD ANNOTATION ?n WITH {}; TARGET ?x; TARGET ?y; {{ SELECT TEXT ?x WHERE RESOURCE r OFFSET 0 1; {{ SELECT TEXT ?y WHERE RESOURCE r OFFSET 2 3; }} }}", kind),
        ));
    }
    // DELETE
    v.push(tc(&["delete"], format!("DELETE ANNOTATION ?x {}", sub)));
    v.push(tc(&["delete"], "DELETE ANNOTATION { SELECT ANNOTATION WHERE DATA s k = v; }"));
    v.push(tc(&["delete", "subq-nested"], "DELETE ANNOTATION ?y { SELECT ANNOTATION ?x WHERE ID a1; { SELECT ANNOTATION ?y WHERE ANNOTATION ?x; } }"));
    v.push(tc(&["delete-no-subquery"], "DELETE ANNOTATION ?x"));
    v
}
// ---- programmatic queries and constraints -----------------------------------------------------------------------

fn dt(s: &str) -> chrono::DateTime<chrono::FixedOffset> {
    chrono::DateTime::parse_from_rfc3339(s).unwrap()
}

/// (label, operator): every operator for which a STAMQL spelling could exist
fn prog_operators() -> Vec<(String, DataOperator<'static>)> {
    let mut v: Vec<(String, DataOperator<'static>)> = Vec::new();
    let mut add = |l: &str, o: DataOperator<'static>| v.push((l.to_string(), o));
    add("Null", DataOperator::Null);
    add("Any", DataOperator::Any);
    add("True", DataOperator::True);
    add("False", DataOperator::False);
    add("Equals-str", DataOperator::Equals("v".into()));
    add("Equals-str-space", DataOperator::Equals("two words".into()));
    add("Equals-str-with-quote", DataOperator::Equals("a\"b".into()));
    add("Equals-str-with-pipe", DataOperator::Equals("a|b".into()));
    add("Equals-str-with-backslash", DataOperator::Equals("a\\b".into()));
    add("Equals-str-digits", DataOperator::Equals("5".into()));
    add("Equals-str-null", DataOperator::Equals("null".into()));
    add("Equals-str-true", DataOperator::Equals("true".into()));
    add("Equals-str-any", DataOperator::Equals("any".into()));
    add("Equals-str-datetime", DataOperator::Equals("2024-03-01T12:30:45+01:00".into()));
    add("Equals-str-empty", DataOperator::Equals("".into()));
    add("EqualsInt", DataOperator::EqualsInt(5));
    add("EqualsInt-neg", DataOperator::EqualsInt(-1));
    add("EqualsInt-min", DataOperator::EqualsInt(isize::MIN));
    add("EqualsFloat", DataOperator::EqualsFloat(1.5));
    add("EqualsFloat-integral", DataOperator::EqualsFloat(2.0));
    add("EqualsFloat-neg", DataOperator::EqualsFloat(-0.5));
    add("EqualsFloat-nonfinite", DataOperator::EqualsFloat(f64::INFINITY));
    add("GreaterThan", DataOperator::GreaterThan(5));
    add("GreaterThanOrEqual", DataOperator::GreaterThanOrEqual(5));
    add("LessThan", DataOperator::LessThan(-1));
    add("LessThanOrEqual", DataOperator::LessThanOrEqual(5));
    add("GreaterThanFloat", DataOperator::GreaterThanFloat(1.5));
    add("GreaterThanFloat-integral", DataOperator::GreaterThanFloat(2.0));
    add("GreaterThanOrEqualFloat", DataOperator::GreaterThanOrEqualFloat(1.5));
    add("LessThanFloat", DataOperator::LessThanFloat(1.5));
    add("LessThanOrEqualFloat", DataOperator::LessThanOrEqualFloat(1.5));
    let t = "2024-03-01T12:30:45+01:00";
    add("ExactDatetime", DataOperator::ExactDatetime(dt(t)));
    add("ExactDatetime-utc", DataOperator::ExactDatetime(dt("2024-03-01T11:30:45Z")));
    add("AfterDatetime", DataOperator::AfterDatetime(dt(t)));
    add("ExactDatetime-subsec", DataOperator::ExactDatetime(dt("2024-03-01T12:30:45.250+01:00")));
    add("AfterDatetime-subsec-utc", DataOperator::AfterDatetime(dt("2024-03-01T11:30:45.000001Z")));
    add("BeforeDatetime", DataOperator::BeforeDatetime(dt(t)));
    add("AtOrAfterDatetime", DataOperator::AtOrAfterDatetime(dt(t)));
    add("AtOrBeforeDatetime", DataOperator::AtOrBeforeDatetime(dt(t)));
    add("Not-Equals-str", DataOperator::Not(Box::new(DataOperator::Equals("v".into()))));
    add("Not-EqualsInt", DataOperator::Not(Box::new(DataOperator::EqualsInt(5))));
    add("Not-EqualsFloat", DataOperator::Not(Box::new(DataOperator::EqualsFloat(1.5))));
    add("Not-Null", DataOperator::Not(Box::new(DataOperator::Null)));
    add("Not-Any", DataOperator::Not(Box::new(DataOperator::Any)));
    add("Not-True", DataOperator::Not(Box::new(DataOperator::True)));
    add("Not-False", DataOperator::Not(Box::new(DataOperator::False)));
    // no syntax exists (to_string returns Err): counted as unprintable, never a finding
    add("Not-GreaterThan", DataOperator::Not(Box::new(DataOperator::GreaterThan(5))));
    add("Or", DataOperator::Or(vec![DataOperator::Equals("v".into()), DataOperator::EqualsInt(5)]));
    add("And", DataOperator::And(vec![DataOperator::GreaterThan(1), DataOperator::LessThan(9)]));
    add("HasElement", DataOperator::HasElement("v".into()));
    v
}

/// Programmatic constraints: (labels, constraint). The first label `base:<Variant>` names the variant in its default
/// form; every further label is one non-default atom (qualifier, depth, offset form, operator, awkward string).
fn prog_constraints() -> Vec<(Vec<String>, Constraint<'static>)> {
    use AnnotationDepth as AD;
    use SelectionQualifier as SQ;
    let mut v: Vec<(Vec<String>, Constraint<'static>)> = Vec::new();
    let mut add = |variant: &str, atoms: &[&str], c: Constraint<'static>| {
        let mut l = vec![format!("base:{}", variant)];
        l.extend(atoms.iter().filter(|a| !a.is_empty()).map(|a| a.to_string()));
        v.push((l, c));
    };
    let quals = [(SQ::Normal, ""), (SQ::Metadata, "qualifier-metadata")];
    let depths = [(AD::One, ""), (AD::Zero, "depth-zero"), (AD::Max, "depth-max")];
    let offs: Vec<(Option<Offset>, &str)> = vec![
        (None, ""),
        (Some(Offset::simple(0, 2)), "offset-simple"),
        (Some(Offset::new(Cursor::BeginAligned(1), Cursor::EndAligned(0))), "offset-to-end"),
        (Some(Offset::new(Cursor::EndAligned(-3), Cursor::EndAligned(-1))), "offset-endaligned"),
    ];
    for (id, il) in [("a1", ""), ("a 1", "str-with-space"), ("a\"1", "str-with-quote"), ("", "str-empty"), ("?x", "str-looks-like-var")] {
        add("Id", &[il], Constraint::Id(id));
    }
    for (q, ql) in quals {
        for (dep, dl) in depths {
            for (off, ol) in &offs {
                add("Annotation", &[ql, dl, ol], Constraint::Annotation("a1", q, dep, off.clone()));
                add("AnnotationVariable", &[ql, dl, ol], Constraint::AnnotationVariable("x", q, dep, off.clone()));
            }
        }
        for (off, ol) in &offs {
            add("TextResource", &[ql, ol], Constraint::TextResource("r", q, off.clone()));
            add("ResourceVariable", &[ql, ol], Constraint::ResourceVariable("x", q, off.clone()));
        }
        add("DataSet", &[ql], Constraint::DataSet("s", q));
        add("DataSetVariable", &[ql], Constraint::DataSetVariable("x", q));
        add("DataKey", &[ql], Constraint::DataKey { set: "s", key: "k", qualifier: q });
        add("KeyVariable", &[ql], Constraint::KeyVariable("k", q));
        add("DataVariable", &[ql], Constraint::DataVariable("d", q));
        for (ol, op) in prog_operators() {
            let atom = if ol == "Equals-str" { String::new() } else { format!("op:{}", ol) };
            if q == SQ::Normal || matches!(ol.as_str(), "Equals-str" | "EqualsInt" | "Any") {
                add("KeyValue", &[ql, &atom], Constraint::KeyValue { set: "s", key: "k", operator: op.clone(), qualifier: q });
                add("Value", &[ql, &atom], Constraint::Value(op.clone(), q));
            }
            if matches!(ol.as_str(), "Equals-str" | "EqualsInt" | "Any" | "GreaterThanFloat") {
                add("KeyValueVariable", &[ql, &atom], Constraint::KeyValueVariable("k", op.clone(), q));
            }
        }
    }
    add("Annotation", &["str-looks-like-var"], Constraint::Annotation("?x", SQ::Normal, AD::One, None));
    add("TextResource", &["str-looks-like-var"], Constraint::TextResource("?x", SQ::Normal, None));
    add("TextResource", &["str-with-quote"], Constraint::TextResource("a\"1", SQ::Normal, None));
    add("DataSet", &["str-looks-like-var"], Constraint::DataSet("?x", SQ::Normal));
    add("DataKey", &["str-looks-like-var"], Constraint::DataKey { set: "?x", key: "k", qualifier: SQ::Normal });
    add("DataKey", &["str-with-quote"], Constraint::DataKey { set: "s", key: "a\"b", qualifier: SQ::Normal });
    add("SubStore", &[], Constraint::SubStore(Some("x")));
    add("SubStore", &["substore-none"], Constraint::SubStore(None));
    add("SubStore", &["str-NONE"], Constraint::SubStore(Some("NONE")));
    add("SubStore", &["str-looks-like-var"], Constraint::SubStore(Some("?x")));
    add("SubStoreVariable", &[], Constraint::SubStoreVariable("x"));
    add("TextVariable", &[], Constraint::TextVariable("x"));
    type TSO = TextSelectionOperator;
    let rels: Vec<(&str, TSO)> = vec![
        ("", TSO::embeds()),
        ("rel-equals", TSO::equals()),
        ("rel-overlaps", TSO::overlaps()),
        ("rel-embedded", TSO::embedded()),
        ("rel-before", TSO::before()),
        ("rel-after", TSO::after()),
        ("rel-precedes", TSO::precedes()),
        ("rel-succeeds", TSO::succeeds()),
        ("rel-samebegin", TSO::samebegin()),
        ("rel-sameend", TSO::sameend()),
        ("rel-samerange", TSO::SameRange { all: false, negate: false }),
        ("rel-inset", TSO::InSet { all: false, negate: false }),
        ("rel-negated", TSO::Embeds { all: false, negate: true }),
        ("rel-all", TSO::Embeds { all: true, negate: false }),
        ("rel-limit", TSO::Embedded { all: false, negate: false, limit: Some(1) }),
        ("rel-precedes-nowhitespace", TSO::Precedes { all: false, negate: false, allow_whitespace: false }),
    ];
    for (l, op) in rels {
        add("TextRelation", &[l], Constraint::TextRelation { var: "x", operator: op });
    }
    // (an empty search text is not in the menu: evaluating it does not terminate, which is not a C09 matter)
    for (t, tl) in [("hello", ""), ("hello world", "str-with-space"), ("a\"b", "str-with-quote"), ("?x", "str-looks-like-var"), ("a;b", "str-with-semicolon")] {
        add("Text", &[tl], Constraint::Text(t, TextMode::Exact));
    }
    add("Text", &["mode-nocase"], Constraint::Text("Hello", TextMode::CaseInsensitive));
    add("Regex", &[], Constraint::Regex(regex::Regex::new("h.*o").unwrap()));
    add("Regex", &["str-with-quote"], Constraint::Regex(regex::Regex::new("a\"b").unwrap()));
    add("Union", &[], Constraint::Union(vec![Constraint::Id("a1"), Constraint::Id("a2")]));
    add("Union", &["union-1"], Constraint::Union(vec![Constraint::Id("a1")]));
    add(
        "Union",
        &["union-mixed"],
        Constraint::Union(vec![
            Constraint::DataKey { set: "s", key: "k2", qualifier: SQ::Normal },
            Constraint::Text("hello", TextMode::Exact),
            Constraint::KeyValue { set: "s", key: "k", operator: DataOperator::EqualsInt(5), qualifier: SQ::Normal },
        ]),
    );
    add(
        "Union",
        &["union-nested"],
        Constraint::Union(vec![Constraint::Id("a1"), Constraint::Union(vec![Constraint::Id("a2"), Constraint::Id("a3")])]),
    );
    add("Union", &["union-with-limit"], Constraint::Union(vec![Constraint::Id("a1"), Constraint::Limit { begin: 0, end: 1 }]));
    for (b, e, l) in [(0isize, 1isize, ""), (-1, 0, "limit-neg-begin"), (-2, -1, "limit-neg-both"), (0, 0, "limit-zero"), (2, 0, "limit-open-end"), (1, 3, "limit-window")] {
        add("Limit", &[l], Constraint::Limit { begin: b, end: e });
    }
    v
}

/// Programmatically built whole queries: (unique name, labels, query)
fn prog_queries() -> Vec<(String, Vec<String>, Query<'static>)> {
    let mut v: Vec<(String, Vec<String>, Query<'static>)> = Vec::new();
    let types = [
        (Type::Annotation, "ANNOTATION"),
        (Type::AnnotationData, "DATA"),
        (Type::DataKey, "KEY"),
        (Type::TextSelection, "TEXT"),
        (Type::TextResource, "RESOURCE"),
        (Type::AnnotationDataSet, "DATASET"),
    ];
    let l = |x: &[&str]| x.iter().map(|s| s.to_string()).collect::<Vec<_>>();
    for (t, tl) in types {
        v.push((format!("base-{}-named", tl), l(&["prog-base"]), Query::new(QueryType::Select, Some(t), Some("a"))));
        v.push((format!("base-{}-anon", tl), l(&["prog-base"]), Query::new(QueryType::Select, Some(t), None)));
    }
    let sel = || Query::new(QueryType::Select, Some(Type::Annotation), Some("a"));
    v.push(("constraint-1".into(), l(&["prog-constraint"]), sel().with_constraint(Constraint::Id("a1"))));
    v.push((
        "constraint-2".into(),
        l(&["prog-constraint"]),
        sel().with_constraint(Constraint::DataKey { set: "s", key: "k", qualifier: SelectionQualifier::Normal }).with_constraint(Constraint::Limit { begin: 0, end: 1 }),
    ));
    let inner = || Query::new(QueryType::Select, Some(Type::TextSelection), Some("b"));
    v.push(("subquery".into(), l(&["base:prog-subquery"]), sel().with_subquery(inner())));
    v.push(("subquery-optional".into(), l(&["base:prog-subquery", "prog-optional"]), sel().with_subquery(inner().with_qualifier(QueryQualifier::Optional))));
    v.push(("top-optional".into(), l(&["prog-optional"]), sel().with_qualifier(QueryQualifier::Optional)));
    v.push((
        "subquery-siblings".into(),
        l(&["base:prog-subquery", "prog-siblings"]),
        sel().with_subquery(inner()).with_subquery(Query::new(QueryType::Select, Some(Type::AnnotationData), Some("c"))),
    ));
    v.push((
        "subquery-nested".into(),
        l(&["base:prog-subquery", "prog-nested"]),
        sel().with_subquery(inner().with_subquery(Query::new(QueryType::Select, Some(Type::Annotation), Some("c")))),
    ));
    v.push((
        "delete".into(),
        l(&["base:prog-subquery", "prog-delete"]),
        Query::new(QueryType::Delete, Some(Type::Annotation), Some("a")).with_subquery(sel()),
    ));
    v.push((
        "add".into(),
        l(&["base:prog-subquery", "prog-add"]),
        Query::new(QueryType::Add, Some(Type::Annotation), Some("n")).with_subquery(sel()),
    ));
    v
}

// ---- cases, feature attribution, reporting ---------------------------------------------------------------------------

/// label -> (symptom kind, error / difference class) pairs for which that label alone is to blame
type Singles = BTreeMap<String, BTreeSet<(&'static str, String)>>;

struct CaseResult {
    labels: Vec<String>,
    shown: String,
    case: Value,
    fails: Vec<FixFail>,
    stats: FixStats,
    rejected: bool,
}

fn is_base(l: &str) -> bool {
    l.starts_with("base:")
}

fn blamed(s: &Singles, label: &str, f: &FixFail, exact: bool) -> bool {
    s.get(label).map(|set| set.iter().any(|(k, m)| *k == f.kind && (!exact || *m == f.mid))).unwrap_or(false)
}

/// Which labels are to blame for a by-label failure: pass 1 = cases with a single label; pass 2 = cases with exactly one
/// non-base label whose base labels do not show the same failure on their own.
fn compute_singles(results: &[CaseResult]) -> Singles {
    let mut s: Singles = BTreeMap::new();
    for r in results.iter().filter(|r| r.labels.len() == 1) {
        for f in r.fails.iter().filter(|f| f.by_labels) {
            s.entry(r.labels[0].clone()).or_default().insert((f.kind, f.mid.clone()));
        }
    }
    let mut add: Vec<(String, (&'static str, String))> = Vec::new();
    for r in results.iter().filter(|r| r.labels.len() > 1) {
        let nonbase: Vec<&String> = r.labels.iter().filter(|l| !is_base(l)).collect();
        if nonbase.len() != 1 {
            continue;
        }
        for f in r.fails.iter().filter(|f| f.by_labels) {
            if !r.labels.iter().filter(|l| is_base(l)).any(|l| blamed(&s, l, f, true)) {
                add.push((nonbase[0].clone(), (f.kind, f.mid.clone())));
            }
        }
    }
    for (l, k) in add {
        s.entry(l).or_default().insert(k);
    }
    s
}

fn feature_of(labels: &[String], f: &FixFail, singles: &Singles) -> String {
    let mut culprits: Vec<&str> = labels.iter().filter(|l| blamed(singles, l, f, true)).map(|s| s.as_str()).collect();
    if culprits.is_empty() {
        culprits = labels.iter().filter(|l| blamed(singles, l, f, false)).map(|s| s.as_str()).collect();
    }
    if culprits.is_empty() {
        culprits = labels.iter().map(|s| s.as_str()).collect();
    }
    culprits.sort();
    culprits.dedup();
    culprits.join("+")
}

fn report_result(rep: &Reporter, r: &CaseResult, singles: &Singles) {
    for f in &r.fails {
        let sig = if f.by_labels {
            format!("fix|{}|{}|feat={}", f.kind, f.mid, feature_of(&r.labels, f, singles))
        } else {
            format!("fix|{}|{}", f.kind, f.mid)
        };
        rep.fail(&sig, ord_of(&r.shown), || format!("{} [{}]: {}", r.shown, r.labels.join(","), f.detail), || r.case.clone());
    }
}

#[derive(Default, Clone)]
struct FixStats {
    cases: u64,
    rejected: u64,
    unprintable: u64,
    checked: u64,
    calls: u64,
}

impl FixStats {
    fn merge(&mut self, o: &FixStats) {
        self.cases += o.cases;
        self.rejected += o.rejected;
        self.unprintable += o.unprintable;
        self.checked += o.checked;
        self.calls += o.calls;
    }
    fn absorb(&mut self, o: &FixOut) {
        self.cases += 1;
        self.calls += o.calls;
        if o.unprintable {
            self.unprintable += 1
        } else {
            self.checked += 1
        }
    }
}

/// One textual case (no failures if it does not parse: a rejected query is outside the fixpoint quantifier).
fn run_text_case(c: &TextCase, stores: &[AnnotationStore]) -> CaseResult {
    let mut fs = FixStats::default();
    let mut res = CaseResult {
        labels: c.labels.clone(),
        shown: c.text.clone(),
        case: json!({"part": "fix-text", "text": c.text, "labels": c.labels}),
        fails: Vec::new(),
        stats: FixStats::default(),
        rejected: false,
    };
    fs.calls += 1;
    match catch(|| Query::try_from(c.text.as_str())) {
        Err(_) | Ok(Err(_)) => {
            // a panic here is reported by the totality part (every textual case is also a totality input)
            fs.cases += 1;
            fs.rejected += 1;
            res.rejected = true;
        }
        Ok(Ok(q)) => {
            let o = fix_check(&q, stores, false);
            fs.absorb(&o);
            res.fails = o.fails;
        }
    }
    res.stats = fs;
    res
}

fn constraint_query(c: &Constraint<'static>) -> Query<'static> {
    Query::new(QueryType::Select, Some(Type::Annotation), Some("a")).with_constraint(c.clone())
}

/// Constraint-level fixpoint: `Constraint::to_string` embedded in a minimal query must parse back to the same constraint.
fn check_constraint(c: &Constraint, stores: &[AnnotationStore], fs: &mut FixStats) -> Vec<FixFail> {
    fs.cases += 1;
    fs.calls += 1;
    let mut fails = Vec::new();
    let cstr = match catch(|| c.to_string()) {
        Err(m) => {
            fails.push(FixFail { kind: "print-panic", mid: panic_class(&m), by_labels: true, detail: format!("Constraint::to_string() panicked: {}", m) });
            return fails;
        }
        Ok(Err(_)) => {
            fs.unprintable += 1;
            return fails;
        }
        Ok(Ok(s)) => s,
    };
    fs.checked += 1;
    let text = format!("SELECT ANNOTATION ?a WHERE {}", cstr);
    fs.calls += 1;
    let p = match catch(|| Query::try_from(text.as_str())) {
        Err(m) => {
            fails.push(FixFail { kind: "reparse-panic", mid: panic_class(&m), by_labels: true, detail: format!("constraint printed as {:?}; parsing {:?} panicked: {}", cstr, text, m) });
            return fails;
        }
        Ok(Err(e)) => {
            fails.push(FixFail { kind: "reparse-err", mid: err_class(&e), by_labels: true, detail: format!("constraint printed as {:?}; parsing {:?} fails: {}", cstr, text, e) });
            return fails;
        }
        Ok(Ok(p)) => p,
    };
    let orig = cs(c);
    let back: Vec<CS> = p.constraints().map(cs).collect();
    let diff = if back.len() != 1 { Some(format!("constraints-len:{}", len_cmp(1, back.len()))) } else { cs_diff(&orig, &back[0]) };
    let mut notes: Vec<String> = Vec::new();
    fs.calls += 1;
    let again: Result<Vec<Result<String, StamError>>, String> = catch(|| p.constraints().map(|x| x.to_string()).collect());
    match again {
        Err(m) => fails.push(FixFail { kind: "print-panic", mid: panic_class(&m), by_labels: true, detail: format!("second to_string() panicked: {}", m) }),
        Ok(v) => {
            let joined: Vec<String> = v.into_iter().map(|r| r.unwrap_or_else(|e| format!("<Err {}>", e))).collect();
            if joined.len() != 1 || joined[0] != cstr {
                if diff.is_none() {
                    fails.push(FixFail {
                        kind: "print-differs",
                        mid: "structure-equal".into(),
                        by_labels: true,
                        detail: format!("first print {:?}, print of the reparsed constraint(s) {:?}", cstr, joined),
                    });
                } else {
                    notes.push(format!("second print differs: {:?}", joined));
                }
            }
        }
    }
    let q = Query::new(QueryType::Select, Some(Type::Annotation), Some("a")).with_constraint(c.clone());
    let oq = outcomes(&q, stores, &mut fs.calls);
    let op = outcomes(&p, stores, &mut fs.calls);
    for i in 0..oq.len() {
        if oq[i] != op[i] {
            if diff.is_none() {
                fails.push(FixFail {
                    kind: "meaning-differs",
                    mid: "structure-equal".into(),
                    by_labels: true,
                    detail: format!("constraint printed as {:?}; on store {} the original gives {} but the reparsed query gives {}", cstr, i, oq[i], op[i]),
                });
            } else {
                notes.push(format!("meaning differs too: on store {} the original gives {} but the reparsed query gives {}", i, oq[i], op[i]));
            }
            break;
        }
    }
    if let Some(dc) = &diff {
        let mut detail = format!("constraint printed as {:?}; reparsed differs at {}: original {:?} reparsed {:?}", cstr, dc, orig, back);
        if !notes.is_empty() {
            detail = format!("{}; {}", detail, notes.join("; "));
        }
        fails.push(FixFail { kind: "structure-differs", mid: dc.clone(), by_labels: false, detail });
    }
    fails
}

fn run_prog_constraint(labels: &[String], c: &Constraint<'static>, stores: &[AnnotationStore]) -> CaseResult {
    let mut fs = FixStats::default();
    let fails = check_constraint(c, stores, &mut fs);
    CaseResult {
        labels: labels.to_vec(),
        shown: format!("{:?}", c),
        case: json!({"part": "fix-prog-constraint", "name": format!("{:?}", c)}),
        fails,
        stats: fs,
        rejected: false,
    }
}

/// The same constraint inside a programmatically built query, printed through `Query::to_string`.
fn run_prog_query_constraint(labels: &[String], c: &Constraint<'static>, stores: &[AnnotationStore]) -> CaseResult {
    let q = constraint_query(c);
    let o = fix_check(&q, stores, false);
    let mut fs = FixStats::default();
    fs.absorb(&o);
    let mut l = vec!["base:query-with_constraint".to_string()];
    l.extend(labels.iter().cloned());
    CaseResult {
        labels: l,
        shown: format!("Query::new(Select, Annotation, a).with_constraint({:?})", c),
        case: json!({"part": "fix-prog-query-constraint", "name": format!("{:?}", c)}),
        fails: o.fails,
        stats: fs,
        rejected: false,
    }
}

fn run_prog_query(name: &str, labels: &[String], q: &Query<'static>, stores: &[AnnotationStore]) -> CaseResult {
    let o = fix_check(q, stores, false);
    let mut fs = FixStats::default();
    fs.absorb(&o);
    CaseResult {
        labels: labels.to_vec(),
        shown: format!("programmatic query {}", name),
        case: json!({"part": "fix-prog-query", "name": name}),
        fails: o.fails,
        stats: fs,
        rejected: false,
    }
}

/// Constraints over handle collections (need a store): (label, constraint)
fn handle_constraints<'s>(store: &'s AnnotationStore) -> Vec<(String, Constraint<'s>)> {
    use std::borrow::Cow;
    let mut v = Vec::new();
    let ann: Vec<AnnotationHandle> = ["a1", "a2"].iter().filter_map(|id| store.annotation(*id).map(|a| a.handle())).collect();
    let res: Vec<TextResourceHandle> = store.resources().map(|r| r.handle()).collect();
    let mut data = Vec::new();
    let mut keys = Vec::new();
    for s in store.datasets() {
        for dd in s.data().take(2) {
            data.push((s.handle(), dd.handle()));
        }
        for k in s.keys().take(2) {
            keys.push((s.handle(), k.handle()));
        }
    }
    let tsel: Vec<(TextResourceHandle, TextSelectionHandle)> = store
        .annotations()
        .flat_map(|a| a.textselections().filter_map(|t| t.handle().map(|h| (t.resource().handle(), h))).collect::<Vec<_>>())
        .take(2)
        .collect();
    for (dep, dl) in [(AnnotationDepth::Zero, "depth-zero"), (AnnotationDepth::One, "depth-one"), (AnnotationDepth::Max, "depth-max")] {
        v.push((
            format!("handles-Annotations[{}]", dl),
            Constraint::Annotations(Handles::new(Cow::Owned(ann.clone()), true, store), SelectionQualifier::Normal, dep),
        ));
    }
    v.push(("handles-Resources".into(), Constraint::Resources(Handles::new(Cow::Owned(res), true, store), SelectionQualifier::Normal)));
    v.push(("handles-Data".into(), Constraint::Data(Handles::new(Cow::Owned(data), true, store), SelectionQualifier::Normal)));
    v.push(("handles-Keys".into(), Constraint::Keys(Handles::new(Cow::Owned(keys), true, store), SelectionQualifier::Normal)));
    v.push(("handles-TextSelections".into(), Constraint::TextSelections(Handles::new(Cow::Owned(tsel), false, store), SelectionQualifier::Normal)));
    v
}

/// A handle collection is printed as a union of id-based constraints: the printed text must parse, and the parsed
/// query must itself be a print/parse fixpoint. (Structure and meaning against the collection are not compared.)
fn run_handles(label: &str, si: usize, c: &Constraint, stores: &[AnnotationStore]) -> CaseResult {
    let mut fs = FixStats::default();
    fs.cases += 1;
    fs.calls += 1;
    let mut fails = Vec::new();
    match catch(|| c.to_string()) {
        Err(m) => fails.push(FixFail { kind: "print-panic", mid: panic_class(&m), by_labels: true, detail: format!("Constraint::to_string() panicked: {}", m) }),
        Ok(Err(_)) => fs.unprintable += 1,
        Ok(Ok(cstr)) => {
            fs.checked += 1;
            let text = format!("SELECT ANNOTATION ?a WHERE {}", cstr);
            fs.calls += 1;
            match catch(|| Query::try_from(text.as_str())) {
                Err(m) => fails.push(FixFail { kind: "reparse-panic", mid: panic_class(&m), by_labels: true, detail: format!("printed as {:?}; parsing {:?} panicked: {}", cstr, text, m) }),
                Ok(Err(e)) => fails.push(FixFail { kind: "reparse-err", mid: err_class(&e), by_labels: true, detail: format!("printed as {:?}; parsing {:?} fails: {}", cstr, text, e) }),
                Ok(Ok(p)) => {
                    let o = fix_check(&p, &stores[si..si + 1], false);
                    fs.calls += o.calls;
                    fails.extend(o.fails);
                }
            }
        }
    }
    CaseResult {
        labels: vec![label.to_string()],
        shown: format!("{} on store {}", label, si),
        case: json!({"part": "fix-handles", "name": label, "store": si}),
        fails,
        stats: fs,
        rejected: false,
    }
}

struct Part2 {
    stats: FixStats,
    samples: Vec<Value>,
    rejected_samples: Vec<String>,
    ntext: usize,
    nprogc: usize,
    nprogq: usize,
    nhandles: usize,
}

fn text_cases() -> Vec<TextCase> {
    let mut v: Vec<TextCase> = seeds().iter().map(|s| TextCase { labels: vec!["seed".to_string()], text: s.to_string() }).collect();
    v.extend(grammar_cases());
    v
}

/// Every fixpoint case, evaluated. (Also used by replay to recompute the feature attribution.)
fn all_results(stores: &[AnnotationStore]) -> (Vec<CaseResult>, [usize; 4]) {
    let texts = text_cases();
    let progc = prog_constraints();
    let progq = prog_queries();
    let mut results: Vec<CaseResult> = texts.par_iter().map(|c| run_text_case(c, stores)).collect();
    results.extend(progc.par_iter().map(|(l, c)| run_prog_constraint(l, c, stores)).collect::<Vec<_>>());
    results.extend(progc.par_iter().map(|(l, c)| run_prog_query_constraint(l, c, stores)).collect::<Vec<_>>());
    for (name, labels, q) in &progq {
        results.push(run_prog_query(name, labels, q, stores));
    }
    let mut nhandles = 0;
    for (si, store) in stores.iter().enumerate() {
        for (label, c) in handle_constraints(store) {
            nhandles += 1;
            results.push(run_handles(&label, si, &c, stores));
        }
    }
    (results, [texts.len(), progc.len(), progq.len(), nhandles])
}

fn run_part2(rep: &Reporter, st: &Stats) -> Part2 {
    let stores: Vec<AnnotationStore> = (0..NSTORES).map(build_store).collect();
    let stores = &stores[..];
    // every textual case is also a parser input for the totality part
    let texts = text_cases();
    texts.par_iter().for_each(|c| {
        let mut l = Local::default();
        check_total(rep, &c.text, true, "seed / grammar query", &mut l);
        l.flush(st);
    });
    let (results, counts) = all_results(stores);
    let singles = compute_singles(&results);
    let mut total = FixStats::default();
    let mut rejected = Vec::new();
    for r in &results {
        report_result(rep, r, &singles);
        total.merge(&r.stats);
        if r.rejected && rejected.len() < 400 {
            rejected.push(r.shown.clone());
        }
    }
    let mut samples = Vec::new();
    for i in [3usize, texts.len() / 2, texts.len() - 3] {
        let c = &texts[i];
        let printed = Query::try_from(c.text.as_str()).ok().and_then(|q| q.to_string().ok());
        samples.push(json!({"part": "fixpoint", "query": c.text, "labels": c.labels, "printed": printed}));
    }
    let progc = prog_constraints();
    samples.push(json!({"part": "fixpoint", "programmatic_constraint": format!("{:?}", progc[10].1), "printed": progc[10].1.to_string().ok()}));
    Part2 { stats: total, samples, rejected_samples: rejected, ntext: counts[0], nprogc: counts[1], nprogq: counts[2], nhandles: counts[3] }
}

// ---- run / replay ----------------------------------------------------------------------------------------------------

pub fn run(rep: &Reporter) -> Coverage {
    let st = Stats::default();
    let plan = totality_plan(rep.tier);
    // part 2 first (cheap, never capped)
    let p2 = run_part2(rep, &st);
    let t_part2 = rep.elapsed();
    // part 1
    let nedits = seed_edits(rep, &st, plan.double_tokens);
    let mut space_runs = Vec::new();
    let mut capped = Vec::new();
    for &(ci, joiner, maxlen) in &plan.runs {
        let mut completed = 0usize;
        let mut was_capped = false;
        for len in 0..=maxlen {
            if enumerate_sequences(rep, CONTEXTS[ci], joiner, len, &st, plan.deadline_s) {
                completed = len;
            } else {
                was_capped = true;
                capped.push(json!({"context": CONTEXTS[ci].0, "joiner": format!("{:?}", joiner), "length_cut": len}));
                break;
            }
        }
        space_runs.push(json!({"context": CONTEXTS[ci].0, "prefix": CONTEXTS[ci].1, "joiner": format!("{:?}", joiner),
            "max_length_planned": maxlen, "max_length_completed": completed, "capped": was_capped}));
    }
    let mut cov = Coverage::default();
    let tot_cases = st.cases.load(Ordering::Relaxed);
    cov.states = tot_cases + p2.stats.cases;
    cov.transitions = st.calls.load(Ordering::Relaxed) + p2.stats.calls;
    cov.evaluations = cov.transitions;
    cov.traces_validated = cov.states;
    cov.distinct_nontrivial = st.nontrivial.load(Ordering::Relaxed) + p2.stats.checked;
    cov.rule = "totality: every sequence of 0..=L alphabet tokens (48 tokens) appended to each context prefix under each joiner (bounds per run in extra.space), plus every char-boundary prefix, single-character deletion/duplication and single-token deletion/substitution/insertion/append (thorough: also every substitution of two adjacent tokens) of the seed queries; fixpoint: every seed and grammar query that parses, every programmatic constraint/query of the menu whose to_string() is Ok. states = distinct input strings / queries, transitions = calls of Query::parse, Query::try_from, Query::to_string, Constraint::to_string, AnnotationStore::query/query_mut; non-trivial = parser inputs that start with SELECT/ADD/DELETE/@ (get past the dispatcher) + queries that were printed and reparsed".into();
    cov.samples = vec![
        json!({"part": "totality", "input": format!("{}{} {} {}", CONTEXTS[2].1, ALPHABET[30], ALPHABET[38], ALPHABET[24])}),
        json!({"part": "totality", "input": &seeds()[11][..40]}),
        json!({"part": "totality", "input": format!("{}{}\n{}", CONTEXTS[5].1, ALPHABET[0], ALPHABET[43])}),
    ];
    cov.samples.extend(p2.samples);
    cov.exhaustive = capped.is_empty();
    cov.extra.insert(
        "space".into(),
        json!({
            "alphabet": ALPHABET,
            "contexts": CONTEXTS.iter().map(|c| json!({"name": c.0, "prefix": c.1})).collect::<Vec<_>>(),
            "sequence_runs": space_runs,
            "seed_queries": seeds().len(),
            "seed_edit_cases": nedits,
            "fixpoint": {"textual_cases": p2.ntext, "programmatic_constraints": p2.nprogc, "programmatic_queries": p2.nprogq,
                "handle_collection_constraints": p2.nhandles, "meaning_stores": NSTORES,
                "grammar_queries_rejected_by_parser": p2.stats.rejected, "unprintable (to_string Err, skipped)": p2.stats.unprintable,
                "printed_and_reparsed": p2.stats.checked},
        }),
    );
    cov.extra.insert("caps_hit".into(), Value::Array(capped));
    cov.extra.insert(
        "totality_outcomes".into(),
        json!({"inputs": tot_cases, "parsed": st.ok.load(Ordering::Relaxed), "syntax_error": st.err.load(Ordering::Relaxed), "panicked": st.panics.load(Ordering::Relaxed)}),
    );
    cov.extra.insert("rejected_grammar_query_samples".into(), json!(p2.rejected_samples.iter().take(12).collect::<Vec<_>>()));
    cov.extra.insert("part2_wall_s".into(), json!((t_part2 * 100.0).round() / 100.0));
    cov.assumptions = vec![
        "a grammar query that the parser rejects with a syntax error is not a C09 violation (it is outside the fixpoint quantifier; C08 covers rejected valid syntax); it is counted in grammar_queries_rejected_by_parser".into(),
        "to_string() returning Err (operators without syntax: And, Or, HasElement, Not of a comparison) is 'not printable' and skipped".into(),
        "constraints over handle collections (Annotations, Data, Keys, Resources, TextSelections) are printed as unions by design: their structure is not compared, only reparse, print stability and meaning".into(),
        "meaning is compared as rendered result rows (and, for ADD/DELETE, the store afterwards) on three small stores; evaluation errors are swallowed by QueryIter and show up as empty results on both sides".into(),
        "hangs are not detected (every parser loop was read to consume input or fail)".into(),
    ];
    if std::env::var("C09_DEBUG_COV").is_ok() {
        eprintln!("states={} transitions={} nontrivial={} exhaustive={} extra={}", cov.states, cov.transitions, cov.distinct_nontrivial, cov.exhaustive, serde_json::to_string_pretty(&cov.extra).unwrap());
        eprintln!("samples={}", serde_json::to_string_pretty(&cov.samples).unwrap());
    }
    cov
}

/// Re-execute one recorded case.
pub fn replay(rep: &Reporter, case: &Value) {
    let part = case["part"].as_str().unwrap_or("");
    let stores: Vec<AnnotationStore> = (0..NSTORES).map(build_store).collect();
    let stores = &stores[..];
    println!("replay C09: {}", case);
    if part == "totality" {
        let s = case["input"].as_str().unwrap_or("");
        let mut l = Local::default();
        check_total(rep, s, true, "replay", &mut l);
        match parse_outcome(s) {
            Ok(true) => println!("  Query::parse({:?}) = Ok", s),
            Ok(false) => println!("  Query::parse({:?}) = Err({})", s, Query::parse(s).err().map(|e| e.to_string()).unwrap_or_default()),
            Err(m) => println!("  Query::parse({:?}) PANICKED: {}", s, m),
        }
        return;
    }
    // the feature attribution needs the outcome of the single-feature cases: recompute them (cheap)
    let (results, _) = all_results(stores);
    let singles = compute_singles(&results);
    let name = case["name"].as_str().unwrap_or("");
    let progc = prog_constraints();
    let found_c = progc.iter().find(|(_, c)| format!("{:?}", c) == name);
    let result: Option<CaseResult> = match part {
        "fix-text" => {
            let c = TextCase {
                labels: case["labels"].as_array().map(|a| a.iter().filter_map(|x| x.as_str().map(|s| s.to_string())).collect()).unwrap_or_default(),
                text: case["text"].as_str().unwrap_or("").to_string(),
            };
            Some(run_text_case(&c, stores))
        }
        "fix-prog-constraint" => found_c.map(|(l, c)| run_prog_constraint(l, c, stores)),
        "fix-prog-query-constraint" => found_c.map(|(l, c)| run_prog_query_constraint(l, c, stores)),
        "fix-prog-query" => prog_queries().iter().find(|x| x.0 == name).map(|(n, l, q)| run_prog_query(n, l, q, stores)),
        "fix-handles" => {
            let si = (case["store"].as_u64().unwrap_or(0) as usize).min(NSTORES - 1);
            handle_constraints(&stores[si]).into_iter().find(|(l, _)| l == name).map(|(l, c)| run_handles(&l, si, &c, stores))
        }
        _ => None,
    };
    match result {
        None => println!("  unknown case {:?} / {:?}", part, name),
        Some(r) => {
            if r.rejected {
                println!("  the query does not parse (outside the fixpoint quantifier)");
            } else if r.fails.is_empty() {
                println!("  fixpoint holds");
            }
            for f in &r.fails {
                println!("  {} [{}]: {}", f.kind, f.mid, f.detail);
            }
            report_result(rep, &r, &singles);
        }
    }
}
