//! C18 — text validation accepts unchanged text and flags changed text.
//! In every state of the history exploration, for each protection mode: protect, validate, JSON round trip,
//! validate again, then every single-codepoint edit of every resource text applied to the serialised store,
//! reload, and validation must flag exactly the annotations whose selected characters differ.

use crate::c01::{plans, Plan};
use crate::hist::*;
use crate::ops::*;
use crate::report::{Coverage, Reporter, Tier};
use crate::util::{catch, msg_class};
use serde_json::{json, Value};
use stam::*;
use std::sync::atomic::{AtomicU64, Ordering};

pub struct C18 {
    pub validations: AtomicU64,
    pub reloads: AtomicU64,
}

fn mode_of(m: PMode) -> TextValidationMode {
    match m {
        PMode::Checksum => TextValidationMode::Checksum,
        PMode::Text => TextValidationMode::Text,
        PMode::Both => TextValidationMode::Both,
        PMode::Auto => TextValidationMode::Auto,
    }
}

/// (name, joined selected text, pieces, selector class) per live annotation, in order
fn selected_texts(store: &AnnotationStore) -> Vec<(String, String, Vec<String>, String)> {
    store
        .annotations()
        .map(|a| {
            let name = a.id().map(|s| s.to_string()).unwrap_or_else(|| format!("#{}", a.handle().as_usize()));
            let pieces: Vec<String> = a.text().map(|s| s.to_string()).collect();
            let kind = format!("{:?}", a.as_ref().target().kind());
            (name, pieces.join(""), pieces, kind)
        })
        .collect()
}

#[derive(Clone, Debug)]
pub struct Edit {
    pub kind: &'static str,
    pub pos: usize,
    pub ch: Option<char>,
}

fn edits_for(text: &str) -> Vec<(Edit, String)> {
    let chars: Vec<char> = text.chars().collect();
    let mut v = Vec::new();
    for (fresh, kind) in [('Z', "subst-1byte"), ('\u{416}', "subst-2byte"), ('\n', "subst-whitespace")] {
        for i in 0..chars.len() {
            if chars[i] == fresh {
                continue;
            }
            let mut c = chars.clone();
            c[i] = fresh;
            v.push((Edit { kind, pos: i, ch: Some(fresh) }, c.into_iter().collect()));
        }
    }
    for (fresh, kind) in [('Z', "insert"), (' ', "insert-space")] {
        for i in 0..=chars.len() {
            let mut c = chars.clone();
            c.insert(i, fresh);
            v.push((Edit { kind, pos: i, ch: Some(fresh) }, c.into_iter().collect()));
        }
    }
    for i in 0..chars.len() {
        let mut c = chars.clone();
        c.remove(i);
        v.push((Edit { kind: "delete", pos: i, ch: None }, c.into_iter().collect()));
    }
    v
}

/// replace the text of resource `rid` in a compact STAM JSON document
fn replace_resource_text(json: &str, rid: &str, old: &str, new: &str) -> Option<String> {
    let needle = format!("\"@id\":{},\"text\":{}", serde_json::to_string(rid).ok()?, serde_json::to_string(old).ok()?);
    let pos = json.find(&needle)?;
    let replacement = format!("\"@id\":{},\"text\":{}", serde_json::to_string(rid).ok()?, serde_json::to_string(new).ok()?);
    Some(format!("{}{}{}", &json[..pos], replacement, &json[pos + needle.len()..]))
}

impl C18 {
    pub fn check_state(&self, rep: &Reporter, hist: &[Op], ord: u64) {
        // the reference model of the same history: what each annotation's offset denotes (cursor values and alignment)
        let model = crate::hist::replay_model(hist);
        let live = model.live_anns();
        for pmode in [PMode::Checksum, PMode::Text, PMode::Both, PMode::Auto] {
            let (mut store, _) = replay_real(hist);
            let case = |phase: &str, extra: Value| json!({"history": history_json(hist, None), "mode": format!("{:?}", pmode), "phase": phase, "edit": extra});
            let fail = |phase: &str, symptom: &str, kind: &str, detail: String, extra: Value| {
                rep.fail(&format!("{:?}|{}|{}|target={}", pmode, phase, symptom, kind), ord, || detail.clone(), || case(phase, extra.clone()));
            };
            match catch(|| store.protect_text(mode_of(pmode))) {
                Err(p) => {
                    fail("protect", &format!("panic:{}", msg_class(&p)), "-", "protect_text panicked".into(), Value::Null);
                    continue;
                }
                Ok(Err(e)) => {
                    fail("protect", &format!("err:{}", msg_class(&format!("{}", e))), "-", format!("protect_text returned {}", e), Value::Null);
                    continue;
                }
                Ok(Ok(())) => {}
            }
            let originals = match catch(|| selected_texts(&store)) {
                Ok(o) => o,
                Err(p) => {
                    fail("after-protect", &format!("text-panic:{}", msg_class(&p)), "-", "reading the text of the annotations panicked".into(), Value::Null);
                    continue;
                }
            };
            // (1) valid right after protecting
            let mut ok = true;
            let validate_all = |s: &AnnotationStore, phase: &str, ok: &mut bool| {
                for a in s.annotations() {
                    let name = a.id().map(|x| x.to_string()).unwrap_or_else(|| format!("#{}", a.handle().as_usize()));
                    let has_text = catch(|| !a.text_join("").is_empty()).unwrap_or(true);
                    self.validations.fetch_add(1, Ordering::Relaxed);
                    let r = catch(|| a.validate_text());
                    let kind = format!("{:?}", a.as_ref().target().kind());
                    match r {
                        Err(p) => {
                            *ok = false;
                            fail(phase, &format!("validate-panic:{}", msg_class(&p)), &kind, format!("{}: validate_text panicked", name), Value::Null);
                        }
                        Ok(v) => {
                            if has_text && v != Some(true) {
                                *ok = false;
                                fail(phase, &format!("unchanged-text-reported-{:?}", v), &kind, format!("annotation {} selects {:?}, text unchanged, validate_text() = {:?}", name, a.text_join(""), v), Value::Null);
                            }
                            if !has_text && v == Some(false) {
                                *ok = false;
                                fail(phase, "textless-annotation-reported-invalid", &kind, format!("annotation {} selects no text, validate_text() = {:?}", name, v), Value::Null);
                            }
                        }
                    }
                }
                match catch(|| s.validate_text(true).invalid()) {
                    Ok(0) => {}
                    Ok(n) => {
                        *ok = false;
                        fail(phase, "store-validate-invalid>0", "-", format!("validate_text().invalid() = {}", n), Value::Null);
                    }
                    Err(p) => {
                        *ok = false;
                        fail(phase, &format!("store-validate-panic:{}", msg_class(&p)), "-", "panicked".into(), Value::Null);
                    }
                }
            };
            validate_all(&store, "after-protect", &mut ok);
            // (2) across a save and reload
            let cfg = Config::default().with_dataformat(DataFormat::Json { compact: true });
            let json = match catch(|| store.to_json_string(&cfg)) {
                Ok(Ok(j)) => j,
                _ => continue, // serialisation failures are C05's findings
            };
            self.reloads.fetch_add(1, Ordering::Relaxed);
            let re = match catch(|| AnnotationStore::from_str(&json, Config::default())) {
                Ok(Ok(s)) => s,
                _ => continue,
            };
            validate_all(&re, "after-reload", &mut ok);
            if !ok {
                continue;
            }
            // (3) every single-codepoint edit of every resource
            let resources: Vec<(String, String)> = store.resources().map(|r| (r.id().unwrap_or("").to_string(), r.text().to_string())).collect();
            for (rid, text) in &resources {
                for (edit, newtext) in edits_for(text) {
                    let edited = match replace_resource_text(&json, rid, text, &newtext) {
                        Some(e) => e,
                        None => continue,
                    };
                    self.reloads.fetch_add(1, Ordering::Relaxed);
                    let re = match catch(|| AnnotationStore::from_str(&edited, Config::default())) {
                        Ok(Ok(s)) => s,
                        _ => continue, // an offset fell out of range: the store does not load, nothing to validate
                    };
                    let now = match catch(|| selected_texts(&re)) {
                        Ok(n) => n,
                        Err(p) => {
                            fail(&format!("edit:{}", edit.kind), &format!("text-panic:{}", msg_class(&p)), "-", format!("resource {} text {:?} -> {:?}: reading the text of the annotations of the reloaded store panicked", rid, text, newtext), json!({"resource": rid, "kind": edit.kind, "pos": edit.pos, "new_text": newtext}));
                            continue;
                        }
                    };
                    if now.len() != originals.len() {
                        continue;
                    }
                    let extra = json!({"resource": rid, "kind": edit.kind, "pos": edit.pos, "new_text": newtext});
                    // the store-level report must be the tally of the per-annotation verdicts (which are checked below)
                    {
                        let (mut nv, mut ni, mut nm) = (0usize, 0usize, 0usize);
                        let mut panicked = false;
                        for a in re.annotations() {
                            match catch(|| a.validate_text()) {
                                Ok(Some(true)) => nv += 1,
                                Ok(Some(false)) => ni += 1,
                                Ok(None) => nm += 1,
                                Err(_) => panicked = true,
                            }
                        }
                        if !panicked {
                            self.validations.fetch_add(1, Ordering::Relaxed);
                            match catch(|| {
                                let r = re.validate_text(true);
                                (r.valid(), r.invalid(), r.missing())
                            }) {
                                Ok(got) => {
                                    if got != (nv, ni, nm) {
                                        let symptom = if got.1 < ni { "store-report-misses-invalid" } else if got.1 > ni { "store-report-extra-invalid" } else { "store-report-tally-differs" };
                                        fail(
                                            &format!("edit:{}", edit.kind),
                                            symptom,
                                            "-",
                                            format!("resource {} text {:?} -> {:?}: store.validate_text() reports (valid, invalid, missing) = {:?}, the annotations one by one give {:?}", rid, text, newtext, got, (nv, ni, nm)),
                                            extra.clone(),
                                        );
                                    }
                                }
                                Err(p) => fail(&format!("edit:{}", edit.kind), &format!("store-validate-panic:{}", msg_class(&p)), "-", "store.validate_text panicked".into(), extra.clone()),
                            }
                        }
                    }
                    // what a simple text target denotes in the edited text, from the model: begin-aligned cursors keep their distance
                    // to the begin, end-aligned cursors their distance to the end; the reloaded annotation must select exactly that
                    if live.len() == now.len() {
                        let (n_old, newchars): (usize, Vec<char>) = (text.chars().count(), newtext.chars().collect());
                        let n_new = newchars.len();
                        for (i, cur) in now.iter().enumerate() {
                            let ma = match model.anns[live[i]].as_ref() {
                                Some(ma) if ma.kind == TKind::Simple && ma.parts.len() == 1 => ma,
                                _ => continue,
                            };
                            if let crate::model::MT::Text { res, b, e, mode } = &ma.parts[0] {
                                if model.res.get(*res).and_then(|r| r.as_ref()).map(|r| r.id.as_str()) != Some(rid.as_str()) {
                                    continue;
                                }
                                // mode: 0 begin/begin, 1 begin/end, 2 end/end, 3 end/begin
                                let nb = if *mode == 0 || *mode == 1 { Some(*b) } else { (n_new + *b).checked_sub(n_old) };
                                let ne = if *mode == 0 || *mode == 3 { Some(*e) } else { (n_new + *e).checked_sub(n_old) };
                                if let (Some(nb), Some(ne)) = (nb, ne) {
                                    if nb <= ne && ne <= n_new {
                                        let want: String = newchars[nb..ne].iter().collect();
                                        self.validations.fetch_add(1, Ordering::Relaxed);
                                        if cur.1 != want {
                                            fail(
                                                &format!("edit:{}", edit.kind),
                                                &format!("reloaded-selection-is-not-what-the-offset-denotes:alignment={}", ["begin-begin", "begin-end", "end-end", "end-begin"][*mode as usize]),
                                                &cur.3,
                                                format!("resource {} text {:?} -> {:?}: annotation {} was made with an offset denoting {}..{} of the edited text = {:?}, after save and reload it selects {:?}", rid, text, newtext, cur.0, nb, ne, want, cur.1),
                                                extra.clone(),
                                            );
                                        }
                                    }
                                }
                            }
                        }
                    }
                    for (a, (orig, cur)) in re.annotations().zip(originals.iter().zip(now.iter())) {
                        let changed = orig.1 != cur.1;
                        if !changed && orig.2 != cur.2 {
                            continue; // pieces differ but the joined text is equal: not decidable from the joined text
                        }
                        if orig.1.is_empty() && cur.1.is_empty() {
                            continue; // selects no text before and after
                        }
                        self.validations.fetch_add(1, Ordering::Relaxed);
                        let v = catch(|| a.validate_text());
                        let want = if orig.1.is_empty() { None } else { Some(!changed) };
                        match v {
                            Err(p) => fail(&format!("edit:{}", edit.kind), &format!("validate-panic:{}", msg_class(&p)), &orig.3, format!("annotation {}", orig.0), extra.clone()),
                            Ok(v) => {
                                if want.is_some() && v != want {
                                    let symptom = if changed { "changed-text-not-flagged" } else { "unchanged-text-flagged" };
                                    fail(
                                        &format!("edit:{}", edit.kind),
                                        &format!("{}:{:?}", symptom, v),
                                        &orig.3,
                                        format!("resource {} text {:?} -> {:?}: annotation {} selected {:?}, now selects {:?}; validate_text() = {:?}, expected {:?}", rid, text, newtext, orig.0, orig.1, cur.1, v, want),
                                        extra.clone(),
                                    );
                                }
                            }
                        }
                    }
                }
            }
        }
    }
}

impl Oracle for C18 {
    fn transition(&self, rep: &Reporter, t: &Trans) -> bool {
        if t.divergence.is_some() || !t.new_state {
            return true;
        }
        if t.post_model.live_anns().is_empty() {
            return true;
        }
        let mut hist = t.hist.to_vec();
        hist.push(t.op.clone());
        self.check_state(rep, &hist, t.ord);
        true
    }
}

pub fn run(rep: &Reporter) -> Coverage {
    let oracle = C18 { validations: AtomicU64::new(0), reloads: AtomicU64::new(0) };
    let mut cov = Coverage::default();
    let mut runs = Vec::new();
    let budget = rep.tier.pick(45.0, 1500.0);
    let mut exhaustive = true;
    let mut allplans: Vec<Plan> = plans(rep.tier).into_iter().map(|mut p| { p.depth -= 1; p }).collect();
    // a resource longer than 40 codepoints so that Auto mode also takes its checksum branch
    let long_text: String = "The quick brown f\u{f6}x jumps over the lazy dog again".chars().take(45).collect();
    let long_init = vec![Op::AddRes { id: "r0".into(), text: long_text }, Op::AddSet { id: "s0".into() },
        Op::Annotate { id: Some("long".into()), target: Target::simple(TSimple::Text { res: "r0".into(), off: Off::simple(1, 44) }), data: vec![] }];
    allplans.push(Plan { name: "45-codepoint resource with a 43-codepoint annotation pre-created", al: Alphabet::quick(), init: long_init.clone(), depth: if rep.tier == Tier::Quick { 1 } else { 2 } });
    oracle.check_state(rep, &long_init, 0);
    // two annotations that select the same characters at different places (protect_text shares their reference data)
    let t = |b, e| Target::simple(TSimple::Text { res: "r0".into(), off: Off::simple(b, e) });
    let dup_init = vec![Op::AddRes { id: "r0".into(), text: "ab ab".into() }, Op::AddSet { id: "s0".into() },
        Op::Annotate { id: Some("d0".into()), target: t(0, 2), data: vec![] }, Op::Annotate { id: Some("d1".into()), target: t(3, 5), data: vec![] }];
    allplans.push(Plan { name: "resource 'ab ab' with annotations on both 'ab' pre-created", al: Alphabet::quick(), init: dup_init.clone(), depth: if rep.tier == Tier::Quick { 1 } else { 2 } });
    oracle.check_state(rep, &dup_init, 1);
    for plan in allplans {
        let stats = explore(rep, &oracle, &plan.init, &plan.al, plan.depth, budget);
        cov.states += stats.states;
        cov.transitions += stats.transitions;
        cov.distinct_nontrivial += stats.nontrivial_states;
        exhaustive &= stats.completed_depth == plan.depth;
        for h in &stats.sample_histories {
            if cov.samples.len() < 4 {
                cov.samples.push(json!({"history": h, "then": "protect_text(mode) for 4 modes; validate; JSON round trip; validate; every 1-codepoint edit of every resource text; reload; validate"}));
            }
        }
        runs.push(json!({"exploration": plan.name, "depth_requested": plan.depth, "depth_completed": stats.completed_depth,
            "new_states_per_depth": stats.depth_hist, "transitions": stats.transitions}));
    }
    cov.exhaustive = exhaustive;
    cov.evaluations = oracle.validations.load(Ordering::Relaxed);
    cov.transitions += oracle.reloads.load(Ordering::Relaxed);
    cov.traces_validated = cov.transitions;
    cov.extra.insert("explorations".into(), json!(runs));
    cov.extra.insert("validate_text_calls".into(), json!(oracle.validations.load(Ordering::Relaxed)));
    cov.extra.insert("stores_reloaded".into(), json!(oracle.reloads.load(Ordering::Relaxed)));
    cov.rule = "every distinct state with at least one annotation of the history exploration (as C01, one level less) x 4 protection modes: protect_text must succeed, every annotation that selects text validates Some(true) and validate_text().invalid()==0, before and after a JSON save+reload; then for every resource every single-codepoint edit (substitution by a fresh 1-byte, 2-byte and whitespace character at each position, insertion of a letter and of a space at each position, deletion at each position) is applied to the serialised store, the store is reloaded (edits that push an offset out of range do not load and are skipped) and each annotation's validate_text() must be Some(false) exactly when the characters it selects differ from those it selected before; the store-level report of the reloaded store must be the tally of the per-annotation verdicts; one extra exploration starts from a 45-codepoint resource so that Auto takes the checksum branch, one from a resource 'ab ab' with an annotation on each 'ab' (identical selected text at different places); non-trivial = states with a removed and a live annotation".into();
    cov.assumptions = vec![
        "annotations that select no text are only required not to be reported invalid".into(),
        "when an edit changes the pieces of a multi-selection but not their concatenation the case is skipped (validation works on the joined text)".into(),
    ];
    cov
}

pub fn replay(rep: &Reporter, case: &Value) {
    let hist = history_from_json(&case["history"]);
    println!("replay C18: history:");
    for o in &hist {
        println!("   {}", o.short());
    }
    println!("  recorded mode={} phase={} edit={}", case["mode"], case["phase"], case["edit"]);
    let oracle = C18 { validations: AtomicU64::new(0), reloads: AtomicU64::new(0) };
    oracle.check_state(rep, &hist, 0);
}
