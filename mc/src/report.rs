//! Verdict protocol: failure collection, known-findings matching, VIOLATION / KNOWN-FINDING lines,
//! replay files and the evidence file.

use crate::util::fnv64;
use serde_json::{json, Map, Value};
use std::collections::BTreeMap;
use std::sync::Mutex;
use std::time::Instant;

pub const VERIF_ROOT: &str = "/verif";

#[derive(Clone, Copy, PartialEq, Eq, Debug)]
pub enum Tier {
    Quick,
    Thorough,
}

impl Tier {
    pub fn as_str(&self) -> &'static str {
        match self {
            Tier::Quick => "quick",
            Tier::Thorough => "thorough",
        }
    }
    pub fn pick<T>(&self, quick: T, thorough: T) -> T {
        match self {
            Tier::Quick => quick,
            Tier::Thorough => thorough,
        }
    }
}

struct FailRec {
    count: u64,
    ord: u64,
    detail: String,
    case: Value,
}

pub struct Reporter {
    pub prop: String,
    pub tier: Tier,
    pub seed: i64,
    pub list_mode: bool,
    start: Instant,
    /// exact signature -> description
    known: BTreeMap<String, String>,
    /// prefix patterns (written `prefix*` in the file) -> description
    known_prefix: Vec<(String, String)>,
    fails: Mutex<BTreeMap<String, FailRec>>,
}

#[derive(Default)]
pub struct Coverage {
    /// distinct canonical states (hist/sched) or distinct abstract cases (enum engines)
    pub states: u64,
    /// operations / evaluations executed on the real code
    pub transitions: u64,
    /// cases for which reference and implementation were executed in lock-step
    pub traces_validated: u64,
    pub evaluations: u64,
    pub distinct_nontrivial: u64,
    pub rule: String,
    pub samples: Vec<Value>,
    pub exhaustive: bool,
    pub extra: Map<String, Value>,
    pub assumptions: Vec<String>,
}

impl Reporter {
    pub fn new(prop: &str, tier: Tier, list_mode: bool) -> Self {
        let seed = std::env::var("VERIF_SEED")
            .ok()
            .and_then(|s| s.parse::<i64>().ok())
            .unwrap_or(0);
        let mut known = BTreeMap::new();
        let mut known_prefix = Vec::new();
        let path = format!("{}/KNOWN_FINDINGS.txt", VERIF_ROOT);
        if let Ok(text) = std::fs::read_to_string(&path) {
            for line in text.lines() {
                let line = line.trim();
                if !line.starts_with("known:") {
                    continue; // comments and `fixed:` lines suppress nothing
                }
                let rest = line["known:".len()..].trim();
                let (head, desc) = match rest.split_once(" :: ") {
                    Some((h, d)) => (h.trim(), d.trim()),
                    None => (rest, ""),
                };
                let want = format!("property={} sig=", prop);
                if let Some(sig) = head.strip_prefix(&want) {
                    if let Some(prefix) = sig.strip_suffix('*') {
                        known_prefix.push((prefix.to_string(), desc.to_string()));
                    } else {
                        known.insert(sig.to_string(), desc.to_string());
                    }
                }
            }
        }
        Reporter {
            prop: prop.to_string(),
            tier,
            seed,
            list_mode,
            start: Instant::now(),
            known,
            known_prefix,
            fails: Mutex::new(BTreeMap::new()),
        }
    }

    pub fn elapsed(&self) -> f64 {
        self.start.elapsed().as_secs_f64()
    }

    /// Record one failing case. `ord` orders cases simplest-first; the smallest is kept as witness.
    pub fn fail(&self, sig: &str, ord: u64, detail: impl FnOnce() -> String, case: impl FnOnce() -> Value) {
        let mut fails = self.fails.lock().unwrap();
        match fails.get_mut(sig) {
            Some(rec) => {
                rec.count += 1;
                if ord < rec.ord {
                    rec.ord = ord;
                    rec.detail = detail();
                    rec.case = case();
                }
            }
            None => {
                fails.insert(
                    sig.to_string(),
                    FailRec {
                        count: 1,
                        ord,
                        detail: detail(),
                        case: case(),
                    },
                );
            }
        }
    }

    fn lookup_known(&self, sig: &str) -> Option<(String, String)> {
        if let Some(d) = self.known.get(sig) {
            return Some((sig.to_string(), d.clone()));
        }
        for (p, d) in &self.known_prefix {
            if sig.starts_with(p.as_str()) {
                return Some((format!("{}*", p), d.clone()));
            }
        }
        None
    }

    pub fn is_known(&self, sig: &str) -> bool {
        self.lookup_known(sig).is_some()
    }

    /// Number of distinct failing signatures so far (used to stop runaway output)
    pub fn nfail_sigs(&self) -> usize {
        self.fails.lock().unwrap().len()
    }

    /// Print verdict lines, write replay files and evidence, and return the exit code.
    pub fn finish(&self, mut cov: Coverage) -> i32 {
        let fails = self.fails.lock().unwrap();
        let mut known_hits: BTreeMap<String, (String, u64, u64)> = BTreeMap::new(); // listed sig -> (desc, cases, sigs)
        let mut new: Vec<(&String, &FailRec)> = Vec::new();
        for (sig, rec) in fails.iter() {
            if let Some((listed, desc)) = self.lookup_known(sig) {
                let e = known_hits.entry(listed).or_insert((desc, 0, 0));
                e.1 += rec.count;
                e.2 += 1;
            } else {
                new.push((sig, rec));
            }
        }
        if self.list_mode {
            for (sig, rec) in fails.iter() {
                if std::env::var("VERIF_EMIT_KNOWN").is_ok() {
                    if !self.is_known(sig) {
                        println!("known: property={} sig={} :: {}", self.prop, sig, rec.detail);
                    }
                    continue;
                }
                let k = if self.is_known(sig) { "known" } else { "NEW  " };
                println!("{} n={:<8} sig={} :: {}", k, rec.count, sig, rec.detail);
            }
        }
        for (sig, (desc, cases, _)) in known_hits.iter() {
            println!(
                "KNOWN-FINDING: property={} sig={} cases={} :: {}",
                self.prop, sig, cases, desc
            );
        }
        let mut nviol = 0u64;
        if !new.is_empty() {
            let dir = format!("{}/replays/new/{}", VERIF_ROOT, self.prop);
            let _ = std::fs::create_dir_all(&dir);
            // simplest witnesses first
            new.sort_by_key(|(_, r)| r.ord);
            for (i, (sig, rec)) in new.iter().enumerate() {
                nviol += 1;
                if i >= 40 {
                    continue;
                }
                let path = format!("{}/{:016x}.json", dir, fnv64(sig.as_bytes()));
                let doc = json!({
                    "property": self.prop,
                    "tier": self.tier.as_str(),
                    "signature": sig,
                    "cases_with_this_signature": rec.count,
                    "detail": rec.detail,
                    "case": rec.case,
                });
                let _ = std::fs::write(&path, serde_json::to_string_pretty(&doc).unwrap());
                println!("VIOLATION property={} replay={}", self.prop, path);
                println!("  signature: {}", sig);
                println!("  detail: {}", rec.detail);
            }
            if new.len() > 40 {
                println!("  ... and {} further new failing signatures", new.len() - 40);
            }
        }
        // evidence
        let wall = self.start.elapsed().as_secs_f64();
        let mut coverage = Map::new();
        coverage.insert("states".into(), json!(cov.states.max(1)));
        coverage.insert("transitions".into(), json!(cov.transitions.max(1)));
        coverage.insert("traces_validated_against_impl".into(), json!(cov.traces_validated));
        coverage.insert("evaluations".into(), json!(cov.evaluations.max(1)));
        coverage.insert("distinct_nontrivial".into(), json!(cov.distinct_nontrivial));
        coverage.insert("rule".into(), json!(cov.rule));
        if cov.samples.is_empty() {
            cov.samples.push(json!("(no sample recorded)"));
        }
        coverage.insert("samples".into(), Value::Array(cov.samples));
        coverage.insert("exhaustive".into(), json!(cov.exhaustive));
        coverage.insert(
            "known_finding_hits".into(),
            Value::Object(
                known_hits
                    .iter()
                    .map(|(k, v)| (k.clone(), json!({"cases": v.1, "signatures": v.2})))
                    .collect(),
            ),
        );
        coverage.insert("failing_signatures_total".into(), json!(fails.len()));
        coverage.insert("new_failing_signatures".into(), json!(nviol));
        for (k, v) in cov.extra {
            coverage.insert(k, v);
        }
        let ev = json!({
            "property_id": self.prop,
            "tier": self.tier.as_str(),
            "seed": self.seed,
            "level": "model_checking",
            "coverage": Value::Object(coverage),
            "assumptions": cov.assumptions,
            "wall_s": (wall * 1000.0).round() / 1000.0,
            "violations": nviol,
        });
        let evdir = format!("{}/evidence", VERIF_ROOT);
        let _ = std::fs::create_dir_all(&evdir);
        let evpath = format!("{}/{}.json", evdir, self.prop);
        if !self.list_mode {
            std::fs::write(&evpath, serde_json::to_string_pretty(&ev).unwrap() + "\n")
                .expect("cannot write evidence file");
        }
        println!(
            "{} {}: states={} transitions={} evaluations={} known-finding-signatures={} new-violations={} wall={:.1}s",
            self.prop,
            self.tier.as_str(),
            ev["coverage"]["states"],
            ev["coverage"]["transitions"],
            ev["coverage"]["evaluations"],
            known_hits.len(),
            nviol,
            wall
        );
        if nviol > 0 {
            1
        } else {
            0
        }
    }
}
