//! Verdict protocol: failure collection, known-findings matching, VIOLATION / KNOWN-FINDING lines,
//! replay files and the evidence file.

use crate::util::fnv64;
use serde_json::{json, Map, Value};
use std::collections::BTreeMap;
use std::sync::Mutex;
use std::time::Instant;

pub const VERIF_ROOT: &str = "/verif";

#[derive(Clone, Copy, PartialEq, Eq, Debug)]
pub enum Tier {
    Quick,
    Thorough,
}

impl Tier {
    pub fn as_str(&self) -> &'static str {
        match self {
            Tier::Quick => "quick",
            Tier::Thorough => "thorough",
        }
    }
    pub fn pick<T>(&self, quick: T, thorough: T) -> T {
        match self {
            Tier::Quick => quick,
            Tier::Thorough => thorough,
        }
    }
}

struct FailRec {
    count: u64,
    ord: u64,
    detail: String,
    case: Value,
}

pub struct Reporter {
    pub prop: String,
    pub tier: Tier,
    pub seed: i64,
    pub list_mode: bool,
    start: Instant,
    /// exact signature -> description
    known: BTreeMap<String, String>,
    /// prefix patterns (written `prefix*` in the file) -> description
    known_prefix: Vec<(String, String)>,
    /// recorded number of failing cases per exactly listed signature on the unchanged tree, for this tier
    /// (KNOWN_COUNTS.json; None = no record for this property and tier)
    ceilings: Option<BTreeMap<String, u64>>,
    fails: Mutex<BTreeMap<String, FailRec>>,
}

#[derive(Default)]
pub struct Coverage {
    /// distinct canonical states (hist/sched) or distinct abstract cases (enum engines)
    pub states: u64,
    /// operations / evaluations executed on the real code
    pub transitions: u64,
    /// cases for which reference and implementation were executed in lock-step
    pub traces_validated: u64,
    pub evaluations: u64,
    pub distinct_nontrivial: u64,
    pub rule: String,
    pub samples: Vec<Value>,
    pub exhaustive: bool,
    pub extra: Map<String, Value>,
    pub assumptions: Vec<String>,
}

impl Reporter {
    pub fn new(prop: &str, tier: Tier, list_mode: bool) -> Self {
        let seed = std::env::var("VERIF_SEED")
            .ok()
            .and_then(|s| s.parse::<i64>().ok())
            .unwrap_or(0);
        let mut known = BTreeMap::new();
        let mut known_prefix = Vec::new();
        let path = format!("{}/KNOWN_FINDINGS.txt", VERIF_ROOT);
        if let Ok(text) = std::fs::read_to_string(&path) {
            for line in text.lines() {
                let line = line.trim();
                if !line.starts_with("known:") {
                    continue; // comments and `fixed:` lines suppress nothing
                }
                let rest = line["known:".len()..].trim();
                let (head, desc) = match rest.split_once(" :: ") {
                    Some((h, d)) => (h.trim(), d.trim()),
                    None => (rest, ""),
                };
                let want = format!("property={} sig=", prop);
                if let Some(sig) = head.strip_prefix(&want) {
                    if let Some(prefix) = sig.strip_suffix('*') {
                        known_prefix.push((prefix.to_string(), desc.to_string()));
                    } else {
                        known.insert(sig.to_string(), desc.to_string());
                    }
                }
            }
        }
        let ceilings = std::fs::read_to_string(format!("{}/KNOWN_COUNTS.json", VERIF_ROOT))
            .ok()
            .and_then(|t| serde_json::from_str::<Value>(&t).ok())
            .and_then(|v| v.get(prop).and_then(|p| p.get(tier.as_str())).and_then(|m| m.as_object().cloned()))
            .map(|m| m.into_iter().filter_map(|(k, v)| v.as_u64().map(|n| (k, n))).collect::<BTreeMap<String, u64>>());
        Reporter {
            prop: prop.to_string(),
            tier,
            seed,
            list_mode,
            start: Instant::now(),
            known,
            known_prefix,
            ceilings,
            fails: Mutex::new(BTreeMap::new()),
        }
    }

    /// replaying one case says nothing about how many inputs fail
    pub fn without_ceilings(mut self) -> Self {
        self.ceilings = None;
        self
    }

    pub fn elapsed(&self) -> f64 {
        self.start.elapsed().as_secs_f64()
    }

    /// Record one failing case. `ord` orders cases simplest-first; the smallest is kept as witness.
    pub fn fail(&self, sig: &str, ord: u64, detail: impl FnOnce() -> String, case: impl FnOnce() -> Value) {
        let mut fails = self.fails.lock().unwrap();
        match fails.get_mut(sig) {
            Some(rec) => {
                rec.count += 1;
                if ord < rec.ord {
                    rec.ord = ord;
                    rec.detail = detail();
                    rec.case = case();
                }
            }
            None => {
                fails.insert(
                    sig.to_string(),
                    FailRec {
                        count: 1,
                        ord,
                        detail: detail(),
                        case: case(),
                    },
                );
            }
        }
    }

    fn lookup_known(&self, sig: &str) -> Option<(String, String)> {
        if let Some(d) = self.known.get(sig) {
            return Some((sig.to_string(), d.clone()));
        }
        for (p, d) in &self.known_prefix {
            if sig.starts_with(p.as_str()) {
                return Some((format!("{}*", p), d.clone()));
            }
        }
        None
    }

    pub fn is_known(&self, sig: &str) -> bool {
        self.lookup_known(sig).is_some()
    }

    /// Number of distinct failing signatures so far (used to stop runaway output)
    pub fn nfail_sigs(&self) -> usize {
        self.fails.lock().unwrap().len()
    }

    /// Print verdict lines, write replay files and evidence, and return the exit code.
    pub fn finish(&self, mut cov: Coverage) -> i32 {
        let fails = self.fails.lock().unwrap();
        let mut known_hits: BTreeMap<String, (String, u64, u64)> = BTreeMap::new(); // listed sig -> (desc, cases, sigs)
        let mut new: Vec<(&String, &FailRec)> = Vec::new();
        // known findings that fail on more inputs than recorded for the unchanged tree: (signature, recorded, now)
        let mut grown: Vec<(&String, &FailRec, u64)> = Vec::new();
        for (sig, rec) in fails.iter() {
            if let Some((listed, desc)) = self.lookup_known(sig) {
                let e = known_hits.entry(listed.clone()).or_insert((desc, 0, 0));
                e.1 += rec.count;
                e.2 += 1;
                if &listed == sig {
                    if let Some(c) = &self.ceilings {
                        let recorded = c.get(sig).copied().unwrap_or(0);
                        if rec.count > recorded {
                            grown.push((sig, rec, recorded));
                        }
                    }
                }
            } else {
                new.push((sig, rec));
            }
        }
        if self.list_mode {
            for (sig, rec) in fails.iter() {
                if std::env::var("VERIF_EMIT_KNOWN").is_ok() {
                    if !self.is_known(sig) {
                        println!("known: property={} sig={} :: {}", self.prop, sig, rec.detail);
                    }
                    continue;
                }
                let k = if grown.iter().any(|g| g.0 == sig) {
                    "GROWN"
                } else if self.is_known(sig) {
                    "known"
                } else {
                    "NEW  "
                };
                println!("{} n={:<8} sig={} :: {}", k, rec.count, sig, rec.detail);
            }
        }
        // development helper: write the simplest witness of the listed findings as replay files (committed under replays/known)
        if let Ok(dir) = std::env::var("VERIF_WRITE_KNOWN_REPLAYS") {
            let max: usize = std::env::var("VERIF_WRITE_KNOWN_REPLAYS_MAX").ok().and_then(|v| v.parse().ok()).unwrap_or(8);
            let mut hits: Vec<(&String, &FailRec)> = fails.iter().filter(|(sig, _)| self.is_known(sig)).collect();
            hits.sort_by_key(|(_, r)| r.ord);
            // at most one witness per listed entry (prefix patterns) and `max` per property, simplest first
            let mut seen = std::collections::BTreeSet::new();
            let pdir = format!("{}/{}", dir, self.prop);
            let _ = std::fs::create_dir_all(&pdir);
            for (sig, rec) in hits {
                let listed = self.lookup_known(sig).map(|x| x.0).unwrap_or_default();
                if seen.len() >= max || !seen.insert(listed.clone()) {
                    continue;
                }
                let doc = json!({"property": self.prop, "tier": self.tier.as_str(), "signature": sig, "listed_as": listed, "detail": rec.detail, "case": rec.case});
                let _ = std::fs::write(format!("{}/{:016x}.json", pdir, fnv64(sig.as_bytes())), serde_json::to_string_pretty(&doc).unwrap() + "\n");
            }
        }
        for (sig, (desc, cases, _)) in known_hits.iter() {
            println!(
                "KNOWN-FINDING: property={} sig={} cases={} :: {}",
                self.prop, sig, cases, desc
            );
        }
        let mut nviol = 0u64;
        if !grown.is_empty() {
            let dir = format!("{}/replays/new/{}", VERIF_ROOT, self.prop);
            let _ = std::fs::create_dir_all(&dir);
            grown.sort_by_key(|(_, r, _)| r.ord);
            for (i, (sig, rec, recorded)) in grown.iter().enumerate() {
                nviol += 1;
                if i >= 20 {
                    continue;
                }
                let gsig = format!("more-cases-than-recorded|{}", sig);
                let path = format!("{}/{:016x}.json", dir, fnv64(gsig.as_bytes()));
                let detail = format!(
                    "the recorded finding with this signature fails on {} inputs here; on the unchanged tree it fails on {} ({} tier, KNOWN_COUNTS.json): further inputs fail in the same way. Simplest failing input: {}",
                    rec.count,
                    recorded,
                    self.tier.as_str(),
                    rec.detail
                );
                let doc = json!({
                    "property": self.prop,
                    "tier": self.tier.as_str(),
                    "signature": gsig,
                    "cases_with_this_signature": rec.count,
                    "cases_recorded_on_unchanged_tree": recorded,
                    "detail": detail,
                    "case": rec.case,
                });
                let _ = std::fs::write(&path, serde_json::to_string_pretty(&doc).unwrap());
                println!("VIOLATION property={} replay={}", self.prop, path);
                println!("  signature: {}", gsig);
                println!("  detail: {}", detail);
            }
            if grown.len() > 20 {
                println!("  ... and {} further known findings with more failing inputs than recorded", grown.len() - 20);
            }
        }
        if !new.is_empty() {
            let dir = format!("{}/replays/new/{}", VERIF_ROOT, self.prop);
            let _ = std::fs::create_dir_all(&dir);
            // simplest witnesses first
            new.sort_by_key(|(_, r)| r.ord);
            for (i, (sig, rec)) in new.iter().enumerate() {
                nviol += 1;
                if i >= 40 {
                    continue;
                }
                let path = format!("{}/{:016x}.json", dir, fnv64(sig.as_bytes()));
                let doc = json!({
                    "property": self.prop,
                    "tier": self.tier.as_str(),
                    "signature": sig,
                    "cases_with_this_signature": rec.count,
                    "detail": rec.detail,
                    "case": rec.case,
                });
                let _ = std::fs::write(&path, serde_json::to_string_pretty(&doc).unwrap());
                println!("VIOLATION property={} replay={}", self.prop, path);
                println!("  signature: {}", sig);
                println!("  detail: {}", rec.detail);
            }
            if new.len() > 40 {
                println!("  ... and {} further new failing signatures", new.len() - 40);
            }
        }
        // evidence
        let wall = self.start.elapsed().as_secs_f64();
        let mut coverage = Map::new();
        coverage.insert("states".into(), json!(cov.states.max(1)));
        coverage.insert("transitions".into(), json!(cov.transitions.max(1)));
        coverage.insert("traces_validated_against_impl".into(), json!(cov.traces_validated));
        coverage.insert("evaluations".into(), json!(cov.evaluations.max(1)));
        coverage.insert("distinct_nontrivial".into(), json!(cov.distinct_nontrivial));
        coverage.insert("rule".into(), json!(cov.rule));
        if cov.samples.is_empty() {
            cov.samples.push(json!("(no sample recorded)"));
        }
        coverage.insert("samples".into(), Value::Array(cov.samples));
        coverage.insert("exhaustive".into(), json!(cov.exhaustive));
        coverage.insert(
            "known_finding_hits".into(),
            Value::Object(
                known_hits
                    .iter()
                    .map(|(k, v)| (k.clone(), json!({"cases": v.1, "signatures": v.2})))
                    .collect(),
            ),
        );
        coverage.insert("failing_signatures_total".into(), json!(fails.len()));
        coverage.insert("new_failing_signatures".into(), json!(nviol));
        for (k, v) in cov.extra {
            coverage.insert(k, v);
        }
        let ev = json!({
            "property_id": self.prop,
            "tier": self.tier.as_str(),
            "seed": self.seed,
            "level": "model_checking",
            "coverage": Value::Object(coverage),
            "assumptions": cov.assumptions,
            "wall_s": (wall * 1000.0).round() / 1000.0,
            "violations": nviol,
        });
        let evdir = format!("{}/evidence", VERIF_ROOT);
        let _ = std::fs::create_dir_all(&evdir);
        let evpath = format!("{}/{}.json", evdir, self.prop);
        if !self.list_mode {
            std::fs::write(&evpath, serde_json::to_string_pretty(&ev).unwrap() + "\n")
                .expect("cannot write evidence file");
        }
        println!(
            "{} {}: states={} transitions={} evaluations={} known-finding-signatures={} new-violations={} wall={:.1}s",
            self.prop,
            self.tier.as_str(),
            ev["coverage"]["states"],
            ev["coverage"]["transitions"],
            ev["coverage"]["evaluations"],
            known_hits.len(),
            nviol,
            wall
        );
        if nviol > 0 {
            1
        } else {
            0
        }
    }
}
