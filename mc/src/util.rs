//! Small helpers shared by all checks: panic capture, message normalisation, hashing.

use std::cell::RefCell;
use std::panic::{self, AssertUnwindSafe};

thread_local! {
    static LAST_PANIC: RefCell<Option<String>> = RefCell::new(None);
}

/// Install a panic hook that records the message (with location) in a thread-local instead of printing it.
pub fn install_quiet_panic_hook() {
    panic::set_hook(Box::new(|info| {
        let msg = if let Some(s) = info.payload().downcast_ref::<&str>() {
            s.to_string()
        } else if let Some(s) = info.payload().downcast_ref::<String>() {
            s.clone()
        } else {
            "<non-string panic payload>".to_string()
        };
        let loc = info
            .location()
            .map(|l| {
                let f = l.file();
                // keep only the path below src/ so that the message is stable across checkouts
                let f = f.rsplit_once("/src/").map(|x| x.1).unwrap_or(f);
                format!("{}", f)
            })
            .unwrap_or_default();
        if std::env::var_os("VERIF_PANIC_TRACE").is_some() {
            eprintln!("panic: {} @{:?}", msg, info.location());
        }
        LAST_PANIC.with(|p| *p.borrow_mut() = Some(format!("{} @{}", msg, loc)));
    }));
}

/// Run `f`, returning `Err(panic message)` if it panicked.
pub fn catch<T>(f: impl FnOnce() -> T) -> Result<T, String> {
    LAST_PANIC.with(|p| *p.borrow_mut() = None);
    match panic::catch_unwind(AssertUnwindSafe(f)) {
        Ok(v) => Ok(v),
        Err(payload) => Err(LAST_PANIC.with(|p| p.borrow_mut().take()).unwrap_or_else(|| {
            // the panic happened on another thread (a worker of a parallel iterator): take the message from the payload
            if let Some(s) = payload.downcast_ref::<&str>() {
                s.to_string()
            } else if let Some(s) = payload.downcast_ref::<String>() {
                s.clone()
            } else {
                "<panic>".to_string()
            }
        })),
    }
}

/// Normalise a panic / error message into a class: digits are replaced by `N`, quoted strings shortened.
pub fn msg_class(msg: &str) -> String {
    let mut out = String::new();
    let mut lastdigit = false;
    let mut inquote = false;
    for c in msg.chars() {
        // content between backticks is data (texts, ids) quoted by std panics: not part of the class
        if c == '`' {
            inquote = !inquote;
            out.push('`');
            continue;
        }
        if inquote {
            continue;
        }
        if c.is_ascii_digit() {
            if !lastdigit {
                out.push('N');
            }
            lastdigit = true;
        } else {
            lastdigit = false;
            if c == '\n' {
                out.push(' ');
            } else {
                out.push(c);
            }
        }
    }
    if out.len() > 160 {
        let mut cut = 160;
        while !out.is_char_boundary(cut) {
            cut -= 1;
        }
        out.truncate(cut);
    }
    out
}

/// FNV-1a 64 bit hash (deterministic across runs, unlike `DefaultHasher` with random state)
pub fn fnv64(data: &[u8]) -> u64 {
    let mut h: u64 = 0xcbf29ce484222325;
    for b in data {
        h ^= *b as u64;
        h = h.wrapping_mul(0x100000001b3);
    }
    h
}

/// 128-bit key from two differently seeded FNV passes (collision probability negligible for < 10^9 states)
pub fn key128(data: &[u8]) -> u128 {
    let a = fnv64(data);
    let mut h: u64 = 0x9e3779b97f4a7c15;
    for b in data {
        h = (h ^ (*b as u64)).wrapping_mul(0xff51afd7ed558ccd);
        h ^= h >> 29;
    }
    ((a as u128) << 64) | h as u128
}

/// All ranges `[b,e)` with `0 <= b <= e <= len`, ordered by (b, e).
pub fn all_ranges(len: usize) -> Vec<(usize, usize)> {
    let mut v = Vec::new();
    for b in 0..=len {
        for e in b..=len {
            v.push((b, e));
        }
    }
    v
}

/// Rank-compress a list of integers into their order type, e.g. [5,2,5,9] -> "1012" style string.
pub fn order_type(values: &[i64]) -> String {
    let mut sorted: Vec<i64> = values.to_vec();
    sorted.sort();
    sorted.dedup();
    values
        .iter()
        .map(|v| {
            let r = sorted.binary_search(v).unwrap();
            char::from_digit(r as u32, 36).unwrap_or('z')
        })
        .collect()
}

pub fn char_slice(text: &str, b: usize, e: usize) -> String {
    text.chars().skip(b).take(e.saturating_sub(b)).collect()
}

/// Base directory for scratch files written at run time: a memory-backed directory when the system has one (the
/// checks that save and load files do so hundreds of thousands of times), else /verif/.work. Nothing in it outlives a run.
pub fn work_base() -> String {
    use std::sync::OnceLock;
    static BASE: OnceLock<String> = OnceLock::new();
    BASE.get_or_init(|| {
        let shm = "/dev/shm/verif-work";
        if std::env::var_os("VERIF_NO_SHM").is_none() && std::fs::create_dir_all(shm).is_ok() && std::fs::write(format!("{}/.probe-{}", shm, std::process::id()), b"x").is_ok() {
            let _ = std::fs::remove_file(format!("{}/.probe-{}", shm, std::process::id()));
            shm.to_string()
        } else {
            let _ = std::fs::create_dir_all("/verif/.work");
            "/verif/.work".to_string()
        }
    })
    .clone()
}

/// A private scratch directory name for this process. Its length is the same whatever the base directory and the
/// process id (serialisations embed the path: position-dependent failure classes must not move with it).
pub fn work_dir(tag: &str) -> String {
    let head = format!("{}/{}-", work_base(), tag);
    let width = 44usize.saturating_sub(head.len()).max(10);
    format!("{}{:0width$}", head, std::process::id(), width = width)
}
