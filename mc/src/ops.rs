//! Operation alphabet for the history engine, and its application to the real store.

use crate::util::{catch, msg_class};
use serde::{Deserialize, Serialize};
use stam::*;

#[derive(Clone, Debug, PartialEq, Eq, Hash, Serialize, Deserialize)]
pub enum Val {
    S(String),
    I(i64),
}

impl Val {
    pub fn to_datavalue(&self) -> DataValue {
        match self {
            Val::S(s) => DataValue::String(s.clone()),
            Val::I(i) => DataValue::Int(*i as isize),
        }
    }
}

/// A cursor: B(n) begin-aligned, E(n) end-aligned (n <= 0 when well-formed)
#[derive(Clone, Copy, Debug, PartialEq, Eq, Hash, Serialize, Deserialize)]
pub enum Cur {
    B(usize),
    E(isize),
}

#[derive(Clone, Copy, Debug, PartialEq, Eq, Hash, Serialize, Deserialize)]
pub struct Off {
    pub b: Cur,
    pub e: Cur,
}

impl Off {
    pub fn simple(b: usize, e: usize) -> Off {
        Off { b: Cur::B(b), e: Cur::B(e) }
    }
    pub fn whole() -> Off {
        Off { b: Cur::B(0), e: Cur::E(0) }
    }
    pub fn to_offset(&self) -> Offset {
        let c = |c: Cur| match c {
            Cur::B(n) => Cursor::BeginAligned(n),
            Cur::E(n) => Cursor::EndAligned(n),
        };
        Offset::new(c(self.b), c(self.e))
    }
    /// resolve against a text of `len` codepoints; None if it does not denote 0 <= b <= e <= len
    pub fn resolve(&self, len: usize) -> Option<(usize, usize)> {
        let r = |c: Cur| -> Option<usize> {
            match c {
                Cur::B(n) => {
                    if n <= len {
                        Some(n)
                    } else {
                        None
                    }
                }
                Cur::E(n) => {
                    if n > 0 {
                        None
                    } else {
                        let d = n.unsigned_abs();
                        if d <= len {
                            Some(len - d)
                        } else {
                            None
                        }
                    }
                }
            }
        };
        let (b, e) = (r(self.b)?, r(self.e)?);
        if b <= e {
            Some((b, e))
        } else {
            None
        }
    }
    /// 0 BeginBegin, 1 BeginEnd, 2 EndEnd, 3 EndBegin
    pub fn mode(&self) -> u8 {
        match (self.b, self.e) {
            (Cur::B(_), Cur::B(_)) => 0,
            (Cur::B(_), Cur::E(_)) => 1,
            (Cur::E(_), Cur::E(_)) => 2,
            (Cur::E(_), Cur::B(_)) => 3,
        }
    }
}

pub fn mode_code(m: OffsetMode) -> u8 {
    match m {
        OffsetMode::BeginBegin => 0,
        OffsetMode::BeginEnd => 1,
        OffsetMode::EndEnd => 2,
        OffsetMode::EndBegin => 3,
    }
}

/// reference to a data item: by public id or (for id-less data) by handle
#[derive(Clone, Debug, PartialEq, Eq, Hash, Serialize, Deserialize)]
pub enum DRef {
    Id(String),
    H(usize),
}

#[derive(Clone, Debug, PartialEq, Eq, Hash, Serialize, Deserialize)]
pub enum TSimple {
    Text { res: String, off: Off },
    Ann { ann: String, off: Option<Off> },
    Res(String),
    Set(String),
    Key(String, String),
    Data(String, DRef),
}

#[derive(Clone, Copy, Debug, PartialEq, Eq, Hash, Serialize, Deserialize)]
pub enum TKind {
    Simple,
    Multi,
    Composite,
    Directional,
}

#[derive(Clone, Debug, PartialEq, Eq, Hash, Serialize, Deserialize)]
pub struct Target {
    pub kind: TKind,
    pub parts: Vec<TSimple>,
}

impl Target {
    pub fn simple(t: TSimple) -> Target {
        Target { kind: TKind::Simple, parts: vec![t] }
    }
}

#[derive(Clone, Debug, PartialEq, Eq, Hash, Serialize, Deserialize)]
pub enum DataT {
    /// new-or-deduplicated data: (set, key, value, optional explicit data id)
    New { set: String, key: String, val: Val, id: Option<String> },
    /// reference to existing data by id
    Existing { set: String, id: String },
}

#[derive(Clone, Copy, Debug, PartialEq, Eq, Hash, Serialize, Deserialize)]
pub enum PMode {
    Checksum,
    Text,
    Both,
    Auto,
}

#[derive(Clone, Debug, PartialEq, Eq, Hash, Serialize, Deserialize)]
pub enum Op {
    AddRes { id: String, text: String },
    /// empty dataset
    AddSet { id: String },
    Annotate { id: Option<String>, target: Target, data: Vec<DataT> },
    RemoveAnn(String),
    RemoveData { set: String, data: DRef, strict: bool },
    RemoveKey { set: String, key: String, strict: bool },
    RemoveRes(String),
    RemoveSet(String),
    Protect(PMode),
}

impl Op {
    pub fn short(&self) -> String {
        match self {
            Op::AddRes { id, .. } => format!("AddRes({})", id),
            Op::AddSet { id } => format!("AddSet({})", id),
            Op::Annotate { id, target, data } => format!(
                "Annotate({:?},{:?}{:?},data={})",
                id,
                target.kind,
                target.parts,
                data.iter()
                    .map(|d| match d {
                        DataT::New { set, key, val, id } => format!("{}/{}={:?}{}", set, key, val, id.as_ref().map(|i| format!("#{}", i)).unwrap_or_default()),
                        DataT::Existing { set, id } => format!("{}#{}", set, id),
                    })
                    .collect::<Vec<_>>()
                    .join(",")
            ),
            Op::RemoveAnn(a) => format!("RemoveAnn({})", a),
            Op::RemoveData { set, data, strict } => format!("RemoveData({},{:?},strict={})", set, data, strict),
            Op::RemoveKey { set, key, strict } => format!("RemoveKey({},{},strict={})", set, key, strict),
            Op::RemoveRes(r) => format!("RemoveRes({})", r),
            Op::RemoveSet(s) => format!("RemoveSet({})", s),
            Op::Protect(m) => format!("Protect({:?})", m),
        }
    }
    /// coarse kind used in signatures
    pub fn kind(&self) -> String {
        match self {
            Op::AddRes { .. } => "AddRes".into(),
            Op::AddSet { .. } => "AddSet".into(),
            Op::Annotate { target, .. } => format!("Annotate:{}", target_kind(target)),
            Op::RemoveAnn(_) => "RemoveAnn".into(),
            Op::RemoveData { strict, .. } => format!("RemoveData:strict={}", strict),
            Op::RemoveKey { strict, .. } => format!("RemoveKey:strict={}", strict),
            Op::RemoveRes(_) => "RemoveRes".into(),
            Op::RemoveSet(_) => "RemoveSet".into(),
            Op::Protect(m) => format!("Protect:{:?}", m),
        }
    }
    pub fn is_removal(&self) -> bool {
        matches!(self, Op::RemoveAnn(_) | Op::RemoveData { .. } | Op::RemoveKey { .. } | Op::RemoveRes(_) | Op::RemoveSet(_))
    }
}

pub fn tsimple_kind(t: &TSimple) -> &'static str {
    match t {
        TSimple::Text { .. } => "Text",
        TSimple::Ann { off: None, .. } => "Ann",
        TSimple::Ann { off: Some(_), .. } => "AnnOff",
        TSimple::Res(_) => "Res",
        TSimple::Set(_) => "Set",
        TSimple::Key(..) => "Key",
        TSimple::Data(..) => "Data",
    }
}

pub fn target_kind(t: &Target) -> String {
    match t.kind {
        TKind::Simple => tsimple_kind(&t.parts[0]).to_string(),
        k => format!("{:?}[{}]", k, t.parts.iter().map(tsimple_kind).collect::<Vec<_>>().join("+")),
    }
}

#[derive(Clone, Debug, PartialEq, Eq)]
pub enum Outcome {
    Ok,
    Err(String),
    Panic(String),
}

impl Outcome {
    pub fn is_ok(&self) -> bool {
        matches!(self, Outcome::Ok)
    }
    pub fn class(&self) -> String {
        match self {
            Outcome::Ok => "ok".into(),
            Outcome::Err(m) => format!("err({})", m),
            Outcome::Panic(m) => format!("panic({})", m),
        }
    }
}

fn dref_builder<'a>(d: &'a DRef) -> BuildItem<'a, AnnotationData> {
    match d {
        DRef::Id(s) => BuildItem::IdRef(s.as_str()),
        DRef::H(h) => BuildItem::Handle(AnnotationDataHandle::new(*h)),
    }
}

pub fn tsimple_builder<'a>(t: &'a TSimple) -> SelectorBuilder<'a> {
    match t {
        TSimple::Text { res, off } => SelectorBuilder::textselector(res.as_str(), off.to_offset()),
        TSimple::Ann { ann, off } => SelectorBuilder::annotationselector(ann.as_str(), off.map(|o| o.to_offset())),
        TSimple::Res(r) => SelectorBuilder::resourceselector(r.as_str()),
        TSimple::Set(s) => SelectorBuilder::datasetselector(s.as_str()),
        TSimple::Key(s, k) => SelectorBuilder::datakeyselector(s.as_str(), k.as_str()),
        TSimple::Data(s, d) => SelectorBuilder::annotationdataselector(s.as_str(), dref_builder(d)),
    }
}

pub fn target_builder<'a>(t: &'a Target) -> SelectorBuilder<'a> {
    match t.kind {
        TKind::Simple => tsimple_builder(&t.parts[0]),
        TKind::Multi => SelectorBuilder::multiselector(t.parts.iter().map(tsimple_builder).collect::<Vec<_>>()),
        TKind::Composite => SelectorBuilder::compositeselector(t.parts.iter().map(tsimple_builder).collect::<Vec<_>>()),
        TKind::Directional => SelectorBuilder::directionalselector(t.parts.iter().map(tsimple_builder).collect::<Vec<_>>()),
    }
}

pub fn annotation_builder<'a>(id: &'a Option<String>, target: &'a Target, data: &'a [DataT]) -> AnnotationBuilder<'a> {
    let mut b = AnnotationBuilder::new();
    if let Some(id) = id {
        b = b.with_id(id.clone());
    }
    b = b.with_target(target_builder(target));
    for d in data {
        match d {
            DataT::New { set, key, val, id: None } => {
                b = b.with_data(set.as_str(), key.as_str(), val.to_datavalue());
            }
            DataT::New { set, key, val, id: Some(id) } => {
                b = b.with_data_with_id(set.as_str(), key.as_str(), val.to_datavalue(), id.as_str());
            }
            DataT::Existing { set, id } => {
                b = b.with_existing_data(set.as_str(), id.as_str());
            }
        }
    }
    b
}

fn err_class(e: &StamError) -> String {
    // variant name only: messages embed ids and are not part of any property
    let s = format!("{:?}", e);
    let name: String = s.chars().take_while(|c| c.is_alphanumeric()).collect();
    name
}

fn dref_request_remove(store: &mut AnnotationStore, set: &str, data: &DRef, strict: bool) -> Result<(), StamError> {
    match data {
        DRef::Id(id) => store.remove_data(set, id.as_str(), strict),
        DRef::H(h) => store.remove_data(set, AnnotationDataHandle::new(*h), strict),
    }
}

/// Apply one operation to the real store (panics are caught).
pub fn apply_real(store: &mut AnnotationStore, op: &Op) -> Outcome {
    let r = catch(|| -> Result<(), StamError> {
        match op {
            Op::AddRes { id, text } => {
                store.add_resource(TextResourceBuilder::new().with_id(id.clone()).with_text(text.clone()))?;
            }
            Op::AddSet { id } => {
                store.add_dataset(AnnotationDataSetBuilder::new().with_id(id.clone()))?;
            }
            Op::Annotate { id, target, data } => {
                store.annotate(annotation_builder(id, target, data))?;
            }
            Op::RemoveAnn(a) => store.remove_annotation(a.as_str())?,
            Op::RemoveData { set, data, strict } => dref_request_remove(store, set, data, *strict)?,
            Op::RemoveKey { set, key, strict } => store.remove_key(set.as_str(), key.as_str(), *strict)?,
            Op::RemoveRes(r) => store.remove_resource(r.as_str())?,
            Op::RemoveSet(s) => store.remove_dataset(s.as_str())?,
            Op::Protect(m) => {
                let mode = match m {
                    PMode::Checksum => TextValidationMode::Checksum,
                    PMode::Text => TextValidationMode::Text,
                    PMode::Both => TextValidationMode::Both,
                    PMode::Auto => TextValidationMode::Auto,
                };
                store.protect_text(mode)?;
            }
        }
        Ok(())
    });
    match r {
        Ok(Ok(())) => Outcome::Ok,
        Ok(Err(e)) => Outcome::Err(err_class(&e)),
        Err(p) => Outcome::Panic(msg_class(&p)),
    }
}

pub fn new_store() -> AnnotationStore {
    AnnotationStore::new(Config::default())
}

/// Rebuild a store by replaying a history. Returns the store and the outcome of every operation.
pub fn replay_real(history: &[Op]) -> (AnnotationStore, Vec<Outcome>) {
    let mut store = new_store();
    let mut outs = Vec::with_capacity(history.len());
    for op in history {
        outs.push(apply_real(&mut store, op));
    }
    (store, outs)
}
