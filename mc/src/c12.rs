//! C12 — codepoint/byte conversion is exact and tuning knobs never change answers.
//!
//! Three bounded-exhaustive sweeps (no sampling):
//!
//! * **A (conversion)**: every text over an alphabet of 1-4 byte codepoints up to a length, under every
//!   milestone interval in {0,1,2,3,7,100} x shrink_to_fit off/on x every set of at most two annotated ranges
//!   (they populate the position index), `utf8byte(p)` for every position and `utf8byte_to_charpos(b)` for every
//!   byte offset up to two past the end of the *resource*, on the resource, on every sub-selection
//!   (`ResultTextSelection`) and, for annotated ranges, on the separate `ResultItem<TextSelection>` receiver.
//!   Oracle: naive counting with `char_indices`; `Err` beyond the receiver's text and inside a codepoint; the
//!   round trip is the identity on 0..=len.
//! * **B (knobs, differential)**: for small stores (text x set of at most two annotated ranges) a fixed battery of
//!   observations is computed under all 24 configurations (6 intervals x shrink x {built directly, loaded from
//!   STAM JSON}) and compared with the same battery under the default configuration. No expected value is
//!   written by hand. A difference is attributed to the *minimal* set of changed knobs that shows it.
//! * **C (knobs over histories)**: every state of the history exploration (engine `hist`, as C01) is rebuilt by
//!   replaying its history under each milestone interval, and its JSON serialisation is loaded under every
//!   (interval, shrink_to_fit) pair; operation outcomes, abstract content and annotation texts must not change.

use crate::c01::plans;
use crate::hist::{explore, history_from_json, history_json, Oracle, Trans};
use crate::ops::{apply_real, Op, Outcome};
use crate::report::{Coverage, Reporter, Tier};
use crate::ser::{diff_ser, ser_abstract};
use crate::util::{all_ranges, catch, msg_class};
use rayon::prelude::*;
use serde_json::{json, Value};
use stam::*;
use std::collections::{BTreeMap, BTreeSet, HashMap};
use std::sync::atomic::{AtomicU64, Ordering};
use std::sync::OnceLock;

type R = (usize, usize);

/// a (1 byte), A (1), space (1), é (2 bytes), 𝄞 (4 bytes), İ (2 bytes), ẞ (3 bytes) — the alphabet of C07
const SIGMA: [char; 7] = ['a', 'A', ' ', '\u{e9}', '\u{1d11e}', '\u{130}', '\u{1e9e}'];
/// one representative per UTF-8 width: a (1), é (2), ẞ (3), 𝄞 (4)
const WIDTHS: [char; 4] = ['a', '\u{e9}', '\u{1e9e}', '\u{1d11e}'];
/// 1, 2 and 4 bytes
const TRIO: [char; 3] = ['a', '\u{e9}', '\u{1d11e}'];
const INTERVALS: [usize; 6] = [0, 1, 2, 3, 7, 100];
/// hard cap on the number of items drawn from any library iterator
const CAP: usize = 64;

// ------------------------------------------------------------------------------------------------
// configurations and store construction

#[derive(Clone, Copy, Debug, PartialEq, Eq, Hash, PartialOrd, Ord)]
struct Cfg {
    interval: usize,
    shrink: bool,
    /// false: store built through the API under this configuration (shrink_to_fit on = flag set and
    /// `AnnotationStore::shrink_to_fit(true)` called after building, which is what the loaders do when the flag is on);
    /// true: store built under the default configuration, serialised to STAM JSON and loaded with this configuration
    json: bool,
}

const DEFAULT: Cfg = Cfg { interval: 100, shrink: true, json: false };

impl Cfg {
    fn config(&self) -> Config {
        Config::default().with_milestone_interval(self.interval).with_shrink_to_fit(self.shrink)
    }
    fn to_json(&self) -> Value {
        json!({"milestone_interval": self.interval, "shrink_to_fit": self.shrink, "loaded_from_json": self.json})
    }
    fn from_json(v: &Value) -> Cfg {
        Cfg {
            interval: v["milestone_interval"].as_u64().unwrap_or(100) as usize,
            shrink: v["shrink_to_fit"].as_bool().unwrap_or(true),
            json: v["loaded_from_json"].as_bool().unwrap_or(false),
        }
    }
    fn show(&self) -> String {
        format!("interval={} shrink_to_fit={} {}", self.interval, self.shrink, if self.json { "loaded-from-json" } else { "built-directly" })
    }
}

/// the 12 configurations of sweep A (built directly), default first
fn cfgs_direct() -> Vec<Cfg> {
    let mut v = vec![DEFAULT];
    for interval in INTERVALS {
        for shrink in [true, false] {
            let c = Cfg { interval, shrink, json: false };
            if c != DEFAULT {
                v.push(c);
            }
        }
    }
    v
}

/// all 24 configurations of sweep B, default first
fn cfgs_all() -> Vec<Cfg> {
    let mut v = cfgs_direct();
    for interval in INTERVALS {
        for shrink in [true, false] {
            v.push(Cfg { interval, shrink, json: true });
        }
    }
    v
}

fn ms_class(interval: usize, textlen: usize) -> &'static str {
    match interval {
        0 => "0",
        1 => "1",
        i if i < textlen => "smaller-than-text",
        _ => "larger-than-text",
    }
}

fn variant(e: &StamError) -> String {
    // variant name only: messages embed offsets and are not part of the property
    let s = format!("{:?}", e);
    s.chars().take_while(|c| c.is_alphanumeric()).collect()
}

fn panic_class(p: &str) -> String {
    // msg_class replaces digits and drops back-quoted data; std's slicing panics also quote a character in single quotes
    let c = msg_class(p);
    let mut out = String::new();
    let mut inquote = false;
    for ch in c.chars() {
        if ch == '\'' {
            inquote = !inquote;
            out.push(ch);
        } else if !inquote {
            out.push(ch);
        }
    }
    out.chars().take(90).collect()
}

fn build_with(text: &str, known: &[R], config: Config, shrink_call: bool) -> Result<AnnotationStore, (String, String)> {
    let r = catch(|| -> Result<AnnotationStore, (String, String)> {
        let mut store = AnnotationStore::new(config);
        store
            .add_resource(TextResourceBuilder::new().with_id("r").with_text(text))
            .map_err(|e| ("add_resource".to_string(), format!("err:{}", variant(&e))))?;
        for (i, r) in known.iter().enumerate() {
            store
                .annotate(
                    AnnotationBuilder::new()
                        .with_id(format!("k{}", i))
                        .with_target(SelectorBuilder::textselector("r", Offset::simple(r.0, r.1))),
                )
                .map_err(|e| ("annotate".to_string(), format!("err:{}", variant(&e))))?;
        }
        if shrink_call {
            store.shrink_to_fit(true);
        }
        Ok(store)
    });
    match r {
        Ok(x) => x,
        Err(p) => Err(("build".to_string(), format!("panic:{}", panic_class(&p)))),
    }
}

/// Build the store `text` + one annotation per known range under `cfg`. Err = (stage, symptom).
fn build_store(text: &str, known: &[R], cfg: Cfg) -> Result<AnnotationStore, (String, String)> {
    if !cfg.json {
        return build_with(text, known, cfg.config(), cfg.shrink);
    }
    let plain = build_with(text, known, Config::default(), false)?;
    let doc = match catch(|| plain.to_json_string(&Config::default())) {
        Ok(Ok(j)) => j,
        Ok(Err(e)) => return Err(("serialise".into(), format!("err:{}", variant(&e)))),
        Err(p) => return Err(("serialise".into(), format!("panic:{}", panic_class(&p)))),
    };
    match catch(|| AnnotationStore::from_str(&doc, cfg.config())) {
        Ok(Ok(s)) => Ok(s),
        Ok(Err(e)) => Err(("load".into(), format!("err:{}", variant(&e)))),
        Err(p) => Err(("load".into(), format!("panic:{}", panic_class(&p)))),
    }
}

// ------------------------------------------------------------------------------------------------
// enumeration helpers

/// all texts over `alpha` with at most `maxlen` codepoints, shortest first
fn texts_over(alpha: &[char], maxlen: usize) -> Vec<String> {
    let mut out = vec![String::new()];
    let mut level = vec![String::new()];
    for _ in 0..maxlen {
        let mut next = Vec::with_capacity(level.len() * alpha.len());
        for t in &level {
            for c in alpha {
                let mut s = t.clone();
                s.push(*c);
                next.push(s);
            }
        }
        out.extend(next.iter().cloned());
        level = next;
    }
    out
}

/// all sets of at most `maxsize` (<= 2) distinct ranges of a text with `n` codepoints, smallest first
fn known_subsets(n: usize, maxsize: usize) -> Vec<Vec<R>> {
    let ranges = all_ranges(n);
    let mut out: Vec<Vec<R>> = vec![vec![]];
    if maxsize >= 1 {
        for r in &ranges {
            out.push(vec![*r]);
        }
    }
    if maxsize >= 2 {
        for i in 0..ranges.len() {
            for j in i + 1..ranges.len() {
                out.push(vec![ranges[i], ranges[j]]);
            }
        }
    }
    out
}

/// byte offset of every codepoint position 0..=len, by naive counting
fn boundaries(text: &str) -> Vec<usize> {
    let n = text.chars().count();
    (0..=n)
        .map(|p| text.char_indices().nth(p).map(|x| x.0).unwrap_or(text.len()))
        .collect()
}

// ------------------------------------------------------------------------------------------------
// sweep A: conversion against naive counting

#[derive(Clone, Debug, PartialEq, Eq)]
enum Res {
    Num(usize),
    Err,
    Panic(String),
}

impl Res {
    fn show(&self) -> String {
        match self {
            Res::Num(n) => format!("Ok({})", n),
            Res::Err => "Err".to_string(),
            Res::Panic(p) => format!("panic({})", p),
        }
    }
}

/// `f(0) ..= f(upto)`; one panic guard around the whole table, per-call guards only when something panicked
fn table<F: Fn(usize) -> Result<usize, StamError>>(f: F, upto: usize) -> Vec<Res> {
    let whole = catch(|| {
        (0..=upto)
            .map(|i| match f(i) {
                Ok(n) => Res::Num(n),
                Err(_) => Res::Err,
            })
            .collect::<Vec<_>>()
    });
    match whole {
        Ok(v) => v,
        Err(_) => (0..=upto)
            .map(|i| match catch(|| f(i)) {
                Ok(Ok(n)) => Res::Num(n),
                Ok(Err(_)) => Res::Err,
                Err(p) => Res::Panic(panic_class(&p)),
            })
            .collect(),
    }
}

struct ACtx<'a> {
    text: &'a str,
    cb: &'a [usize],
    known: &'a [R],
    cfg: Cfg,
    ord: u64,
    verbose: bool,
}

#[derive(Default, Clone, Copy)]
struct Count {
    stores: u64,
    receivers: u64,
    calls: u64,
    nontrivial: u64,
}

impl Count {
    fn add(&mut self, o: Count) {
        self.stores += o.stores;
        self.receivers += o.receivers;
        self.calls += o.calls;
        self.nontrivial += o.nontrivial;
    }
}

fn conv_case(ctx: &ACtx, recv: &str, r: R) -> Value {
    json!({"kind": "conv", "text": ctx.text, "known": ctx.known, "config": ctx.cfg.to_json(), "receiver": recv, "range": [r.0, r.1]})
}

const FUNCS: [&str; 4] = ["utf8byte", "utf8byte_to_charpos", "utf8byte>utf8byte_to_charpos", "utf8byte_to_charpos>utf8byte"];
const RECVS: [&str; 5] = ["resource", "selection:begin=0", "selection:begin>0", "item:begin=0", "item:begin>0"];
const PCLASS: [&str; 5] = ["inside", "at-end", "beyond-selection", "beyond", "inside-character"];
const P_INSIDE: u8 = 0;
const P_END: u8 = 1;
const P_BEYOND_SEL: u8 = 2;
const P_BEYOND: u8 = 3;
const P_INCHAR: u8 = 4;

#[derive(Clone, Debug, PartialEq, Eq, Hash, PartialOrd, Ord)]
enum Sym {
    Wrong,
    UnexpectedErr,
    OkInsteadOfErr,
    Roundtrip,
    Panic(String),
}

/// the abstract failure class of sweep A; rendered as the signature
#[derive(Clone, Debug, PartialEq, Eq, Hash, PartialOrd, Ord)]
struct Key {
    func: u8,
    recv: u8,
    ms: &'static str,
    idx: bool,
    pclass: u8,
    sym: Sym,
}

impl Key {
    fn sig(&self) -> String {
        let sym = match &self.sym {
            Sym::Wrong => "wrong-number".to_string(),
            Sym::UnexpectedErr => "unexpected-err".to_string(),
            Sym::OkInsteadOfErr => "ok-instead-of-err".to_string(),
            Sym::Roundtrip => "roundtrip".to_string(),
            Sym::Panic(p) => format!("panic:{}", p),
        };
        if self.sym == Sym::Roundtrip {
            // implied by a failure of one of the two legs, which carries the fine classification: keep this family coarse
            let recv = RECVS[self.recv as usize].split(':').next().unwrap_or("?");
            return format!("conv|roundtrip|{}|ms={}|idx={}", recv, self.ms, if self.idx { "has-annotations" } else { "none" });
        }
        if let Sym::Panic(p) = &self.sym {
            // a panic is classified by its message and receiver, not by the position that triggered it
            return format!(
                "conv|{}|{}|ms={}|idx={}|panic:{}",
                FUNCS[self.func as usize],
                RECVS[self.recv as usize],
                self.ms,
                if self.idx { "has-annotations" } else { "none" },
                p
            );
        }
        format!(
            "conv|{}|{}|ms={}|idx={}|pos={}|{}",
            FUNCS[self.func as usize],
            RECVS[self.recv as usize],
            self.ms,
            if self.idx { "has-annotations" } else { "none" },
            PCLASS[self.pclass as usize],
            sym
        )
    }
}

struct Entry {
    count: u64,
    ord: u64,
    detail: String,
    case: Value,
}

/// Failures of sweep A are aggregated per task and merged, so that the reporter's lock is taken once per signature
/// and not once per failing probe (one defect fails hundreds of millions of probes).
#[derive(Default)]
struct Agg {
    map: HashMap<Key, Entry>,
}

impl Agg {
    fn add(&mut self, key: Key, ord: u64, detail: impl FnOnce() -> String, case: impl FnOnce() -> Value) {
        match self.map.get_mut(&key) {
            Some(e) => {
                e.count += 1;
                if ord < e.ord {
                    e.ord = ord;
                    e.detail = detail();
                    e.case = case();
                }
            }
            None => {
                self.map.insert(key, Entry { count: 1, ord, detail: detail(), case: case() });
            }
        }
    }
    fn merge(mut self, other: Agg) -> Agg {
        for (k, e) in other.map {
            match self.map.get_mut(&k) {
                Some(mine) => {
                    mine.count += e.count;
                    if e.ord < mine.ord {
                        mine.ord = e.ord;
                        mine.detail = e.detail;
                        mine.case = e.case;
                    }
                }
                None => {
                    self.map.insert(k, e);
                }
            }
        }
        self
    }
    /// hand every signature to the reporter (once); returns signature -> number of failing probes
    fn flush(self, rep: &Reporter, verbose: bool) -> BTreeMap<String, u64> {
        let mut counts = BTreeMap::new();
        let mut entries: Vec<(Key, Entry)> = self.map.into_iter().collect();
        entries.sort_by(|a, b| a.0.cmp(&b.0));
        for (k, e) in entries {
            let sig = k.sig();
            if verbose {
                println!("  FAIL {} ({} probes) :: {}", sig, e.count, e.detail);
            }
            counts.insert(sig.clone(), e.count);
            let (detail, case) = (e.detail, e.case);
            rep.fail(&sig, e.ord, move || detail, move || case);
        }
        counts
    }
}

/// One receiver: `recv` in {resource, selection, item}, covering codepoints [r.0, r.1) of the resource.
fn check_receiver(
    agg: &mut Agg,
    ctx: &ACtx,
    recv: &str,
    ri: u64,
    r: R,
    ub: impl Fn(usize) -> Result<usize, StamError>,
    cp: impl Fn(usize) -> Result<usize, StamError>,
) -> u64 {
    let n = ctx.cb.len() - 1;
    let total = ctx.cb[n];
    let (b, e) = r;
    let m = e - b; // codepoints of the receiver
    let base = ctx.cb[b];
    let mb = ctx.cb[e] - base; // bytes of the receiver
    let maxpos = n - b + 2; // two past the end of the resource, in the receiver's coordinates
    let maxbyte = total - base + 2;
    let got_ub = table(&ub, maxpos);
    let got_cp = table(&cp, maxbyte);
    let recv_class: u8 = match (recv, b) {
        ("resource", _) => 0,
        ("selection", 0) => 1,
        ("selection", _) => 2,
        (_, 0) => 3,
        (_, _) => 4,
    };
    let ms = ms_class(ctx.cfg.interval, n);
    let idx = !ctx.known.is_empty();
    let mut fail = |func: u8, pos: usize, pclass: u8, sym: Sym, detail: &dyn Fn() -> String| {
        let key = if sym == Sym::Roundtrip {
            // coarse key (see Key::sig): receiver kind only, no direction, no position class
            Key { func: 2, recv: [0u8, 1, 1, 3, 3][recv_class as usize], ms, idx, pclass: 0, sym }
        } else if matches!(sym, Sym::Panic(_)) {
            Key { func, recv: recv_class, ms, idx, pclass: 0, sym }
        } else {
            Key { func, recv: recv_class, ms, idx, pclass, sym }
        };
        agg.add(
            key,
            ctx.ord * 4096 + ri * 64 + pos as u64,
            || {
                format!(
                    "text={:?} annotated={:?} {} receiver={} [{}..{}) {}",
                    ctx.text,
                    ctx.known,
                    ctx.cfg.show(),
                    recv,
                    b,
                    e,
                    detail()
                )
            },
            || conv_case(ctx, recv, r),
        );
    };
    let symptom = |got: &Res, want: &Res| -> Option<Sym> {
        match (got, want) {
            (Res::Panic(p), _) => Some(Sym::Panic(p.clone())),
            (Res::Num(x), Res::Num(y)) if x == y => None,
            (Res::Err, Res::Err) => None,
            (Res::Num(_), Res::Num(_)) => Some(Sym::Wrong),
            (Res::Err, Res::Num(_)) => Some(Sym::UnexpectedErr),
            (Res::Num(_), Res::Err) => Some(Sym::OkInsteadOfErr),
            (_, Res::Panic(_)) => None,
        }
    };
    // codepoint -> byte
    for p in 0..=maxpos {
        let (want, pclass) = if p < m {
            (Res::Num(ctx.cb[b + p] - base), P_INSIDE)
        } else if p == m {
            (Res::Num(mb), P_END)
        } else if b + p <= n {
            (Res::Err, P_BEYOND_SEL)
        } else {
            (Res::Err, P_BEYOND)
        };
        if let Some(s) = symptom(&got_ub[p], &want) {
            fail(0, p, pclass, s, &|| format!("utf8byte({}) = {}, counting characters gives {}", p, got_ub[p].show(), want.show()));
        }
    }
    // byte -> codepoint
    for x in 0..=maxbyte {
        let abs = base + x;
        let (want, pclass) = if abs > total {
            (Res::Err, P_BEYOND)
        } else if x > mb {
            (Res::Err, P_BEYOND_SEL)
        } else {
            match ctx.cb.binary_search(&abs) {
                Ok(i) => (Res::Num(i - b), if x == mb { P_END } else { P_INSIDE }),
                Err(_) => (Res::Err, P_INCHAR),
            }
        };
        if let Some(s) = symptom(&got_cp[x], &want) {
            fail(1, x, pclass, s, &|| format!("utf8byte_to_charpos({}) = {}, counting characters gives {}", x, got_cp[x].show(), want.show()));
        }
    }
    // round trips on the valid domain (the same calls with the same arguments on the same immutable store: table lookups)
    for p in 0..=m {
        let pclass = if p == m { P_END } else { P_INSIDE };
        if let Res::Num(x) = got_ub[p] {
            let back = got_cp.get(x).cloned().unwrap_or(Res::Err);
            if back != Res::Num(p) && !matches!(back, Res::Panic(_)) {
                fail(2, p, pclass, Sym::Roundtrip, &|| format!("utf8byte({}) = Ok({}) but utf8byte_to_charpos({}) = {}", p, x, x, back.show()));
            }
        }
        let x = ctx.cb[b + p] - base;
        if let Res::Num(q) = got_cp[x] {
            let back = got_ub.get(q).cloned().unwrap_or(Res::Err);
            if back != Res::Num(x) && !matches!(back, Res::Panic(_)) {
                fail(3, x, pclass, Sym::Roundtrip, &|| format!("utf8byte_to_charpos({}) = Ok({}) but utf8byte({}) = {}", x, q, q, back.show()));
            }
        }
    }
    if ctx.verbose {
        let show = |v: &[Res]| v.iter().map(|r| r.show()).collect::<Vec<_>>().join(" ");
        println!("  {} [{}..{}): utf8byte(0..={}) = {}", recv, b, e, maxpos, show(&got_ub));
        println!("  {} [{}..{}): utf8byte_to_charpos(0..={}) = {}", recv, b, e, maxbyte, show(&got_cp));
    }
    (maxpos + 1 + maxbyte + 1) as u64
}

/// One store of sweep A: all receivers. `only`: restrict to one receiver (replay).
fn check_store_a(rep: &Reporter, agg: &mut Agg, ctx: &ACtx, only: Option<(&str, R)>) -> Count {
    let n = ctx.cb.len() - 1;
    let mut cnt = Count { stores: 1, ..Default::default() };
    let ms = ms_class(ctx.cfg.interval, n);
    let idx = if ctx.known.is_empty() { "none" } else { "has-annotations" };
    let store = match build_store(ctx.text, ctx.known, ctx.cfg) {
        Ok(s) => s,
        Err((stage, symptom)) => {
            let sig = format!("conv|setup:{}|ms={}|idx={}|{}", stage, ms, idx, symptom);
            if ctx.verbose {
                println!("  FAIL {}", sig);
            }
            rep.fail(
                &sig,
                ctx.ord * 4096,
                || format!("text={:?} annotated={:?} {}: building the store failed at {}: {}", ctx.text, ctx.known, ctx.cfg.show(), stage, symptom),
                || conv_case(ctx, "resource", (0, n)),
            );
            return cnt;
        }
    };
    let store = &store;
    let res = match store.resource("r") {
        Some(r) => r,
        None => {
            rep.fail(
                &format!("conv|setup:resource-lookup|ms={}|idx={}|missing", ms, idx),
                ctx.ord * 4096,
                || format!("text={:?} {}: resource \"r\" not found after add_resource", ctx.text, ctx.cfg.show()),
                || conv_case(ctx, "resource", (0, n)),
            );
            return cnt;
        }
    };
    let multibyte = ctx.cb[n] > n;
    let indexed = !ctx.known.is_empty() || (ctx.cfg.interval > 0 && ctx.cfg.interval < n);
    let account = |cnt: &mut Count, calls: u64| {
        cnt.receivers += 1;
        cnt.calls += calls;
        if multibyte && indexed {
            cnt.nontrivial += 1;
        }
    };
    if only.map(|o| o.0 == "resource").unwrap_or(true) {
        let c = check_receiver(agg, ctx, "resource", 0, (0, n), |p| res.utf8byte(p), |x| res.utf8byte_to_charpos(x));
        account(&mut cnt, c);
    }
    for (ri, r) in all_ranges(n).into_iter().enumerate() {
        if let Some((k, rr)) = only {
            if k == "resource" || rr != r {
                continue;
            }
        }
        let sel = match catch(|| res.textselection(&Offset::simple(r.0, r.1))) {
            Ok(Ok(s)) => s,
            other => {
                let symptom = match other {
                    Ok(Err(e)) => format!("err:{}", variant(&e)),
                    Err(p) => format!("panic:{}", panic_class(&p)),
                    _ => unreachable!(),
                };
                rep.fail(
                    &format!("conv|setup:textselection|ms={}|idx={}|{}", ms, idx, symptom),
                    ctx.ord * 4096 + ri as u64 * 64,
                    || format!("text={:?} annotated={:?} {}: textselection({}, {}) on the resource: {}", ctx.text, ctx.known, ctx.cfg.show(), r.0, r.1, symptom),
                    || conv_case(ctx, "selection", r),
                );
                cnt.calls += 1;
                continue;
            }
        };
        if only.map(|o| o.0 == "selection").unwrap_or(true) {
            let c = check_receiver(agg, ctx, "selection", 1 + ri as u64, r, |p| sel.utf8byte(p), |x| sel.utf8byte_to_charpos(x));
            account(&mut cnt, c + 1);
        }
        if let Some(item) = sel.as_resultitem() {
            if only.map(|o| o.0 == "item").unwrap_or(true) {
                let c = check_receiver(agg, ctx, "item", 32 + ri as u64, r, |p| item.utf8byte(p), |x| item.utf8byte_to_charpos(x));
                account(&mut cnt, c);
            }
        }
    }
    cnt
}

struct Layer {
    name: &'static str,
    alphabet: &'static [char],
    maxlen: usize,
    maxsub: usize,
}

fn layers(tier: Tier) -> Vec<Layer> {
    const L7: &str = "7-letter alphabet";
    const L4: &str = "one letter per UTF-8 width (a, e-acute, capital sharp s, musical G clef)";
    const L3: &str = "three letters of 1, 2 and 4 bytes (a, e-acute, musical G clef)";
    match tier {
        Tier::Quick => vec![
            Layer { name: L7, alphabet: &SIGMA, maxlen: 5, maxsub: 0 },
            Layer { name: L4, alphabet: &WIDTHS, maxlen: 5, maxsub: 1 },
            Layer { name: L7, alphabet: &SIGMA, maxlen: 4, maxsub: 1 },
            Layer { name: L4, alphabet: &WIDTHS, maxlen: 4, maxsub: 2 },
            Layer { name: L7, alphabet: &SIGMA, maxlen: 3, maxsub: 2 },
        ],
        Tier::Thorough => vec![
            Layer { name: L7, alphabet: &SIGMA, maxlen: 6, maxsub: 0 },
            Layer { name: L7, alphabet: &SIGMA, maxlen: 5, maxsub: 1 },
            Layer { name: L4, alphabet: &WIDTHS, maxlen: 6, maxsub: 1 },
            Layer { name: L4, alphabet: &WIDTHS, maxlen: 5, maxsub: 2 },
            Layer { name: L3, alphabet: &TRIO, maxlen: 6, maxsub: 2 },
            Layer { name: L7, alphabet: &SIGMA, maxlen: 4, maxsub: 2 },
        ],
    }
}

fn layer_covers(l: &Layer, text: &str, subsize: usize) -> bool {
    subsize <= l.maxsub && text.chars().count() <= l.maxlen && text.chars().all(|c| l.alphabet.contains(&c))
}

fn run_a(rep: &Reporter, cov: &mut Coverage) -> Vec<Value> {
    let ls = layers(rep.tier);
    let cfgs = cfgs_direct();
    let maxn = ls.iter().map(|l| l.maxlen).max().unwrap_or(0);
    let subsets: Vec<Vec<Vec<R>>> = (0..=maxn).map(|n| known_subsets(n, 2)).collect();
    let mut space = Vec::new();
    let mut probes: BTreeMap<String, u64> = BTreeMap::new();
    for (li, layer) in ls.iter().enumerate() {
        let t0 = rep.elapsed();
        let texts = texts_over(layer.alphabet, layer.maxlen);
        let (total, agg) = texts
            .par_iter()
            .enumerate()
            .map(|(ti, text)| {
                let cb = boundaries(text);
                let n = cb.len() - 1;
                let mut cnt = Count::default();
                let mut agg = Agg::default();
                for (si, sub) in subsets[n].iter().enumerate() {
                    if sub.len() > layer.maxsub || ls[..li].iter().any(|l| layer_covers(l, text, sub.len())) {
                        continue;
                    }
                    for (ci, cfg) in cfgs.iter().enumerate() {
                        let ord = ((n as u64 * 3 + sub.len() as u64) * 16 + ci as u64) * (1 << 28) + (ti as u64 % (1 << 18)) * 1024 + si as u64 % 1024;
                        let ctx = ACtx { text, cb: &cb, known: sub, cfg: *cfg, ord, verbose: false };
                        cnt.add(check_store_a(rep, &mut agg, &ctx, None));
                    }
                }
                (cnt, agg)
            })
            .reduce(
                || (Count::default(), Agg::default()),
                |mut a, b| {
                    a.0.add(b.0);
                    (a.0, a.1.merge(b.1))
                },
            );
        for (sig, k) in agg.flush(rep, false) {
            *probes.entry(sig).or_insert(0) += k;
        }
        cov.states += total.receivers;
        cov.transitions += total.calls;
        cov.distinct_nontrivial += total.nontrivial;
        space.push(json!({
            "sweep": "A conversion", "layer": format!("{}: texts of at most {} codepoints x every set of at most {} annotated ranges", layer.name, layer.maxlen, layer.maxsub),
            "alphabet": layer.alphabet.iter().map(|c| c.to_string()).collect::<Vec<_>>(),
            "max_codepoints": layer.maxlen, "texts": texts.len(), "max_annotated_ranges": layer.maxsub,
            "milestone_intervals": INTERVALS, "shrink_to_fit": [true, false],
            "stores_built": total.stores, "receivers_checked": total.receivers, "conversion_calls": total.calls,
            "cases_already_covered_by_an_earlier_layer_skipped": li > 0,
            "wall_s": ((rep.elapsed() - t0) * 10.0).round() / 10.0,
        }));
        eprintln!("C12 A layer {}: {} stores, {} receivers, {} calls, {:.1}s", li, total.stores, total.receivers, total.calls, rep.elapsed() - t0);
    }
    cov.samples.push(json!({"kind": "conv", "text": "a\u{e9}\u{1d11e}", "known": [[1, 2]], "config": Cfg { interval: 2, shrink: false, json: false }.to_json(),
        "receiver": "selection", "range": [1, 3], "checked": "utf8byte(0..=4) and utf8byte_to_charpos(0..=8) against char_indices counting, round trip on 0..=2"}));
    cov.samples.push(json!({"kind": "conv", "text": "\u{1e9e} \u{130}a", "known": [], "config": Cfg { interval: 1, shrink: true, json: false }.to_json(),
        "receiver": "resource", "range": [0, 4], "checked": "utf8byte(0..=6) and utf8byte_to_charpos(0..=9)"}));
    cov.extra.insert("sweep_A_failing_probes_per_signature".into(), json!(probes));
    space
}

// ------------------------------------------------------------------------------------------------
// sweep B: differential observation battery

type ObsMap = BTreeMap<&'static str, Vec<String>>;

/// observation kinds whose value legitimately depends on which annotations exist (compared with the default
/// configuration of the *same* annotated store); all other kinds are compared with the default configuration of the
/// store without annotations
const DEPENDENT: [&str; 7] = ["textselections", "segmentation", "related_text", "positions", "annotations", "boundness", "annotate.textselections"];

fn dependent(kind: &str) -> bool {
    DEPENDENT.contains(&kind)
}

struct Obs {
    kinds: ObsMap,
    calls: u64,
}

impl Obs {
    fn put(&mut self, kind: &'static str, key: String, f: impl FnOnce() -> String) {
        self.calls += 1;
        let v = match catch(f) {
            Ok(s) => s,
            Err(p) => format!("PANIC {}", panic_class(&p)),
        };
        self.kinds.entry(kind).or_default().push(format!("{} => {}", key, v));
    }
}

fn sel_str(ts: &ResultTextSelection) -> String {
    format!("{}..{}{:?}", ts.begin(), ts.end(), ts.text())
}

fn list<'a>(it: impl Iterator<Item = ResultTextSelection<'a>>) -> String {
    let mut v: Vec<String> = Vec::new();
    for ts in it {
        if v.len() >= CAP {
            v.push("<more than cap>".into());
            break;
        }
        v.push(sel_str(&ts));
    }
    format!("[{}]", v.join(", "))
}

fn res_str<T>(r: Result<T, StamError>, f: impl FnOnce(T) -> String) -> String {
    match r {
        Ok(x) => f(x),
        Err(e) => format!("Err({})", variant(&e)),
    }
}

const RX: [&str; 8] = [".", r"\s+", "a|A", "(.)(.)", r"\b", "[^a ]+", "(?i)a", "$"];

fn regexes() -> &'static Vec<Regex> {
    static CELL: OnceLock<Vec<Regex>> = OnceLock::new();
    CELL.get_or_init(|| RX.iter().map(|r| Regex::new(r).expect("regex")).collect())
}

fn regex_str<'a, 'b>(found: Result<FindRegexIter<'a, 'b>, StamError>) -> String {
    res_str(found, |it| {
        let mut v = Vec::new();
        for m in it {
            if v.len() >= CAP {
                v.push("<more than cap>".into());
                break;
            }
            let sels: Vec<String> = m.textselections().iter().map(sel_str).collect();
            v.push(format!("#{}{:?}{:?}", m.expression_index(), sels, m.capturegroups()));
        }
        format!("[{}]", v.join(", "))
    })
}

fn rel_ops() -> Vec<(&'static str, TextSelectionOperator)> {
    let (all, negate) = (false, false);
    vec![
        ("equals", TextSelectionOperator::Equals { all, negate }),
        ("overlaps", TextSelectionOperator::Overlaps { all, negate }),
        ("embeds", TextSelectionOperator::Embeds { all, negate }),
        ("embedded", TextSelectionOperator::Embedded { all, negate, limit: None }),
        ("before", TextSelectionOperator::Before { all, negate, limit: None }),
        ("after", TextSelectionOperator::After { all, negate, limit: None }),
        ("precedes", TextSelectionOperator::Precedes { all, negate, allow_whitespace: false }),
        ("succeeds", TextSelectionOperator::Succeeds { all, negate, allow_whitespace: true }),
        ("samebegin", TextSelectionOperator::SameBegin { all, negate }),
        ("sameend", TextSelectionOperator::SameEnd { all, negate }),
    ]
}

fn needles_of(text: &str) -> Vec<String> {
    let chars: Vec<char> = text.chars().collect();
    let mut set: BTreeSet<String> = BTreeSet::new();
    for c in &chars {
        set.insert(c.to_string());
    }
    for w in chars.windows(2) {
        set.insert(w.iter().collect());
    }
    for extra in ["a", "A", "\u{df}"] {
        set.insert(extra.to_string());
    }
    set.into_iter().collect()
}

fn positions_str<'a>(it: Box<dyn Iterator<Item = &'a usize> + 'a>) -> String {
    let v: Vec<usize> = it.take(CAP).copied().collect();
    format!("{:?}", v)
}

fn tables_str(ub: impl Fn(usize) -> Result<usize, StamError>, cp: impl Fn(usize) -> Result<usize, StamError>, maxpos: usize, maxbyte: usize) -> String {
    let f = |r: Result<usize, StamError>| match r {
        Ok(n) => n.to_string(),
        Err(_) => "E".to_string(),
    };
    let a: Vec<String> = (0..=maxpos).map(|p| f(ub(p))).collect();
    let b: Vec<String> = (0..=maxbyte).map(|x| f(cp(x))).collect();
    format!("utf8byte[{}] utf8byte_to_charpos[{}]", a.join(" "), b.join(" "))
}

/// the read-only part of the battery
fn observe(store: &AnnotationStore, text: &str, o: &mut Obs) {
    let n = text.chars().count();
    let nbytes = text.len();
    let res = match store.resource("r") {
        Some(r) => r,
        None => {
            o.put("resource", "lookup".into(), || "missing".into());
            return;
        }
    };
    let res = &res;
    let needles = needles_of(text);
    let rx = regexes();
    // resource level, every begin-aligned and end-aligned cursor pair incl. invalid ones
    for b in 0..=n + 1 {
        for e in 0..=n + 1 {
            let off = Offset::simple(b, e);
            o.put("text_by_offset", format!("res ({},{})", b, e), || res_str(res.text_by_offset(&off), |t| format!("{:?}", t)));
            o.put("textselection", format!("res ({},{})", b, e), || res_str(res.textselection(&off), |t| sel_str(&t)));
            let off = Offset::new(Cursor::EndAligned(-(b as isize)), Cursor::EndAligned(-(e as isize)));
            o.put("text_by_offset", format!("res (-{},-{})", b, e), || res_str(res.text_by_offset(&off), |t| format!("{:?}", t)));
            o.put("textselection", format!("res (-{},-{})", b, e), || res_str(res.textselection(&off), |t| sel_str(&t)));
        }
    }
    o.put("convert", "res".into(), || tables_str(|p| res.utf8byte(p), |x| res.utf8byte_to_charpos(x), n + 2, nbytes + 2));
    for nd in &needles {
        o.put("find_text", format!("res {:?}", nd), || list(res.find_text(nd)));
        o.put("find_text_nocase", format!("res {:?}", nd), || list(res.find_text_nocase(nd)));
        o.put("split_text", format!("res {:?}", nd), || list(res.split_text(nd)));
    }
    for (i, _) in rx.iter().enumerate() {
        o.put("find_text_regex", format!("res {:?}", RX[i]), || regex_str(res.find_text_regex(&rx[i..i + 1], None, false)));
    }
    o.put("find_text_regex", "res first three, overlap".into(), || regex_str(res.find_text_regex(&rx[0..3], None, true)));
    o.put("find_text_regex", "res first three, no overlap".into(), || regex_str(res.find_text_regex(&rx[0..3], None, false)));
    o.put("trim_text", "res".into(), || res_str(res.trim_text(&[' ', 'a']), |t| sel_str(&t)));
    o.put("textselections", "res listing".into(), || list(res.textselections()));
    o.put("textselections", "res len".into(), || res.textselections_len().to_string());
    o.put("segmentation", "res".into(), || list(res.segmentation()));
    o.put("positions", "res begin".into(), || positions_str(res.as_ref().positions(PositionMode::Begin)));
    o.put("positions", "res end".into(), || positions_str(res.as_ref().positions(PositionMode::End)));
    o.put("positions", "res both".into(), || positions_str(res.as_ref().positions(PositionMode::Both)));
    // every sub-selection
    for (b, e) in all_ranges(n) {
        let sel = match catch(|| res.textselection(&Offset::simple(b, e))) {
            Ok(Ok(s)) => s,
            _ => continue, // recorded above under "textselection"
        };
        let sel = &sel;
        let m = e - b;
        let tag = format!("sel[{}..{})", b, e);
        for rb in 0..=m + 1 {
            for re in 0..=m + 1 {
                let off = Offset::simple(rb, re);
                o.put("text_by_offset", format!("{} ({},{})", tag, rb, re), || res_str(sel.text_by_offset(&off), |t| format!("{:?}", t)));
                o.put("textselection", format!("{} ({},{})", tag, rb, re), || res_str(sel.textselection(&off), |t| sel_str(&t)));
            }
        }
        o.put("convert", tag.clone(), || {
            tables_str(|p| sel.utf8byte(p), |x| sel.utf8byte_to_charpos(x), n - b + 2, nbytes + 2)
        });
        if let Some(item) = sel.as_resultitem() {
            // the separate impl on ResultItem<TextSelection>; only exists for annotated ranges
            o.put("boundness", format!("{} item", tag), || {
                format!(
                    "{} {:?} {}",
                    tables_str(|p| item.utf8byte(p), |x| item.utf8byte_to_charpos(x), n - b + 2, nbytes + 2),
                    item.text(),
                    res_str(item.text_by_offset(&Offset::whole()), |t| format!("{:?}", t))
                )
            });
        }
        o.put("boundness", tag.clone(), || format!("bound={} annotations={}", sel.as_resultitem().is_some(), sel.annotations().take(CAP).count()));
        for nd in &needles {
            o.put("find_text", format!("{} {:?}", tag, nd), || list(sel.find_text(nd)));
            o.put("find_text_nocase", format!("{} {:?}", tag, nd), || list(sel.find_text_nocase(nd)));
            o.put("split_text", format!("{} {:?}", tag, nd), || list(sel.split_text(nd)));
        }
        for (i, _) in rx.iter().enumerate() {
            o.put("find_text_regex", format!("{} {:?}", tag, RX[i]), || regex_str(sel.find_text_regex(&rx[i..i + 1], None, false)));
        }
        o.put("trim_text", tag.clone(), || res_str(sel.trim_text(&[' ', 'a']), |t| sel_str(&t)));
        for (name, op) in rel_ops() {
            o.put("related_text", format!("{} {}", tag, name), || list(sel.related_text(op)));
        }
        o.put("segmentation", tag.clone(), || list(sel.segmentation()));
        o.put("segmentation", format!("res in_range({},{})", b, e), || list(res.segmentation_in_range(b, e)));
        o.put("positions", format!("{} both", tag), || positions_str(sel.positions(PositionMode::Both)));
        o.put("positions", format!("{} begin", tag), || positions_str(sel.positions(PositionMode::Begin)));
    }
    for a in store.annotations().take(CAP) {
        let a = &a;
        o.put("annotations", format!("{:?}", a.id()), || {
            let texts: Vec<&str> = a.text().take(CAP).collect();
            let sels: Vec<String> = a.textselections().take(CAP).map(|t| format!("{}..{}", t.begin(), t.end())).collect();
            format!("{:?} {:?}", texts, sels)
        });
    }
}

/// the mutating part of the battery: annotate every begin-aligned and end-aligned cursor pair in turn
fn observe_annotate(store: &mut AnnotationStore, text: &str, o: &mut Obs) {
    let n = text.chars().count();
    for mode in 0..2 {
        for b in 0..=n + 1 {
            for e in 0..=n + 1 {
                let (off, id) = if mode == 0 {
                    (Offset::simple(b, e), format!("p{}_{}", b, e))
                } else {
                    (Offset::new(Cursor::EndAligned(-(b as isize)), Cursor::EndAligned(-(e as isize))), format!("q{}_{}", b, e))
                };
                let key = format!("{}", id);
                let st = &mut *store;
                o.put("annotate", key, move || {
                    let r = st.annotate(AnnotationBuilder::new().with_id(id.clone()).with_target(SelectorBuilder::textselector("r", off)));
                    match r {
                        Err(e) => format!("Err({})", variant(&e)),
                        Ok(_) => match st.annotation(id.as_str()) {
                            None => "accepted but not found".to_string(),
                            Some(a) => {
                                let texts: Vec<&str> = a.text().take(CAP).collect();
                                let sels: Vec<String> = a.textselections().take(CAP).map(|t| format!("{}..{}", t.begin(), t.end())).collect();
                                format!("Ok {:?} {:?}", texts, sels)
                            }
                        },
                    }
                });
            }
        }
    }
    let st = &*store;
    o.put("annotate.textselections", "res listing".into(), || match st.resource("r") {
        Some(r) => list(r.textselections()),
        None => "missing".into(),
    });
    o.put("annotate.textselections", "res segmentation".into(), || match st.resource("r") {
        Some(r) => list(r.segmentation()),
        None => "missing".into(),
    });
}

enum StoreObs {
    Built(ObsMap),
    Failed(String),
}

fn observe_cfg(text: &str, known: &[R], cfg: Cfg) -> (StoreObs, u64) {
    let mut o = Obs { kinds: BTreeMap::new(), calls: 0 };
    match build_store(text, known, cfg) {
        Ok(store) => observe(&store, text, &mut o),
        Err((stage, symptom)) => return (StoreObs::Failed(format!("{}:{}", stage, symptom)), 1),
    }
    match build_store(text, known, cfg) {
        Ok(mut store) => observe_annotate(&mut store, text, &mut o),
        Err((stage, symptom)) => return (StoreObs::Failed(format!("{}:{}", stage, symptom)), 1),
    }
    (StoreObs::Built(o.kinds), o.calls)
}

fn all_kinds(a: &ObsMap, b: &ObsMap) -> Vec<&'static str> {
    let mut s: BTreeSet<&'static str> = a.keys().copied().collect();
    s.extend(b.keys().copied());
    s.into_iter().collect()
}

/// does `kind` differ between an observation and its baseline? Returns (symptom, detail) of the first difference.
fn kind_diff(obs: &StoreObs, base: &StoreObs, kind: &str) -> Option<(String, String)> {
    let base = match base {
        StoreObs::Built(m) => m,
        StoreObs::Failed(_) => return None, // nothing to compare with
    };
    match obs {
        StoreObs::Failed(why) => {
            if kind == "setup" {
                Some((format!("failed:{}", why), format!("the store cannot be built under this configuration ({}), but can under the default", why)))
            } else {
                None
            }
        }
        StoreObs::Built(m) => {
            if kind == "setup" {
                return None;
            }
            let empty = Vec::new();
            let (x, y) = (m.get(kind).unwrap_or(&empty), base.get(kind).unwrap_or(&empty));
            if x == y {
                return None;
            }
            for (a, b) in x.iter().zip(y.iter()) {
                if a != b {
                    let symptom = if a.contains("PANIC") && !b.contains("PANIC") {
                        let p = a.split("PANIC ").nth(1).unwrap_or("");
                        format!("panic:{}", p.chars().take(60).collect::<String>())
                    } else {
                        "differs".to_string()
                    };
                    return Some((symptom, format!("this configuration: {{{}}} default configuration: {{{}}}", a, b)));
                }
            }
            Some(("differs".into(), format!("{} observations instead of {}", x.len(), y.len())))
        }
    }
}

struct TextB<'a> {
    text: &'a str,
    empty: &'a HashMap<Cfg, StoreObs>,
}

/// Compare all configurations of one (text, known) store with its baselines; report minimal differing knob sets.
fn compare_b(rep: &Reporter, tb: &TextB, known: &[R], cur: &HashMap<Cfg, StoreObs>, ord: u64, verbose: bool) -> u64 {
    let n = tb.text.chars().count();
    let has_known = !known.is_empty();
    let root = &tb.empty[&DEFAULT];
    let mut comparisons = 0;
    // observation + baseline for a configuration, with or without the annotations
    let lookup = |c: &Cfg, with_known: bool, kind: &str| -> (&StoreObs, &StoreObs) {
        let table = if with_known { cur } else { tb.empty };
        let base = if dependent(kind) { &table[&DEFAULT] } else { root };
        (&table[c], base)
    };
    let mut kinds: Vec<&'static str> = vec!["setup"];
    if let (StoreObs::Built(a), StoreObs::Built(b)) = (root, &cur[&DEFAULT]) {
        kinds.extend(all_kinds(a, b));
    } else if let StoreObs::Built(a) = root {
        kinds.extend(all_kinds(a, a));
    }
    for (ci, c) in cfgs_all().iter().enumerate() {
        for kind in &kinds {
            let (obs, base) = lookup(c, has_known, kind);
            comparisons += 1;
            let (symptom, detail) = match kind_diff(obs, base, kind) {
                Some(d) => d,
                None => continue,
            };
            // changed knobs relative to the baseline of this kind
            let mut knobs: Vec<(&str, String)> = Vec::new();
            if c.interval != DEFAULT.interval {
                knobs.push(("m", format!("milestone_interval:{}", ms_class(c.interval, n))));
            }
            if c.shrink != DEFAULT.shrink {
                knobs.push(("s", "shrink_to_fit".into()));
            }
            if c.json {
                knobs.push(("j", "loaded-from-json".into()));
            }
            if has_known && !dependent(kind) {
                knobs.push(("a", "annotations-exist".into()));
            }
            // minimality: no proper subset of the changed knobs already shows a difference in this kind
            let k = knobs.len();
            let mut minimal = true;
            for mask in 1..(1u32 << k).saturating_sub(1) {
                let on = |tag: &str| knobs.iter().enumerate().any(|(i, kn)| kn.0 == tag && mask & (1 << i) != 0);
                let sub = Cfg {
                    interval: if on("m") { c.interval } else { DEFAULT.interval },
                    shrink: if on("s") { c.shrink } else { DEFAULT.shrink },
                    json: on("j"),
                };
                let with_known = if dependent(kind) { has_known } else { on("a") };
                let (o2, b2) = lookup(&sub, with_known, kind);
                if kind_diff(o2, b2, kind).is_some() {
                    minimal = false;
                    break;
                }
            }
            if !minimal {
                continue;
            }
            let names: Vec<String> = knobs.iter().map(|x| x.1.clone()).collect();
            let sig = format!("knob|{}|{}|{}", kind, names.join("+"), symptom);
            if verbose {
                println!("  FAIL {} :: {}", sig, detail);
            }
            rep.fail(
                &sig,
                (ord * 32 + ci as u64) * 64 + k as u64,
                || format!("text={:?} annotated={:?} {}: observation {:?} changes: {}", tb.text, known, c.show(), kind, detail),
                || json!({"kind": "knob", "text": tb.text, "known": known, "config": c.to_json(), "observation": kind}),
            );
        }
    }
    comparisons
}

fn texts_b(tier: Tier) -> (Vec<String>, usize, Vec<&'static str>) {
    let small = tier.pick(2, 3);
    let mut texts = texts_over(&WIDTHS, small);
    let menu: Vec<&'static str> = match tier {
        Tier::Quick => vec!["a\u{e9} \u{1d11e}", "aA \u{130}", " \u{1e9e}a "],
        Tier::Thorough => vec![
            "aA \u{130}",
            " \u{1e9e}a ",
            "a\u{e9} \u{1d11e}d",
            " \u{e9}\u{1d11e} x",
            "a b  c",
            "\u{130}\u{1e9e}\u{1d11e}\u{e9}aA",
        ],
    };
    for m in &menu {
        if !texts.iter().any(|t| t == m) {
            texts.push(m.to_string());
        }
    }
    (texts, small, menu)
}

fn run_b(rep: &Reporter, cov: &mut Coverage) -> Value {
    let t0 = rep.elapsed();
    let (texts, small, menu) = texts_b(rep.tier);
    let cfgs = cfgs_all();
    let stores = AtomicU64::new(0);
    let calls = AtomicU64::new(0);
    let comparisons = AtomicU64::new(0);
    let skipped = AtomicU64::new(0);
    let nontrivial = AtomicU64::new(0);
    texts.par_iter().enumerate().for_each(|(ti, text)| {
        let n = text.chars().count();
        let mut empty: HashMap<Cfg, StoreObs> = HashMap::new();
        for c in &cfgs {
            let (o, k) = observe_cfg(text, &[], *c);
            calls.fetch_add(k, Ordering::Relaxed);
            stores.fetch_add(2, Ordering::Relaxed);
            empty.insert(*c, o);
        }
        if let StoreObs::Failed(_) = empty[&DEFAULT] {
            skipped.fetch_add(1, Ordering::Relaxed);
            return;
        }
        let tb = TextB { text, empty: &empty };
        let k = compare_b(rep, &tb, &[], &empty, (n as u64) << 24 | (ti as u64 & 0xfff) << 12, false);
        comparisons.fetch_add(k, Ordering::Relaxed);
        let subs = known_subsets(n, 2);
        subs.par_iter().enumerate().skip(1).for_each(|(si, known)| {
            let mut cur: HashMap<Cfg, StoreObs> = HashMap::new();
            for c in &cfgs {
                let (o, k) = observe_cfg(text, known, *c);
                calls.fetch_add(k, Ordering::Relaxed);
                stores.fetch_add(2, Ordering::Relaxed);
                cur.insert(*c, o);
            }
            let ord = ((n as u64) << 24 | (ti as u64 & 0xfff) << 12) + (known.len() as u64) * 1024 + (si as u64 & 1023);
            let k = compare_b(rep, &tb, known, &cur, ord, false);
            comparisons.fetch_add(k, Ordering::Relaxed);
            if text.len() > n {
                nontrivial.fetch_add(cfgs.len() as u64, Ordering::Relaxed);
            }
        });
    });
    let st = stores.load(Ordering::Relaxed);
    cov.states += st / 2;
    cov.transitions += calls.load(Ordering::Relaxed);
    cov.distinct_nontrivial += nontrivial.load(Ordering::Relaxed);
    cov.samples.push(json!({"kind": "knob", "text": "a\u{e9} \u{1d11e}", "known": [[0, 2], [1, 4]], "config": Cfg { interval: 2, shrink: false, json: true }.to_json(),
        "observation": "every kind of the battery, compared with the default configuration"}));
    eprintln!("C12 B: {} texts, {} stores, {} calls, {:.1}s", texts.len(), st, calls.load(Ordering::Relaxed), rep.elapsed() - t0);
    json!({
        "sweep": "B differential battery",
        "texts": format!("all texts over one letter per UTF-8 width with at most {} codepoints, plus the menu", small),
        "menu": menu, "texts_total": texts.len(), "texts_skipped_because_the_default_store_cannot_be_built": skipped.load(Ordering::Relaxed),
        "annotated_range_sets": "every set of at most two ranges of the text",
        "configurations": "6 milestone intervals x shrink_to_fit on/off x {built directly, loaded from STAM JSON} = 24",
        "observation_kinds": ["text_by_offset", "textselection", "convert", "find_text", "find_text_nocase", "split_text", "find_text_regex", "trim_text",
            "annotate", "textselections", "segmentation", "related_text", "positions", "annotations", "boundness", "annotate.textselections"],
        "stores_built": st, "library_calls": calls.load(Ordering::Relaxed), "kind_comparisons": comparisons.load(Ordering::Relaxed),
        "wall_s": ((rep.elapsed() - t0) * 10.0).round() / 10.0,
    })
}

// ------------------------------------------------------------------------------------------------
// sweep C: knobs over operation histories

struct HistKnobs {
    replays: AtomicU64,
    loads: AtomicU64,
    states: AtomicU64,
}

/// shortest resource text of the history alphabet (hist::R1) has 4 codepoints: intervals 2 and 3 place milestones
const HIST_TEXTLEN: usize = 4;

fn replay_cfg(history: &[Op], config: Config) -> (AnnotationStore, Vec<Outcome>) {
    let mut store = AnnotationStore::new(config);
    let mut outs = Vec::with_capacity(history.len());
    for op in history {
        outs.push(apply_real(&mut store, op));
    }
    (store, outs)
}

/// abstract content + the text every annotation selects + the text selections of every resource
fn hist_obs(store: &AnnotationStore) -> Result<Vec<(String, String)>, String> {
    catch(|| {
        let mut v = ser_abstract(store, true, true);
        for a in store.annotations() {
            let texts: Vec<&str> = a.text().take(CAP).collect();
            v.push(("text".into(), format!("{:?} {:?}", a.id(), texts)));
        }
        for r in store.resources() {
            v.push(("textselections".into(), format!("{:?} {}", r.id(), list(r.textselections()))));
        }
        v
    })
    .map_err(|p| panic_class(&p))
}

fn obs_diff(a: &[(String, String)], b: &[(String, String)]) -> Option<(String, String)> {
    if let Some(d) = diff_ser(a, b) {
        return Some(d);
    }
    for section in ["text", "textselections"] {
        let x: Vec<&String> = a.iter().filter(|p| p.0 == section).map(|p| &p.1).collect();
        let y: Vec<&String> = b.iter().filter(|p| p.0 == section).map(|p| &p.1).collect();
        if x != y {
            let d = x.iter().zip(y.iter()).find(|(p, q)| p != q).map(|(p, q)| format!("default: {} this configuration: {}", p, q)).unwrap_or_else(|| format!("{} lines instead of {}", y.len(), x.len()));
            return Some((section.to_string(), d));
        }
    }
    None
}

/// All knob comparisons for one history. Returns (replays, loads).
fn check_history(rep: &Reporter, hist: &[Op], ord: u64, verbose: bool) -> (u64, u64) {
    let (mut replays, mut loads) = (0, 0);
    let (store0, outs0) = replay_cfg(hist, Config::default());
    replays += 1;
    let base = hist_obs(&store0);
    let fail = |path: &str, knobs: String, symptom: String, detail: String, cfg: Cfg| {
        let sig = format!("hist|{}|{}|{}", path, knobs, symptom);
        if verbose {
            println!("  FAIL {} :: {}", sig, detail);
        }
        rep.fail(
            &sig,
            ord,
            || format!("history [{}] {}: {}", hist.iter().map(|o| o.short()).collect::<Vec<_>>().join("; "), cfg.show(), detail),
            || json!({"kind": "hist", "history": history_json(hist, None), "config": cfg.to_json()}),
        );
    };
    for interval in INTERVALS {
        if interval == DEFAULT.interval {
            continue;
        }
        let cfg = Cfg { interval, shrink: true, json: false };
        let knobs = format!("milestone_interval:{}", ms_class(interval, HIST_TEXTLEN));
        let (store, outs) = replay_cfg(hist, cfg.config());
        replays += 1;
        if let Some(i) = (0..hist.len()).find(|i| outs[*i].class() != outs0[*i].class()) {
            fail(
                "direct",
                knobs.clone(),
                format!("outcome-differs:{}:{}", hist[i].kind(), if outs0[i].is_ok() { "ok->failure" } else if outs[i].is_ok() { "failure->ok" } else { "failure->failure" }),
                format!("operation {} ({}) gives {} under the default configuration but {} here", i, hist[i].short(), outs0[i].class(), outs[i].class()),
                cfg,
            );
            continue;
        }
        match (&base, hist_obs(&store)) {
            (Ok(a), Ok(b)) => {
                if let Some((section, detail)) = obs_diff(a, &b) {
                    fail("direct", knobs, format!("observation-differs@{}", section), detail, cfg);
                }
            }
            (Ok(_), Err(p)) => fail("direct", knobs, format!("observation-panic:{}", p), "observing the store panicked, but not under the default configuration".into(), cfg),
            (Err(_), _) => {}
        }
    }
    // the JSON document of the default store, loaded under every configuration
    let doc = match catch(|| store0.to_json_string(&Config::default())) {
        Ok(Ok(d)) => d,
        _ => return (replays, loads), // serialisation failures are C05's subject
    };
    let load = |cfg: Cfg| -> Result<Vec<(String, String)>, String> {
        match catch(|| AnnotationStore::from_str(&doc, cfg.config())) {
            Ok(Ok(s)) => hist_obs(&s).map_err(|p| format!("observation-panic:{}", p)),
            Ok(Err(e)) => Err(format!("load-err:{}", variant(&e))),
            Err(p) => Err(format!("load-panic:{}", panic_class(&p))),
        }
    };
    let base_load = load(DEFAULT);
    loads += 1;
    for interval in INTERVALS {
        for shrink in [true, false] {
            let cfg = Cfg { interval, shrink, json: true };
            if interval == DEFAULT.interval && shrink == DEFAULT.shrink {
                continue;
            }
            let mut names = Vec::new();
            if interval != DEFAULT.interval {
                names.push(format!("milestone_interval:{}", ms_class(interval, HIST_TEXTLEN)));
            }
            if !shrink {
                names.push("shrink_to_fit".to_string());
            }
            let knobs = names.join("+");
            let got = load(cfg);
            loads += 1;
            match (&base_load, &got) {
                (Ok(a), Ok(b)) => {
                    if let Some((section, detail)) = obs_diff(a, b) {
                        fail("json", knobs, format!("observation-differs@{}", section), detail, cfg);
                    }
                }
                (Ok(_), Err(e)) => fail("json", knobs, format!("default-loads-but:{}", e), format!("the document loads under the default configuration but here: {}", e), cfg),
                (Err(e), Ok(_)) => fail("json", knobs, format!("loads-but-default:{}", e), format!("the document loads here but under the default configuration: {}", e), cfg),
                (Err(a), Err(b)) => {
                    if a != b {
                        fail("json", knobs, format!("failure-differs:{}", b), format!("default configuration: {} here: {}", a, b), cfg);
                    }
                }
            }
        }
    }
    (replays, loads)
}

impl Oracle for HistKnobs {
    fn transition(&self, rep: &Reporter, t: &Trans) -> bool {
        if !t.new_state {
            return true;
        }
        let mut hist = t.hist.to_vec();
        hist.push(t.op.clone());
        let (r, l) = check_history(rep, &hist, (1 << 62) | t.ord, false);
        self.replays.fetch_add(r, Ordering::Relaxed);
        self.loads.fetch_add(l, Ordering::Relaxed);
        self.states.fetch_add(1, Ordering::Relaxed);
        true
    }
    fn needs_conformance(&self) -> bool {
        false
    }
}

fn run_c(rep: &Reporter, cov: &mut Coverage) -> (Value, bool) {
    let t0 = rep.elapsed();
    let oracle = HistKnobs { replays: AtomicU64::new(0), loads: AtomicU64::new(0), states: AtomicU64::new(0) };
    let mut runs = Vec::new();
    let mut exhaustive = true;
    let budget = rep.elapsed() + rep.tier.pick(12.0, 600.0);
    for mut plan in plans(rep.tier) {
        plan.depth -= 1; // 6 replays and 12 document loads per state
        let stats = explore(rep, &oracle, &plan.init, &plan.al, plan.depth, budget);
        cov.states += stats.states;
        cov.transitions += stats.transitions;
        cov.distinct_nontrivial += stats.nontrivial_states;
        exhaustive &= stats.completed_depth == plan.depth;
        for h in stats.sample_histories.iter().take(1) {
            cov.samples.push(json!({"kind": "hist", "history": h, "then": "replayed under milestone intervals 0,1,2,3,7; JSON document loaded under all 12 (interval, shrink_to_fit) pairs"}));
        }
        runs.push(json!({"exploration": plan.name, "depth_requested": plan.depth, "depth_completed": stats.completed_depth,
            "new_states_per_depth": stats.depth_hist, "transitions": stats.transitions}));
    }
    let (r, l) = (oracle.replays.load(Ordering::Relaxed), oracle.loads.load(Ordering::Relaxed));
    cov.transitions += r + l;
    eprintln!("C12 C: {} states checked, {} replays, {} loads, {:.1}s", oracle.states.load(Ordering::Relaxed), r, l, rep.elapsed() - t0);
    (
        json!({"sweep": "C knobs over histories", "explorations": runs, "states_checked": oracle.states.load(Ordering::Relaxed),
            "history_replays_under_a_configuration": r, "document_loads_under_a_configuration": l,
            "wall_s": ((rep.elapsed() - t0) * 10.0).round() / 10.0}),
        exhaustive,
    )
}

// ------------------------------------------------------------------------------------------------

/// D: resources that are not (yet) part of a store, made by every public constructor: the conversions and the text
/// length must already be exact on them, under every milestone interval
fn run_d(rep: &Reporter, cov: &mut Coverage) -> Value {
    let texts = ["", "a", "\u{e9}", "a\u{e9}\u{20ac}\u{1d11e}b", "\u{1d11e}\u{1d11e}", "ab\u{e9}"];
    let intervals = [0usize, 1, 2, 3, 7, 100];
    let dir = crate::util::work_dir("c12d");
    let _ = std::fs::create_dir_all(&dir);
    let mut n = 0u64;
    let mut calls = 0u64;
    for (ti, text) in texts.iter().enumerate() {
        let txt = format!("{}/t{}.txt", dir, ti);
        std::fs::write(&txt, text).expect("write text file");
        let jsonfile = format!("{}/t{}.json", dir, ti);
        std::fs::write(&jsonfile, format!("{{\"@type\":\"TextResource\",\"@id\":\"t{}\",\"text\":{}}}", ti, serde_json::to_string(text).unwrap())).expect("write json file");
        for interval in intervals {
            let cfg = || Config::default().with_milestone_interval(interval);
            let makers: Vec<(&str, Box<dyn Fn() -> Result<TextResource, StamError>>)> = vec![
                ("from_string", Box::new(|| Ok(TextResource::from_string("t", text.to_string(), cfg())))),
                ("new+with_string", Box::new(|| Ok(TextResource::new("t", cfg()).with_string(text.to_string())))),
                ("from_file(txt)", Box::new(|| TextResource::from_file(&txt, cfg()))),
                ("from_file(json)", Box::new(|| TextResource::from_file(&jsonfile, cfg()))),
            ];
            for (mname, make) in makers {
                n += 1;
                let case = || json!({"standalone": {"text": text, "interval": interval, "constructor": mname}});
                let fail = |symptom: String, detail: String| {
                    rep.fail(&format!("standalone|{}|{}|multibyte={}", mname, symptom, text.len() != text.chars().count()), (ti * 100 + interval) as u64, || format!("text={:?} interval={} via {}: {}", text, interval, mname, detail), case);
                };
                let res = match catch(|| make()) {
                    Ok(Ok(r)) => r,
                    Ok(Err(e)) => {
                        if !text.is_empty() {
                            fail(format!("constructor-err:{}", msg_class(&format!("{}", e))), format!("{}", e));
                        }
                        continue;
                    }
                    Err(p) => {
                        fail(format!("constructor-panic:{}", msg_class(&p)), p.clone());
                        continue;
                    }
                };
                let chars: Vec<(usize, char)> = text.char_indices().collect();
                let len = chars.len();
                calls += 1;
                if res.textlen() != len {
                    fail("textlen".into(), format!("textlen() = {}, the text has {} codepoints", res.textlen(), len));
                }
                if res.text() != *text {
                    fail("text".into(), format!("text() = {:?}", res.text()));
                }
                for p in 0..=len + 2 {
                    calls += 1;
                    let want = if p < len { Some(chars[p].0) } else if p == len { Some(text.len()) } else { None };
                    match catch(|| res.utf8byte(p)) {
                        Ok(Ok(b)) if Some(b) == want => {}
                        Ok(Err(_)) if want.is_none() => {}
                        Ok(r) => fail(format!("utf8byte:{}", if p > len { "beyond" } else if p == len { "at-end" } else { "inside" }), format!("utf8byte({}) = {:?}, expected {:?}", p, r.map_err(|e| format!("{}", e)), want)),
                        Err(m) => fail(format!("utf8byte:panic:{}", msg_class(&m)), format!("utf8byte({}) panicked", p)),
                    }
                }
                for x in 0..=text.len() + 2 {
                    calls += 1;
                    let want = if x == text.len() { Some(len) } else { chars.iter().position(|(b, _)| *b == x) };
                    match catch(|| res.utf8byte_to_charpos(x)) {
                        Ok(Ok(c)) if Some(c) == want => {}
                        Ok(Err(_)) if want.is_none() => {}
                        Ok(r) => fail(format!("utf8byte_to_charpos:{}", if x > text.len() { "beyond" } else if x == text.len() { "at-end" } else if want.is_none() { "inside-codepoint" } else { "boundary" }), format!("utf8byte_to_charpos({}) = {:?}, expected {:?}", x, r.map_err(|e| format!("{}", e)), want)),
                        Err(m) => fail(format!("utf8byte_to_charpos:panic:{}", msg_class(&m)), format!("utf8byte_to_charpos({}) panicked", x)),
                    }
                }
                // end-aligned and whole offsets resolve against the cached length
                for (oname, off, b, e) in [("whole", Offset::whole(), 0usize, len), ("last", Offset::new(Cursor::EndAligned(-(len.min(1) as isize)), Cursor::EndAligned(0)), len - len.min(1), len)] {
                    calls += 1;
                    let want: String = text.chars().skip(b).take(e - b).collect();
                    match catch(|| res.text_by_offset(&off).map(|t| t.to_string())) {
                        Ok(Ok(t)) if t == want => {}
                        Ok(r) => fail(format!("text_by_offset:{}", oname), format!("text_by_offset({}) = {:?}, expected {:?}", oname, r.map_err(|e| format!("{}", e)), want)),
                        Err(m) => fail(format!("text_by_offset:panic:{}", msg_class(&m)), format!("text_by_offset({}) panicked", oname)),
                    }
                }
            }
        }
    }
    let _ = std::fs::remove_dir_all(&dir);
    cov.states += n;
    cov.transitions += calls;
    json!({"sweep": "D", "standalone_resources": n, "texts": texts, "milestone_intervals": intervals, "constructors": ["from_string", "new+with_string", "from_file(txt)", "from_file(json)"]})
}

pub fn run(rep: &Reporter) -> Coverage {
    let mut cov = Coverage::default();
    let mut space = run_a(rep, &mut cov);
    space.push(run_b(rep, &mut cov));
    let (c, exhaustive) = run_c(rep, &mut cov);
    space.push(c);
    space.push(run_d(rep, &mut cov));
    cov.traces_validated = cov.states;
    cov.evaluations = cov.transitions;
    cov.exhaustive = exhaustive;
    cov.rule = "A: every (text, set of annotated ranges, milestone interval, shrink_to_fit, receiver) with receiver = the resource, every sub-selection [b,e) and the ResultItem<TextSelection> of every annotated range; on each, utf8byte(p) for every p up to two past the end of the resource and utf8byte_to_charpos(x) for every byte x up to two past the end, compared with counting char_indices, Err required beyond the receiver's text and inside a codepoint, both round trips on the valid domain. B: every (text, set of annotated ranges) x 24 configurations; the observation battery must equal the one under the default configuration (annotation-independent kinds: of the store without annotations). C: every distinct state of the history exploration replayed under 5 other intervals and its JSON document loaded under 11 other (interval, shrink) pairs. D: resources outside any store made by each public constructor (from_string, new+with_string, from_file of a text file and of a STAM JSON file) x 6 texts x 6 intervals: textlen, text, utf8byte and utf8byte_to_charpos at every position up to two past the end, whole and last-codepoint offsets. states = receivers (A) + stores (B) + history states (C); transitions = library calls; non-trivial = (A) receivers of a text with a multi-byte codepoint whose resource has milestones or annotated positions in the index, (B) annotated stores over a text with a multi-byte codepoint, (C) states with a removed and a live annotation".into();
    cov.extra.insert("space".into(), Value::Array(space));
    cov.assumptions = vec![
        "a position or byte offset beyond the end of a sub-selection counts as beyond the text of that receiver (the conversion functions on selections are documented as relative to the selection): Err is required; such cases carry the position class beyond-selection so that they can be told apart from positions beyond the resource".into(),
        "in sweep A shrink_to_fit on means: flag set in the configuration and AnnotationStore::shrink_to_fit(true) called after building (the flag itself is only read by the loaders); sweeps B and C exercise the flag through from_str".into(),
        "sweep A is a union of layers (alphabet, maximal length, maximal number of annotated ranges), each enumerated completely: the full 7-letter alphabet reaches the maximal length without annotations and shorter lengths with one and two annotated ranges; alphabets with one letter per UTF-8 width reach longer lengths with one and two annotated ranges (the conversion code looks at byte widths only, but this is not relied upon: it only decides which layers are affordable); the exact bounds and counts of every layer are listed under space; the reporter's per-signature case count for sweep A counts layers, the number of failing probes per signature is in sweep_A_failing_probes_per_signature".into(),
        "sweep B and C are differential: behaviour that is wrong under every configuration alike is the subject of C04/C05/C06/C07, not of this check".into(),
        "PositionMode::Both is documented as positions where a text selection begins or ends; the positions observation therefore must not change with the milestone interval".into(),
    ];
    cov
}

fn known_from(v: &Value) -> Vec<R> {
    v.as_array()
        .map(|a| a.iter().map(|p| (p[0].as_u64().unwrap_or(0) as usize, p[1].as_u64().unwrap_or(0) as usize)).collect())
        .unwrap_or_default()
}

/// Re-execute one recorded case without the sweep.
pub fn replay(rep: &Reporter, case: &Value) {
    if case.get("standalone").is_some() {
        println!("replay C12 standalone resources: {}", case["standalone"]);
        let mut cov = Coverage::default();
        run_d(rep, &mut cov);
        return;
    }
    let kind = case["kind"].as_str().unwrap_or("");
    let cfg = Cfg::from_json(&case["config"]);
    match kind {
        "conv" => {
            let text = case["text"].as_str().unwrap_or("").to_string();
            let known = known_from(&case["known"]);
            let recv = case["receiver"].as_str().unwrap_or("resource").to_string();
            let r = (case["range"][0].as_u64().unwrap_or(0) as usize, case["range"][1].as_u64().unwrap_or(0) as usize);
            let cb = boundaries(&text);
            println!("replay C12 conversion: text={:?} annotated={:?} {} receiver={} [{}..{})", text, known, cfg.show(), recv, r.0, r.1);
            println!("  byte offset of every codepoint position by counting: {:?}", cb);
            let ctx = ACtx { text: &text, cb: &cb, known: &known, cfg, ord: 0, verbose: true };
            let mut agg = Agg::default();
            check_store_a(rep, &mut agg, &ctx, Some((recv.as_str(), r)));
            agg.flush(rep, true);
        }
        "knob" => {
            let text = case["text"].as_str().unwrap_or("").to_string();
            let known = known_from(&case["known"]);
            println!("replay C12 knobs: text={:?} annotated={:?}; all 24 configurations against the default (recorded: {} / {})", text, known, cfg.show(), case["observation"]);
            let cfgs = cfgs_all();
            let mut empty: HashMap<Cfg, StoreObs> = HashMap::new();
            for c in &cfgs {
                empty.insert(*c, observe_cfg(&text, &[], *c).0);
            }
            let tb = TextB { text: &text, empty: &empty };
            if known.is_empty() {
                compare_b(rep, &tb, &[], &empty, 0, true);
            } else {
                let mut cur: HashMap<Cfg, StoreObs> = HashMap::new();
                for c in &cfgs {
                    cur.insert(*c, observe_cfg(&text, &known, *c).0);
                }
                compare_b(rep, &tb, &known, &cur, 0, true);
            }
        }
        "hist" => {
            let hist = history_from_json(&case["history"]);
            println!("replay C12 history under every configuration (recorded: {}):", cfg.show());
            for o in &hist {
                println!("   {}", o.short());
            }
            let (r, l) = check_history(rep, &hist, 0, true);
            println!("  {} replays, {} document loads compared with the default configuration", r, l);
        }
        _ => println!("replay C12: unknown case kind {:?}", kind),
    }
}
