//! C13 — text-selection relations have their documented algebraic meaning.
//!
//! Bounded-exhaustive enumeration: all ordered pairs of ranges and all ordered pairs of small sets of
//! ranges over a short text, every relation and every modifier combination, through every receiver
//! (`ResultTextSelection::test/test_set`, `ResultTextSelectionSet::test/test_set`,
//! `ResultItem<Annotation>::test`), against interval-arithmetic definitions and the algebraic laws.

use crate::report::{Coverage, Reporter, Tier};
use crate::util::{all_ranges, catch, char_slice, msg_class, order_type};
use rayon::prelude::*;
use serde_json::{json, Value};
use stam::*;
use std::sync::atomic::{AtomicU64, Ordering};

type R = (usize, usize);

#[derive(Clone, Copy, Debug, PartialEq, Eq)]
pub enum Rel {
    Equals,
    Overlaps,
    Embeds,
    Embedded,
    Before,
    After,
    Precedes,
    Succeeds,
    SameBegin,
    SameEnd,
    InSet,
    SameRange,
}

pub const RELS: [Rel; 12] = [
    Rel::Equals,
    Rel::Overlaps,
    Rel::Embeds,
    Rel::Embedded,
    Rel::Before,
    Rel::After,
    Rel::Precedes,
    Rel::Succeeds,
    Rel::SameBegin,
    Rel::SameEnd,
    Rel::InSet,
    Rel::SameRange,
];

#[derive(Clone, Copy, Debug, PartialEq, Eq)]
pub struct OpSpec {
    pub rel: Rel,
    pub all: bool,
    pub negate: bool,
    pub limit: Option<usize>,
    pub ws: bool,
}

impl OpSpec {
    pub fn to_op(&self) -> TextSelectionOperator {
        let (all, negate) = (self.all, self.negate);
        match self.rel {
            Rel::Equals => TextSelectionOperator::Equals { all, negate },
            Rel::Overlaps => TextSelectionOperator::Overlaps { all, negate },
            Rel::Embeds => TextSelectionOperator::Embeds { all, negate },
            Rel::Embedded => TextSelectionOperator::Embedded { all, negate, limit: self.limit },
            Rel::Before => TextSelectionOperator::Before { all, negate, limit: self.limit },
            Rel::After => TextSelectionOperator::After { all, negate, limit: self.limit },
            Rel::Precedes => TextSelectionOperator::Precedes { all, negate, allow_whitespace: self.ws },
            Rel::Succeeds => TextSelectionOperator::Succeeds { all, negate, allow_whitespace: self.ws },
            Rel::SameBegin => TextSelectionOperator::SameBegin { all, negate },
            Rel::SameEnd => TextSelectionOperator::SameEnd { all, negate },
            Rel::InSet => TextSelectionOperator::InSet { all, negate },
            Rel::SameRange => TextSelectionOperator::SameRange { all, negate },
        }
    }
    pub fn name(&self) -> String {
        let mut s = format!("{:?}", self.rel);
        if self.all {
            s.push_str("+all");
        }
        if self.negate {
            s.push_str("+neg");
        }
        if let Some(l) = self.limit {
            s.push_str(&format!("+lim{}", l));
        }
        if self.ws {
            s.push_str("+ws");
        }
        s
    }
    pub fn with_rel(&self, rel: Rel) -> OpSpec {
        OpSpec { rel, ..*self }
    }
    pub fn positive(&self) -> OpSpec {
        OpSpec { negate: false, ..*self }
    }
    pub fn to_json(&self) -> Value {
        json!({"rel": format!("{:?}", self.rel), "all": self.all, "negate": self.negate, "limit": self.limit, "ws": self.ws})
    }
    pub fn from_json(v: &Value) -> Option<OpSpec> {
        let name = v["rel"].as_str()?;
        let rel = *RELS.iter().find(|r| format!("{:?}", r) == name)?;
        Some(OpSpec {
            rel,
            all: v["all"].as_bool()?,
            negate: v["negate"].as_bool()?,
            limit: v["limit"].as_u64().map(|x| x as usize),
            ws: v["ws"].as_bool()?,
        })
    }
}

/// every operator variant: relation x all x negate x limit (where the relation has one) x whitespace (where it has one)
pub fn all_ops(limits: &[Option<usize>]) -> Vec<OpSpec> {
    let mut v = Vec::new();
    for rel in RELS {
        for all in [false, true] {
            for negate in [false, true] {
                let lims: Vec<Option<usize>> = match rel {
                    Rel::Embedded | Rel::Before | Rel::After => limits.to_vec(),
                    _ => vec![None],
                };
                let wss: Vec<bool> = match rel {
                    Rel::Precedes | Rel::Succeeds => vec![false, true],
                    _ => vec![false],
                };
                for limit in &lims {
                    for ws in &wss {
                        v.push(OpSpec { rel, all, negate, limit: *limit, ws: *ws });
                    }
                }
            }
        }
    }
    v
}

fn gap_ws(text: &str, from: usize, to: usize) -> bool {
    // requires from <= to
    char_slice(text, from, to).chars().all(|c| c.is_whitespace())
}

/// Interval-arithmetic definition of the positive pair relation. `None` = not defined by the documentation.
pub fn pair_def(op: &OpSpec, a: R, b: R, text: &str) -> Option<bool> {
    let v = match op.rel {
        Rel::Equals | Rel::InSet | Rel::SameRange => a == b,
        Rel::Overlaps => {
            if a.0 == a.1 || b.0 == b.1 {
                return None; // overlap with an empty range is not defined by the documentation: laws only
            }
            a.0 < b.1 && b.0 < a.1
        }
        Rel::Embeds => a.0 <= b.0 && b.1 <= a.1,
        Rel::Embedded => {
            let base = b.0 <= a.0 && a.1 <= b.1;
            match op.limit {
                Some(l) => base && a.0 - b.0 <= l && b.1 - a.1 <= l,
                None => base,
            }
        }
        Rel::Before => {
            let base = a.1 <= b.0;
            match op.limit {
                Some(l) => base && b.0 - a.1 <= l,
                None => base,
            }
        }
        Rel::After => {
            let base = a.0 >= b.1;
            match op.limit {
                Some(l) => base && a.0 - b.1 <= l,
                None => base,
            }
        }
        Rel::Precedes => {
            if op.ws {
                a.1 <= b.0 && gap_ws(text, a.1, b.0)
            } else {
                a.1 == b.0
            }
        }
        Rel::Succeeds => {
            if op.ws {
                b.1 <= a.0 && gap_ws(text, b.1, a.0)
            } else {
                b.1 == a.0
            }
        }
        Rel::SameBegin => a.0 == b.0,
        Rel::SameEnd => a.1 == b.1,
    };
    Some(v)
}

fn leftmost(s: &[R]) -> R {
    *s.iter().min_by_key(|r| r.0).unwrap()
}
fn rightmost(s: &[R]) -> R {
    *s.iter().max_by_key(|r| r.1).unwrap()
}

/// The documented meaning of a relation between two non-empty sets (receiver A, argument B), for the
/// positive operator. `None` = the documentation does not define it (only "must not panic" is required).
pub fn set_def(op: &OpSpec, a: &[R], b: &[R], text: &str) -> Option<bool> {
    debug_assert!(!op.negate);
    if a.len() == 1 && b.len() == 1 {
        return pair_def(op, a[0], b[0], text);
    }
    let pair = |x: R, y: R| pair_def(op, x, y, text);
    let forall_exists = |xs: &[R], ys: &[R], f: &dyn Fn(R, R) -> Option<bool>| -> Option<bool> {
        let mut res = true;
        for x in xs {
            let mut any = false;
            for y in ys {
                any |= f(*x, *y)?;
            }
            res &= any;
        }
        Some(res)
    };
    let forall_forall = |xs: &[R], ys: &[R], f: &dyn Fn(R, R) -> Option<bool>| -> Option<bool> {
        let mut res = true;
        for x in xs {
            for y in ys {
                res &= f(*x, *y)?;
            }
        }
        Some(res)
    };
    if !op.all {
        match op.rel {
            Rel::Equals => {
                // "Both sets cover the exact same TextSelections, and all are covered"
                let mut x = a.to_vec();
                let mut y = b.to_vec();
                x.sort();
                x.dedup();
                y.sort();
                y.dedup();
                Some(x == y)
            }
            Rel::InSet => forall_exists(a, b, &|x, y| Some(x == y)),
            // "All TextSelections in B are embedded by a TextSelection in A"
            Rel::Embeds => forall_exists(b, a, &|y, x| pair(x, y)),
            Rel::SameRange => Some(
                leftmost(a).0 == leftmost(b).0 && rightmost(a).1 == rightmost(b).1,
            ),
            _ => forall_exists(a, b, &|x, y| pair(x, y)),
        }
    } else {
        match op.rel {
            Rel::Equals | Rel::InSet => None,
            Rel::Overlaps | Rel::Embeds => forall_forall(a, b, &|x, y| pair(x, y)),
            Rel::Embedded | Rel::Before | Rel::After => {
                if op.limit.is_some() && (a.len() > 1 || b.len() > 1) {
                    // the documentation does not say how a limit combines with the `all` quantifier
                    None
                } else {
                    forall_forall(a, b, &|x, y| pair(x, y))
                }
            }
            Rel::Precedes => {
                let (r, l) = (rightmost(a).1, leftmost(b).0);
                Some(if op.ws { r <= l && gap_ws(text, r, l) } else { r == l })
            }
            Rel::Succeeds => {
                let (l, r) = (leftmost(a).0, rightmost(b).1);
                Some(if op.ws { r <= l && gap_ws(text, r, l) } else { r == l })
            }
            Rel::SameBegin => Some(leftmost(a).0 == leftmost(b).0),
            Rel::SameEnd => Some(rightmost(a).1 == rightmost(b).1),
            Rel::SameRange => Some(
                leftmost(a).0 == leftmost(b).0 && rightmost(a).1 == rightmost(b).1,
            ),
        }
    }
}

#[derive(Clone, Copy, Debug, PartialEq, Eq)]
pub enum Recv {
    Pair,   // ResultTextSelection::test
    SelSet, // ResultTextSelection::test_set
    SetSel, // ResultTextSelectionSet::test
    SetSet, // ResultTextSelectionSet::test_set
    Ann,    // ResultItem<Annotation>::test
}

pub struct Ctx<'s> {
    pub text: String,
    pub store: &'s AnnotationStore,
    pub ranges: Vec<R>,
    pub sels: Vec<ResultTextSelection<'s>>,
    pub sets: Vec<Vec<R>>,
    pub rsets: Vec<ResultTextSelectionSet<'s>>,
}

fn build_store(text: &str) -> AnnotationStore {
    let mut store = AnnotationStore::default();
    store
        .add_resource(TextResourceBuilder::new().with_id("r").with_text(text))
        .expect("add_resource");
    store
}

fn sel<'s>(store: &'s AnnotationStore, r: R) -> ResultTextSelection<'s> {
    store
        .resource("r")
        .unwrap()
        .textselection(&Offset::simple(r.0, r.1))
        .expect("range must be valid")
}

fn subsets(ranges: &[R], maxsize: usize, nonempty_only: bool) -> Vec<Vec<R>> {
    let pool: Vec<R> = ranges
        .iter()
        .copied()
        .filter(|r| !nonempty_only || r.0 < r.1)
        .collect();
    let mut out: Vec<Vec<R>> = Vec::new();
    for i in 0..pool.len() {
        out.push(vec![pool[i]]);
    }
    if maxsize >= 2 {
        for i in 0..pool.len() {
            for j in i + 1..pool.len() {
                out.push(vec![pool[i], pool[j]]);
            }
        }
    }
    if maxsize >= 3 {
        for i in 0..pool.len() {
            for j in i + 1..pool.len() {
                for k in j + 1..pool.len() {
                    out.push(vec![pool[i], pool[j], pool[k]]);
                }
            }
        }
    }
    out
}

fn eval_pair(a: &ResultTextSelection, b: &ResultTextSelection, op: &OpSpec) -> Result<bool, String> {
    let o = op.to_op();
    catch(|| a.test(&o, b)).map_err(|m| msg_class(&m))
}
fn eval_selset(a: &ResultTextSelection, b: &ResultTextSelectionSet, op: &OpSpec) -> Result<bool, String> {
    let o = op.to_op();
    catch(|| a.test_set(&o, b)).map_err(|m| msg_class(&m))
}
fn eval_setsel(a: &ResultTextSelectionSet, b: &ResultTextSelection, op: &OpSpec) -> Result<bool, String> {
    let o = op.to_op();
    catch(|| a.test(&o, b)).map_err(|m| msg_class(&m))
}
fn eval_setset(a: &ResultTextSelectionSet, b: &ResultTextSelectionSet, op: &OpSpec) -> Result<bool, String> {
    let o = op.to_op();
    catch(|| a.test_set(&o, b)).map_err(|m| msg_class(&m))
}

fn fmt_res(r: &Result<bool, String>) -> String {
    match r {
        Ok(b) => format!("{}", b),
        Err(m) => format!("panic({})", m),
    }
}

fn case_json(kind: &str, text: &str, a: &[R], b: &[R], op: &OpSpec) -> Value {
    json!({"kind": kind, "text": text, "a": a, "b": b, "op": op.to_json()})
}

fn ot(a: R, b: R) -> String {
    order_type(&[a.0 as i64, a.1 as i64, b.0 as i64, b.1 as i64])
}

/// All checks for one ordered pair of ranges (pair receiver). Returns number of library evaluations.
fn check_pair(rep: &Reporter, text: &str, a: R, b: R, ops: &[OpSpec], ord: u64, store: &AnnotationStore) -> u64 {
    let sa = sel(store, a);
    let sb = sel(store, b);
    let mut n = 0;
    for (i, op) in ops.iter().enumerate() {
        let ord = ord * 1000 + i as u64;
        let got = eval_pair(&sa, &sb, op);
        n += 1;
        let o_t = ot(a, b);
        let fail = |what: &str, detail: String| {
            let sig = if what.starts_with("panic:") {
                format!("pair|{}|{}", op.name(), what)
            } else {
                format!("pair|{}|{}|ot={}", op.name(), what, o_t)
            };
            rep.fail(
                &sig,
                ord,
                || format!("text={:?} a={:?} b={:?} op={}: {}", text, a, b, op.name(), detail),
                || case_json("pair", text, &[a], &[b], op),
            );
        };
        // the `all` modifier is irrelevant on pairs; Equals/InSet{all} and SameRange{!all} are still required not to panic
        let got_b = match &got {
            Ok(v) => *v,
            Err(m) => {
                fail(&format!("panic:{}", m), "panicked".into());
                continue;
            }
        };
        // definition
        let pos = op.positive();
        if let Some(want_pos) = pair_def(&pos, a, b, text) {
            let want = want_pos != op.negate;
            if got_b != want {
                fail(&format!("def:got={}", got_b), format!("definition says {}", want));
            }
        }
        if op.negate {
            // exact complement of the positive operator
            let p = eval_pair(&sa, &sb, &pos);
            n += 1;
            if let Ok(pv) = p {
                if pv == got_b {
                    fail("law:complement", format!("negated = {} but positive = {}", got_b, pv));
                }
            }
            continue;
        }
        // laws on the positive operators
        let conv = match op.rel {
            Rel::Embeds => Some(Rel::Embedded),
            Rel::Embedded if op.limit.is_none() => Some(Rel::Embeds),
            Rel::Before => Some(Rel::After),
            Rel::After => Some(Rel::Before),
            Rel::Precedes => Some(Rel::Succeeds),
            Rel::Succeeds => Some(Rel::Precedes),
            Rel::Equals | Rel::Overlaps => Some(op.rel), // symmetry
            _ => None,
        };
        if let Some(crel) = conv {
            let c = eval_pair(&sb, &sa, &op.with_rel(crel));
            n += 1;
            if let Ok(cv) = c {
                if cv != got_b {
                    let law = if crel == op.rel { "law:symmetry" } else { "law:converse" };
                    fail(law, format!("a op b = {} but b {:?} a = {}", got_b, crel, cv));
                }
            }
        }
        if op.rel == Rel::Equals && got_b {
            for implied in [Rel::Embeds, Rel::Embedded, Rel::SameBegin, Rel::SameEnd] {
                let iop = OpSpec { rel: implied, all: op.all, negate: false, limit: None, ws: false };
                let r = eval_pair(&sa, &sb, &iop);
                n += 1;
                if r != Ok(true) {
                    fail(&format!("law:equals-implies-{:?}", implied), format!("equals holds but {:?} gives {}", implied, fmt_res(&r)));
                }
            }
        }
    }
    n
}

fn sizes(a: &[R], b: &[R]) -> String {
    format!("{}x{}", a.len(), b.len())
}

/// All checks for one ordered pair of sets through the set receivers.
fn check_sets(rep: &Reporter, ctx: &Ctx, ia: usize, ib: usize, ops: &[OpSpec], ord: u64) -> u64 {
    let (a, b) = (&ctx.sets[ia], &ctx.sets[ib]);
    let (ra, rb) = (&ctx.rsets[ia], &ctx.rsets[ib]);
    let text = &ctx.text;
    let mut n = 0;
    let haszero = a.iter().chain(b.iter()).any(|r| r.0 == r.1);
    for (i, op) in ops.iter().enumerate() {
        let ord = ord * 1000 + i as u64;
        let got = eval_setset(ra, rb, op);
        n += 1;
        let fail = |recv: &str, what: &str, detail: String| {
            let sig = if what.starts_with("panic:") {
                format!("{}|{}|{}", recv, op.name(), what)
            } else {
                format!("{}|{}|{}|sizes={}{}", recv, op.name(), what, sizes(a, b), if haszero { "|zw" } else { "" })
            };
            rep.fail(
                &sig,
                ord,
                || format!("text={:?} A={:?} B={:?} op={}: {}", text, a, b, op.name(), detail),
                || case_json(recv, text, a, b, op),
            );
        };
        let pos = op.positive();
        match &got {
            Err(m) => fail("setset", &format!("panic:{}", m), "panicked".into()),
            Ok(gv) => {
                if !haszero {
                    if let Some(wp) = set_def(&pos, a, b, text) {
                        let want = wp != op.negate;
                        if *gv != want {
                            fail("setset", &format!("def:got={}", gv), format!("documented quantifier structure gives {}", want));
                        }
                    }
                }
                if op.negate {
                    let p = eval_setset(ra, rb, &pos);
                    n += 1;
                    if let Ok(pv) = p {
                        if pv == *gv {
                            fail("setset", "law:complement", format!("negated = {} but positive = {}", gv, pv));
                        }
                    }
                } else if !haszero {
                    // laws that follow from the documented quantifier structure (all:true variants, Equals)
                    let conv = match (op.rel, op.all) {
                        (Rel::Equals, false) => Some(Rel::Equals),
                        (Rel::Overlaps, true) => Some(Rel::Overlaps),
                        (Rel::Embeds, _) => Some(Rel::Embedded),
                        (Rel::Embedded, _) if op.limit.is_none() => Some(Rel::Embeds),
                        (Rel::Before, true) if op.limit.is_none() => Some(Rel::After),
                        (Rel::After, true) if op.limit.is_none() => Some(Rel::Before),
                        (Rel::Precedes, true) => Some(Rel::Succeeds),
                        (Rel::Succeeds, true) => Some(Rel::Precedes),
                        _ => None,
                    };
                    if let Some(crel) = conv {
                        let c = eval_setset(rb, ra, &op.with_rel(crel));
                        n += 1;
                        if let Ok(cv) = c {
                            if cv != *gv {
                                let law = if crel == op.rel { "law:symmetry" } else { "law:converse" };
                                fail("setset", law, format!("A op B = {} but B {:?} A = {}", gv, crel, cv));
                            }
                        }
                    }
                }
            }
        }
        // receivers with a single selection on one side must agree with the set-set receiver (singleton law)
        if a.len() == 1 {
            let sa = &ctx.sels[ctx.ranges.iter().position(|r| *r == a[0]).unwrap()];
            let r = eval_selset(sa, rb, op);
            n += 1;
            if r != got {
                fail("selset", &format!("law:singleton:got={}", fmt_res(&r)), format!("sel.test_set = {} but {{sel}}.test_set = {}", fmt_res(&r), fmt_res(&got)));
            }
            if b.len() == 1 {
                let sb = &ctx.sels[ctx.ranges.iter().position(|r| *r == b[0]).unwrap()];
                let p = eval_pair(sa, sb, op);
                n += 1;
                // Equals/InSet with all:true are undefined on sets, but pairs ignore `all`; require agreement only when neither panics
                if p != got && !(p.is_err() || got.is_err()) {
                    fail("setset", &format!("law:singleton-pair:got={}", fmt_res(&got)), format!("pair test = {} but singleton sets = {}", fmt_res(&p), fmt_res(&got)));
                }
            }
        }
        if b.len() == 1 {
            let sb = &ctx.sels[ctx.ranges.iter().position(|r| *r == b[0]).unwrap()];
            let r = eval_setsel(ra, sb, op);
            n += 1;
            if r != got {
                fail("setsel", &format!("law:singleton:got={}", fmt_res(&r)), format!("set.test(sel) = {} but set.test_set({{sel}}) = {}", fmt_res(&r), fmt_res(&got)));
            }
        }
    }
    n
}

/// Annotation receiver: `ResultItem<Annotation>::test` must agree with the test on the annotations' selection sets.
fn check_annotations(rep: &Reporter, text: &str, sets: &[Vec<R>], ops: &[OpSpec]) -> u64 {
    let mut store = build_store(text);
    // longest ranges first, and every set twice (a<i>, c<i>): a range is then looked up again after a longer range with the same
    // begin has been stored, and equal ranges meet as targets of two different annotations
    let order: Vec<(usize, &str)> = (0..sets.len()).rev().map(|i| (i, "a")).chain((0..sets.len()).rev().map(|i| (i, "c"))).collect();
    for (i, prefix) in order {
        let s = &sets[i];
        let target = if s.len() == 1 {
            SelectorBuilder::textselector("r", Offset::simple(s[0].0, s[0].1))
        } else {
            SelectorBuilder::multiselector(
                s.iter()
                    .map(|r| SelectorBuilder::textselector("r", Offset::simple(r.0, r.1)))
                    .collect::<Vec<_>>(),
            )
        };
        store
            .annotate(AnnotationBuilder::new().with_id(format!("{}{}", prefix, i)).with_target(target))
            .expect("annotate");
    }
    let store = &store;
    let anns: Vec<ResultItem<Annotation>> = (0..sets.len())
        .map(|i| store.annotation(format!("a{}", i).as_str()).unwrap())
        .collect();
    let copies: Vec<ResultItem<Annotation>> = (0..sets.len())
        .map(|i| store.annotation(format!("c{}", i).as_str()).unwrap())
        .collect();
    let rsets: Vec<ResultTextSelectionSet> = sets
        .iter()
        .map(|s| s.iter().map(|r| sel(store, *r)).collect())
        .collect();
    let n = AtomicU64::new(0);
    (0..sets.len()).into_par_iter().for_each(|ia| {
        let mut cnt = 0;
        for ib in 0..sets.len() {
            for (i, op) in ops.iter().enumerate() {
                let o = op.to_op();
                let got = catch(|| anns[ia].test(&o, &anns[ib])).map_err(|m| msg_class(&m));
                let want = eval_setset(&rsets[ia], &rsets[ib], op);
                cnt += 3;
                // the same ranges as targets of another annotation
                let got2 = catch(|| anns[ia].test(&o, &copies[ib])).map_err(|m| msg_class(&m));
                if got2 != want && got == want {
                    let (a, b) = (&sets[ia], &sets[ib]);
                    rep.fail(
                        &format!("ann|{}|second-annotation-on-the-same-ranges-differs:got={}|sizes={}", op.name(), fmt_res(&got2), sizes(a, b)),
                        ((ia * sets.len() + ib) * 1000 + i) as u64,
                        || format!("text={:?} A={:?} B={:?} op={}: annotation a.test(c) = {} where c is a second annotation on the ranges B, but the set test = {}", text, a, b, op.name(), fmt_res(&got2), fmt_res(&want)),
                        || case_json("ann", text, a, b, op),
                    );
                }
                if got != want {
                    let (a, b) = (&sets[ia], &sets[ib]);
                    rep.fail(
                        &format!("ann|{}|differs-from-set-test:got={}|sizes={}", op.name(), fmt_res(&got), sizes(a, b)),
                        ((ia * sets.len() + ib) * 1000 + i) as u64,
                        || format!("text={:?} A={:?} B={:?} op={}: annotation.test = {} but set test = {}", text, a, b, op.name(), fmt_res(&got), fmt_res(&want)),
                        || case_json("ann", text, a, b, op),
                    );
                }
            }
        }
        n.fetch_add(cnt, Ordering::Relaxed);
    });
    n.load(Ordering::Relaxed)
}

pub struct Bounds {
    pub text: &'static str,
    pub maxset: usize,
    pub set_nonempty_only: bool,
    pub annotations: bool,
}

pub fn bounds(tier: Tier) -> Vec<Bounds> {
    match tier {
        Tier::Quick => vec![
            Bounds { text: "a  b", maxset: 2, set_nonempty_only: false, annotations: true },
            // multi-byte characters before and inside whitespace gaps (codepoint positions differ from byte positions)
            Bounds { text: "\u{e9} \u{3000}b", maxset: 2, set_nonempty_only: true, annotations: false },
        ],
        Tier::Thorough => vec![
            Bounds { text: "a  b", maxset: 3, set_nonempty_only: true, annotations: true },
            Bounds { text: "a b  c", maxset: 2, set_nonempty_only: false, annotations: false },
            Bounds { text: " \u{e9}\u{1d11e} x", maxset: 2, set_nonempty_only: true, annotations: false },
        ],
    }
}

const LIMITS: [Option<usize>; 4] = [None, Some(0), Some(1), Some(3)];

pub fn run(rep: &Reporter) -> Coverage {
    let ops = all_ops(&LIMITS);
    let evals = AtomicU64::new(0);
    let mut cases: u64 = 0;
    let mut nontrivial: u64 = 0;
    let mut samples = Vec::new();
    let mut space = Vec::new();
    for bd in bounds(rep.tier) {
        let text = bd.text;
        let len = text.chars().count();
        let ranges = all_ranges(len);
        let store = build_store(text);
        let store = &store;
        // (1) pairs of ranges, including zero-width ones
        let npairs = ranges.len() * ranges.len();
        (0..npairs).into_par_iter().for_each(|idx| {
            let (a, b) = (ranges[idx / ranges.len()], ranges[idx % ranges.len()]);
            let n = check_pair(rep, text, a, b, &ops, idx as u64, store);
            evals.fetch_add(n, Ordering::Relaxed);
        });
        cases += (npairs * ops.len()) as u64;
        nontrivial += (ranges.iter().filter(|r| r.0 < r.1).count().pow(2) * ops.len()) as u64;
        // (2) pairs of sets
        let sets = subsets(&ranges, bd.maxset, bd.set_nonempty_only);
        let ctx = Ctx {
            text: text.to_string(),
            store,
            ranges: ranges.clone(),
            sels: ranges.iter().map(|r| sel(store, *r)).collect(),
            rsets: sets.iter().map(|s| s.iter().map(|r| sel(store, *r)).collect()).collect(),
            sets,
        };
        let nsets = ctx.sets.len();
        (0..nsets).into_par_iter().for_each(|ia| {
            let mut n = 0;
            for ib in 0..nsets {
                n += check_sets(rep, &ctx, ia, ib, &ops, (1_000_000 + ia * nsets + ib) as u64);
            }
            evals.fetch_add(n, Ordering::Relaxed);
        });
        cases += (nsets * nsets * ops.len()) as u64;
        let multi = ctx.sets.iter().filter(|s| s.len() > 1).count();
        nontrivial += ((nsets * nsets - (nsets - multi) * (nsets - multi)) * ops.len()) as u64;
        // (3) annotation receiver
        let mut nann = 0;
        if bd.annotations {
            let asets = subsets(&ranges, 2, false);
            nann = asets.len();
            let n = check_annotations(rep, text, &asets, &ops);
            evals.fetch_add(n, Ordering::Relaxed);
            cases += (asets.len() * asets.len() * ops.len()) as u64;
        }
        if bd.annotations {
            let pool: Vec<R> = vec![(0, 1), (0, 2), (1, 3), (3, 4), (2, 2)].into_iter().filter(|r| r.1 <= len).collect();
            let (c, n) = check_annotations_two_resources(rep, text, &pool, &ops);
            cases += c;
            evals.fetch_add(n, Ordering::Relaxed);
        }
        space.push(json!({"text": text, "codepoints": len, "ranges": ranges.len(), "range_pairs": npairs,
            "sets": nsets, "max_set_size": bd.maxset, "sets_nonempty_ranges_only": bd.set_nonempty_only,
            "set_pairs": nsets * nsets, "annotations": nann, "operator_variants": ops.len()}));
        if samples.len() < 4 {
            samples.push(case_json("pair", text, &[ranges[1]], &[ranges[ranges.len() / 2]], &ops[7]));
            samples.push(case_json("setset", text, &ctx.sets[nsets - 1], &ctx.sets[nsets / 2], &ops[ops.len() / 2]));
        }
    }
    let mut cov = Coverage::default();
    cov.states = cases;
    cov.transitions = evals.load(Ordering::Relaxed);
    cov.traces_validated = cases;
    cov.evaluations = evals.load(Ordering::Relaxed);
    cov.distinct_nontrivial = nontrivial;
    cov.rule = "every ordered pair of ranges [b,e) (0<=b<=e<=len) and every ordered pair of sets of at most max_set_size ranges over each text, crossed with every operator variant (12 relations x all x negate x limit in {none,0,1,3} x whitespace); annotations over two resources (at most one range of a 5-range pool in each, either order) against each other: the annotation-level test must be the disjunction of the set tests in the common resources; states = (operands, operator) cases, transitions = calls of the library's test functions; non-trivial = both operands non-empty ranges (pairs) or at least one multi-element set (sets)".into();
    cov.samples = samples;
    cov.exhaustive = true;
    cov.extra.insert("space".into(), Value::Array(space));
    cov.assumptions = vec![
        "the reference definitions are the interval-arithmetic readings of the doc comments of enum TextSelectionOperator".into(),
        "overlap involving an empty range, Equals/InSet with all:true on sets and limit combined with all:true on multi-element sets are treated as unspecified (laws / no-panic only)".into(),
    ];
    cov
}

/// Annotations over two resources: an annotation has at most one range in each of r and r2 (given first or second in its
/// selector). `a.test(op, b)` must hold exactly when the relation holds, as tested on the sets, in a resource that both
/// annotations select text in - whichever resources the two annotations have besides, and in whatever order.
fn check_annotations_two_resources(rep: &Reporter, text: &str, pool: &[R], ops: &[OpSpec]) -> (u64, u64) {
    let mut store = AnnotationStore::default();
    for rid in ["r", "r2"] {
        store.add_resource(TextResourceBuilder::new().with_id(rid).with_text(text)).expect("add_resource");
    }
    // shapes: (range in r, range in r2, r2 listed first)
    let mut shapes: Vec<(Option<R>, Option<R>, bool)> = Vec::new();
    for x in pool {
        shapes.push((Some(*x), None, false));
        shapes.push((None, Some(*x), false));
        for y in pool {
            shapes.push((Some(*x), Some(*y), false));
            shapes.push((Some(*x), Some(*y), true));
        }
    }
    for (i, (a, b, second_first)) in shapes.iter().enumerate() {
        let ts = |rid: &str, r: &R| SelectorBuilder::textselector(rid.to_string(), Offset::simple(r.0, r.1));
        let target = match (a, b) {
            (Some(x), None) => ts("r", x),
            (None, Some(y)) => ts("r2", y),
            (Some(x), Some(y)) => SelectorBuilder::directionalselector(if *second_first { vec![ts("r2", y), ts("r", x)] } else { vec![ts("r", x), ts("r2", y)] }),
            _ => unreachable!(),
        };
        store.annotate(AnnotationBuilder::new().with_id(format!("m{}", i)).with_target(target)).expect("annotate");
    }
    let store = &store;
    let anns: Vec<ResultItem<Annotation>> = (0..shapes.len()).map(|i| store.annotation(format!("m{}", i).as_str()).unwrap()).collect();
    let setof = |rid: &str, r: &R| -> ResultTextSelectionSet { std::iter::once(store.resource(rid).unwrap().textselection(&Offset::simple(r.0, r.1)).expect("range")).collect() };
    let n = AtomicU64::new(0);
    (0..shapes.len()).into_par_iter().for_each(|ia| {
        let mut cnt = 0;
        for ib in 0..shapes.len() {
            for (i, op) in ops.iter().enumerate() {
                let o = op.to_op();
                let got = catch(|| anns[ia].test(&o, &anns[ib])).map_err(|m| msg_class(&m));
                // per common resource
                let mut want: Result<bool, String> = Ok(false);
                for (rid, xa, xb) in [("r", shapes[ia].0, shapes[ib].0), ("r2", shapes[ia].1, shapes[ib].1)] {
                    if let (Some(xa), Some(xb)) = (xa, xb) {
                        match eval_setset(&setof(rid, &xa), &setof(rid, &xb), op) {
                            Ok(true) => {
                                if want.is_ok() {
                                    want = Ok(true);
                                }
                            }
                            Ok(false) => {}
                            Err(m) => want = Err(m),
                        }
                    }
                }
                cnt += 3;
                if want.is_ok() && got != want {
                    let class = format!("{}{}-vs-{}{}", if shapes[ia].0.is_some() { "r" } else { "" }, if shapes[ia].1.is_some() { "+r2" } else { "" }, if shapes[ib].0.is_some() { "r" } else { "" }, if shapes[ib].1.is_some() { "+r2" } else { "" });
                    rep.fail(
                        &format!("ann2res|{}|differs-from-per-resource-set-tests:got={}|{}", op.name(), fmt_res(&got), class),
                        ((ia * shapes.len() + ib) * 1000 + i) as u64,
                        || format!("text={:?} (in r and r2) A={:?} B={:?} op={}: annotation.test = {} but the sets in the common resources give {}", text, shapes[ia], shapes[ib], op.name(), fmt_res(&got), fmt_res(&want)),
                        || json!({"kind": "ann2res", "text": text, "pool": pool, "ia": ia, "ib": ib, "op": op.to_json()}),
                    );
                }
            }
        }
        n.fetch_add(cnt, Ordering::Relaxed);
    });
    ((shapes.len() * shapes.len() * ops.len()) as u64, n.load(Ordering::Relaxed))
}

fn ranges_from(v: &Value) -> Vec<R> {
    v.as_array()
        .map(|a| {
            a.iter()
                .map(|p| (p[0].as_u64().unwrap() as usize, p[1].as_u64().unwrap() as usize))
                .collect()
        })
        .unwrap_or_default()
}

/// Re-execute one recorded case without the sweep.
pub fn replay(rep: &Reporter, case: &Value) {
    let text = case["text"].as_str().unwrap_or("").to_string();
    let a = ranges_from(&case["a"]);
    let b = ranges_from(&case["b"]);
    let op = OpSpec::from_json(&case["op"]).expect("op");
    let ops = vec![op];
    let kind = case["kind"].as_str().unwrap_or("");
    let store = build_store(&text);
    let store = &store;
    println!("replay C13: kind={} text={:?} A={:?} B={:?} op={}", kind, text, a, b, op.name());
    match kind {
        "pair" => {
            check_pair(rep, &text, a[0], b[0], &ops, 0, store);
        }
        "ann" => {
            check_annotations(rep, &text, &[a.clone(), b.clone()], &ops);
        }
        "ann2res" => {
            let pool = ranges_from(&case["pool"]);
            check_annotations_two_resources(rep, &text, &pool, &ops);
        }
        _ => {
            let len = text.chars().count();
            let ranges = all_ranges(len);
            let sets = vec![a.clone(), b.clone()];
            let ctx = Ctx {
                text: text.clone(),
                store,
                sels: ranges.iter().map(|r| sel(store, *r)).collect(),
                rsets: sets.iter().map(|s| s.iter().map(|r| sel(store, *r)).collect()).collect(),
                ranges,
                sets,
            };
            check_sets(rep, &ctx, 0, 1, &ops, 0);
            let r = eval_setset(&ctx.rsets[0], &ctx.rsets[1], &op);
            println!("  library A.test_set(op,B) = {}", fmt_res(&r));
            if !op.negate {
                println!("  documented meaning       = {:?}", set_def(&op, &a, &b, &text));
            }
        }
    }
}
