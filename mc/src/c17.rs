//! C17 — Web Annotation export is well-formed JSON faithful to the annotation.
//!
//! Bounded-exhaustive enumeration of (store, annotation, export configuration) cases:
//!  (1) shape sweep: every selector kind, simple and nested in Multi/Composite/Directional selectors, over all
//!      ranges of a short text, crossed with every export configuration;
//!  (2) value sweep: every value of a menu (all DataValue types, nested lists, datetimes, non-finite floats, all
//!      awkward strings up to a length over a small alphabet) as body value in three layouts;
//!  (3) W3C-namespace key sweep (keys that are lifted out of the body);
//!  (4) identifier sweep: every awkward string as annotation / resource / dataset / key identifier;
//!  (5) every annotation of every state of the history exploration (the stores of C01).
//! Oracle: `serde_json::from_str` on the exporter's output, then a structural comparison of `id`, `@context`,
//! the flattened `target` and the data members with a description of the annotation that is computed from the
//! case specification (or from the reference model for (5)), never from the exporter.
//!
//! Signatures are `<case class>|cfg=<configuration>|<symptom>`. To keep one defect from fanning out over every case:
//! a symptom is reported under a non-default configuration only if the same case does not show it under the
//! configuration that one extends; symptoms a configuration shows on the plainest annotation (`plain-annotation`
//! probe) are reported there only; the value / W3C-key / identifier sweeps do not repeat what their own plain variant
//! (plain value, plain identifiers) already shows.

use crate::c01::plans;
use crate::c05::{awkward_strings, value_class, value_menu};
use crate::hist::*;
use crate::model::*;
use crate::ops::TKind;
use crate::report::{Coverage, Reporter, Tier};
use crate::util::{all_ranges, catch, msg_class};
use rayon::prelude::*;
use serde_json::{json, Map, Value};
use stam::*;
use std::sync::atomic::{AtomicU64, Ordering};

const CONTEXT_ANNO: &str = "http://www.w3.org/ns/anno.jsonld";
const NS_ANNO: &str = "http://www.w3.org/ns/anno/";
const CTX_EXTRA: &str = "http://example.org/ctx.jsonld";
/// keys of the W3C namespace that belong to the annotation itself rather than to its body
const TOP_KEYS: [&str; 5] = ["generated", "generator", "motivation", "created", "creator"];

// ---------------------------------------------------------------------------------------------
// export configurations

pub struct Cfg {
    pub name: &'static str,
    pub w: WebAnnoConfig,
    /// symptoms this configuration shows on the plainest annotation (filled by `probe_configs`): they are reported
    /// once, for that annotation, and not again for every other case
    pub base: Vec<String>,
    /// index of the configuration this one extends: a symptom the same case already shows there is not reported again
    pub parent: Option<usize>,
}

/// The first configuration must be the default one (failures under another configuration are only reported
/// when the default configuration does not show the same symptom on the same case).
pub fn configs() -> Vec<Cfg> {
    let base = WebAnnoConfig { auto_generated: false, auto_generator: false, ..Default::default() };
    let pre = WebAnnoConfig {
        default_annotation_iri: "http://example.org/anno".into(),
        default_set_iri: "http://example.org/set/".into(),
        default_resource_iri: "http://example.org/res#".into(),
        ..base.clone()
    };
    vec![
        Cfg { parent: None, base: vec![], name: "default", w: base.clone() },
        Cfg { parent: Some(0), base: vec![], name: "prefixes", w: pre.clone() },
        Cfg { parent: Some(1), base: vec![], name: "namespaces", w: pre.clone().with_namespace("ex".into(), "http://example.org/set/".into()) },
        Cfg { parent: Some(0), base: vec![], name: "extra_context", w: WebAnnoConfig { extra_context: vec![CTX_EXTRA.into()], ..base.clone() } },
        Cfg {
            parent: Some(3),
            base: vec![],
            name: "namespaces+extra_context",
            w: WebAnnoConfig { extra_context: vec![CTX_EXTRA.into()], ..pre.clone() }.with_namespace("ex".into(), "http://example.org/set/".into()),
        },
        Cfg { parent: Some(0), base: vec![], name: "template", w: WebAnnoConfig { extra_target_template: Some("{resource}/{begin}/{end}".into()), ..base.clone() } },
    ]
}

// ---------------------------------------------------------------------------------------------
// case specification for directly built stores

#[derive(Clone, Debug)]
pub enum PartSpec {
    Text(String, usize, usize),
    /// annotation (index into `anns`) with an optional relative offset
    Ann(usize, Option<(usize, usize)>),
    Res(String),
    Set(String),
    Key(String, String),
    Data(String, String),
}

#[derive(Clone, Debug)]
pub struct DataSpec {
    pub set: String,
    pub key: String,
    pub val: DataValue,
    pub id: Option<String>,
}

#[derive(Clone, Debug)]
pub struct AnnSpec {
    pub id: Option<String>,
    pub kind: TKind,
    pub parts: Vec<PartSpec>,
    pub data: Vec<DataSpec>,
}

#[derive(Clone, Debug)]
pub struct StoreSpec {
    pub res: Vec<(String, String)>,
    pub anns: Vec<AnnSpec>,
}

fn d(set: &str, key: &str, val: DataValue) -> DataSpec {
    DataSpec { set: set.into(), key: key.into(), val, id: None }
}

fn value_to_json(v: &DataValue) -> Value {
    match v {
        DataValue::Null => json!({"t": "null"}),
        DataValue::Bool(b) => json!({"t": "bool", "v": b}),
        DataValue::Int(i) => json!({"t": "int", "v": i.to_string()}),
        DataValue::Float(f) => json!({"t": "float", "bits": f.to_bits().to_string(), "shown": format!("{:?}", f)}),
        DataValue::String(s) => json!({"t": "str", "v": s}),
        DataValue::Datetime(d) => json!({"t": "dt", "v": d.to_rfc3339()}),
        DataValue::List(l) => json!({"t": "list", "v": l.iter().map(value_to_json).collect::<Vec<_>>()}),
    }
}

fn value_from_json(v: &Value) -> Option<DataValue> {
    Some(match v["t"].as_str()? {
        "null" => DataValue::Null,
        "bool" => DataValue::Bool(v["v"].as_bool()?),
        "int" => DataValue::Int(v["v"].as_str()?.parse().ok()?),
        "float" => DataValue::Float(f64::from_bits(v["bits"].as_str()?.parse().ok()?)),
        "str" => DataValue::String(v["v"].as_str()?.to_string()),
        "dt" => DataValue::Datetime(chrono::DateTime::parse_from_rfc3339(v["v"].as_str()?).ok()?),
        "list" => DataValue::List(v["v"].as_array()?.iter().map(value_from_json).collect::<Option<Vec<_>>>()?),
        _ => return None,
    })
}

fn part_to_json(p: &PartSpec) -> Value {
    match p {
        PartSpec::Text(r, b, e) => json!(["text", r, b, e]),
        PartSpec::Ann(a, off) => json!(["ann", a, off.map(|o| vec![o.0, o.1])]),
        PartSpec::Res(r) => json!(["res", r]),
        PartSpec::Set(s) => json!(["set", s]),
        PartSpec::Key(s, k) => json!(["key", s, k]),
        PartSpec::Data(s, i) => json!(["data", s, i]),
    }
}

fn part_from_json(v: &Value) -> Option<PartSpec> {
    let s = |i: usize| v[i].as_str().map(|x| x.to_string());
    Some(match v[0].as_str()? {
        "text" => PartSpec::Text(s(1)?, v[2].as_u64()? as usize, v[3].as_u64()? as usize),
        "ann" => PartSpec::Ann(
            v[1].as_u64()? as usize,
            v[2].as_array().map(|o| (o[0].as_u64().unwrap_or(0) as usize, o[1].as_u64().unwrap_or(0) as usize)),
        ),
        "res" => PartSpec::Res(s(1)?),
        "set" => PartSpec::Set(s(1)?),
        "key" => PartSpec::Key(s(1)?, s(2)?),
        "data" => PartSpec::Data(s(1)?, s(2)?),
        _ => return None,
    })
}

fn spec_to_json(spec: &StoreSpec) -> Value {
    json!({
        "res": spec.res,
        "anns": spec.anns.iter().map(|a| json!({
            "id": a.id,
            "kind": serde_json::to_value(a.kind).unwrap(),
            "parts": a.parts.iter().map(part_to_json).collect::<Vec<_>>(),
            "data": a.data.iter().map(|d| json!({"set": d.set, "key": d.key, "val": value_to_json(&d.val), "id": d.id})).collect::<Vec<_>>(),
        })).collect::<Vec<_>>(),
    })
}

fn spec_from_json(v: &Value) -> Option<StoreSpec> {
    let res = v["res"]
        .as_array()?
        .iter()
        .map(|r| Some((r[0].as_str()?.to_string(), r[1].as_str()?.to_string())))
        .collect::<Option<Vec<_>>>()?;
    let mut anns = Vec::new();
    for a in v["anns"].as_array()? {
        anns.push(AnnSpec {
            id: a["id"].as_str().map(|x| x.to_string()),
            kind: serde_json::from_value(a["kind"].clone()).ok()?,
            parts: a["parts"].as_array()?.iter().map(part_from_json).collect::<Option<Vec<_>>>()?,
            data: a["data"]
                .as_array()?
                .iter()
                .map(|d| {
                    Some(DataSpec {
                        set: d["set"].as_str()?.to_string(),
                        key: d["key"].as_str()?.to_string(),
                        val: value_from_json(&d["val"])?,
                        id: d["id"].as_str().map(|x| x.to_string()),
                    })
                })
                .collect::<Option<Vec<_>>>()?,
        });
    }
    Some(StoreSpec { res, anns })
}

fn part_builder(spec: &StoreSpec, p: &PartSpec) -> SelectorBuilder<'static> {
    match p {
        PartSpec::Text(r, b, e) => SelectorBuilder::textselector(r.clone(), Offset::simple(*b, *e)),
        PartSpec::Ann(a, off) => {
            let off = off.map(|(b, e)| Offset::simple(b, e));
            match &spec.anns[*a].id {
                Some(id) => SelectorBuilder::annotationselector(id.clone(), off),
                None => SelectorBuilder::annotationselector(BuildItem::Handle(AnnotationHandle::new(*a)), off),
            }
        }
        PartSpec::Res(r) => SelectorBuilder::resourceselector(r.clone()),
        PartSpec::Set(s) => SelectorBuilder::datasetselector(s.clone()),
        PartSpec::Key(s, k) => SelectorBuilder::datakeyselector(s.clone(), k.clone()),
        PartSpec::Data(s, i) => SelectorBuilder::annotationdataselector(s.clone(), i.clone()),
    }
}

fn ann_builder(spec: &StoreSpec, a: &AnnSpec) -> AnnotationBuilder<'static> {
    let mut b = AnnotationBuilder::new();
    if let Some(id) = &a.id {
        b = b.with_id(id.clone());
    }
    let parts: Vec<SelectorBuilder<'static>> = a.parts.iter().map(|p| part_builder(spec, p)).collect();
    let target = match a.kind {
        TKind::Simple => parts.into_iter().next().expect("simple target has one part"),
        TKind::Multi => SelectorBuilder::multiselector(parts),
        TKind::Composite => SelectorBuilder::compositeselector(parts),
        TKind::Directional => SelectorBuilder::directionalselector(parts),
    };
    b = b.with_target(target);
    for d in &a.data {
        b = match &d.id {
            Some(id) => b.with_data_with_id(d.set.clone(), d.key.clone(), d.val.clone(), id.clone()),
            None => b.with_data(d.set.clone(), d.key.clone(), d.val.clone()),
        };
    }
    b
}

/// Build the store; `Err` = the builder API refused or panicked on some item (not a matter for this property).
pub fn build(spec: &StoreSpec) -> Result<AnnotationStore, String> {
    let mut store = AnnotationStore::new(Config::default());
    let r = catch(|| -> Result<(), StamError> {
        for (id, text) in &spec.res {
            store.add_resource(TextResourceBuilder::new().with_id(id.clone()).with_text(text.clone()))?;
        }
        for (i, a) in spec.anns.iter().enumerate() {
            let h = store.annotate(ann_builder(spec, a))?;
            if h.as_usize() != i {
                return Err(StamError::OtherError("handle differs from index"));
            }
        }
        Ok(())
    });
    match r {
        Err(p) => Err(format!("panic:{}", msg_class(&p))),
        Ok(Err(e)) => Err(format!("err:{}", format!("{:?}", e).chars().take_while(|c| c.is_alphanumeric()).collect::<String>())),
        Ok(Ok(())) => Ok(store),
    }
}

// ---------------------------------------------------------------------------------------------
// configuration-independent description of what an annotation says

#[derive(Clone, Debug)]
pub enum AItem {
    Text { res: String, b: usize, e: usize, via_ann: bool },
    AnnNode(Option<String>),
    ResNode(String),
    SetNode(String),
    /// DataKeySelector / AnnotationDataSelector: no Web Annotation form
    Unser,
}

#[derive(Clone, Debug)]
pub struct Abs {
    pub ann_id: Option<String>,
    pub kind: TKind,
    pub items: Vec<AItem>,
    pub data: Vec<(String, String, DataValue)>,
}

fn spec_simple_text(spec: &StoreSpec, a: usize) -> Option<(String, usize, usize)> {
    let ann = spec.anns.get(a)?;
    if ann.kind != TKind::Simple {
        return None;
    }
    match &ann.parts[0] {
        PartSpec::Text(r, b, e) => Some((r.clone(), *b, *e)),
        PartSpec::Ann(t, Some((b, e))) => spec_simple_text(spec, *t).map(|(r, pb, _)| (r, pb + b, pb + e)),
        _ => None,
    }
}

pub fn abs_of_spec(spec: &StoreSpec, i: usize) -> Option<Abs> {
    let a = spec.anns.get(i)?;
    let mut items = Vec::new();
    for p in &a.parts {
        items.push(match p {
            PartSpec::Text(r, b, e) => AItem::Text { res: r.clone(), b: *b, e: *e, via_ann: false },
            PartSpec::Ann(t, None) => AItem::AnnNode(spec.anns.get(*t)?.id.clone()),
            PartSpec::Ann(t, Some((b, e))) => {
                let (r, pb, _) = spec_simple_text(spec, *t)?;
                AItem::Text { res: r, b: pb + b, e: pb + e, via_ann: true }
            }
            PartSpec::Res(r) => AItem::ResNode(r.clone()),
            PartSpec::Set(s) => AItem::SetNode(s.clone()),
            PartSpec::Key(..) | PartSpec::Data(..) => AItem::Unser,
        });
    }
    Some(Abs {
        ann_id: a.id.clone(),
        kind: a.kind,
        items,
        data: a.data.iter().map(|d| (d.set.clone(), d.key.clone(), d.val.clone())).collect(),
    })
}

pub fn abs_of_model(m: &Model, i: usize) -> Option<Abs> {
    let a = m.anns.get(i)?.as_ref()?;
    let rid = |r: usize| -> Option<String> { Some(m.res.get(r)?.as_ref()?.id.clone()) };
    let mut items = Vec::new();
    for p in &a.parts {
        items.push(match p {
            MT::Text { res, b, e, .. } => AItem::Text { res: rid(*res)?, b: *b, e: *e, via_ann: false },
            MT::Ann { text: Some((res, b, e, _)), .. } => AItem::Text { res: rid(*res)?, b: *b, e: *e, via_ann: true },
            MT::Ann { ann, text: None } => AItem::AnnNode(m.anns.get(*ann)?.as_ref()?.id.clone()),
            MT::Res(r) => AItem::ResNode(rid(*r)?),
            MT::Set(s) => AItem::SetNode(m.sets.get(*s)?.as_ref()?.id.clone()),
            MT::Key(..) | MT::Data(..) => AItem::Unser,
        });
    }
    let mut data = Vec::new();
    for (si, di) in &a.data {
        let s = m.sets.get(*si)?.as_ref()?;
        let dd = s.data.get(*di)?.as_ref()?;
        data.push((s.id.clone(), s.keys.get(dd.key)?.clone()?, dd.val.to_datavalue()));
    }
    Some(Abs { ann_id: a.id.clone(), kind: a.kind, items, data })
}

fn item_cat(i: &AItem) -> &'static str {
    match i {
        AItem::Text { .. } => "T",
        AItem::AnnNode(_) | AItem::ResNode(_) | AItem::SetNode(_) => "N",
        AItem::Unser => "U",
    }
}

/// Class of the target for signatures: exact part kind for simple targets; for complex targets the selector kind and
/// the set of part categories (T text-bearing, N annotation/resource/dataset node, U key/data selector; a U next to
/// any other category is the single class `U,other`).
pub fn shape_class(abs: &Abs) -> String {
    let nodata = "";
    if abs.kind == TKind::Simple {
        let k = match abs.items.first() {
            Some(AItem::Text { via_ann: false, .. }) => "Text",
            Some(AItem::Text { via_ann: true, .. }) => "AnnotationWithOffset",
            Some(AItem::AnnNode(Some(_))) => "Annotation",
            Some(AItem::AnnNode(None)) => "AnnotationWithoutId",
            Some(AItem::ResNode(_)) => "Resource",
            Some(AItem::SetNode(_)) => "DataSet",
            Some(AItem::Unser) => "KeyOrData",
            None => "?",
        };
        format!("target:Simple[{}]{}", k, nodata)
    } else {
        let mut cats: Vec<&str> = abs.items.iter().map(item_cat).collect();
        cats.sort();
        cats.dedup();
        if cats.contains(&"U") && cats.len() > 1 {
            cats = vec!["U", "other"]; // a key/data selector next to anything else: one class, whatever the company
        }
        format!("target:{:?}[{}]{}", abs.kind, cats.join(","), nodata)
    }
}

// ---------------------------------------------------------------------------------------------
// expected IRIs

fn plain(s: &str) -> bool {
    !s.is_empty() && s.chars().all(|c| c.is_ascii_alphanumeric())
}

/// The documented mapping for identifiers without special characters: an identifier that already is an IRI is kept,
/// any other gets the configured prefix ("_:" if none), joined with '/' unless the prefix ends in '/', '#' or ':'.
/// `None` = the identifier has characters for which the documentation only promises "some transformations".
fn model_iri(id: &str, prefix: &str) -> Option<String> {
    if plain(id) {
        let p = if prefix.is_empty() { "_:" } else { prefix };
        let sep = if p.ends_with('/') || p.ends_with('#') || p.ends_with(':') { "" } else { "/" };
        Some(format!("{}{}{}", p, sep, id))
    } else if let Some(rest) = id.strip_prefix("http://example.org/") {
        if plain(rest) {
            Some(id.to_string())
        } else {
            None
        }
    } else {
        None
    }
}

#[derive(Clone, Debug, PartialEq, PartialOrd)]
pub enum Item {
    Text { src: String, b: u64, e: u64 },
    Node { id: Option<String>, typ: &'static str },
}

pub struct Expect {
    pub top_unser: bool,
    pub ann_iri: Option<String>,
    pub ordered: bool,
    pub items: Vec<Item>,
    /// (top-level?, member name, value)
    pub data: Vec<(bool, String, DataValue)>,
}

/// Expected content under a configuration. Identifiers with special characters are mapped with the library's public
/// `IRI::iri()` (the documentation does not pin their transformation); plain ones with `model_iri`.
pub fn resolve(abs: &Abs, w: &WebAnnoConfig, store: &AnnotationStore) -> Option<Expect> {
    let res_iri = |id: &str| -> Option<String> {
        model_iri(id, &w.default_resource_iri).or_else(|| store.resource(id)?.iri(&w.default_resource_iri).map(|c| c.into_owned()))
    };
    let ann_iri = |id: &str| -> Option<String> {
        model_iri(id, &w.default_annotation_iri).or_else(|| store.annotation(id)?.iri(&w.default_annotation_iri).map(|c| c.into_owned()))
    };
    let set_iri = |id: &str| -> Option<String> {
        model_iri(id, &w.default_set_iri).or_else(|| store.dataset(id)?.iri(&w.default_set_iri).map(|c| c.into_owned()))
    };
    let mut items = Vec::new();
    for it in &abs.items {
        match it {
            AItem::Text { res, b, e, .. } => items.push(Item::Text { src: res_iri(res)?, b: *b as u64, e: *e as u64 }),
            AItem::AnnNode(Some(id)) => items.push(Item::Node { id: Some(ann_iri(id)?), typ: "Annotation" }),
            AItem::AnnNode(None) => items.push(Item::Node { id: None, typ: "Annotation" }),
            AItem::ResNode(id) => items.push(Item::Node { id: Some(res_iri(id)?), typ: "Text" }),
            AItem::SetNode(id) => items.push(Item::Node { id: Some(set_iri(id)?), typ: "Dataset" }),
            AItem::Unser => {}
        }
    }
    let mut data = Vec::new();
    for (set, key, val) in &abs.data {
        if set == CONTEXT_ANNO || set == NS_ANNO {
            data.push((TOP_KEYS.contains(&key.as_str()), key.clone(), val.clone()));
        } else {
            let iri = match model_iri(set, &w.default_set_iri).and_then(|si| model_iri(key, &si)) {
                Some(i) => i,
                None => store.dataset(set.as_str())?.key(key.as_str())?.iri(&w.default_set_iri)?.into_owned(),
            };
            let mut name = iri.clone();
            for (uri, ns) in &w.context_namespaces {
                if let Some(rest) = iri.strip_prefix(uri.as_str()) {
                    name = format!("{}:{}", ns, rest);
                    break;
                }
            }
            data.push((false, name, val.clone()));
        }
    }
    Some(Expect {
        top_unser: abs.kind == TKind::Simple && matches!(abs.items.first(), Some(AItem::Unser)),
        ann_iri: match &abs.ann_id {
            Some(id) => Some(ann_iri(id)?),
            None => None,
        },
        ordered: abs.kind == TKind::Simple || abs.kind == TKind::Directional,
        items,
        data,
    })
}

// ---------------------------------------------------------------------------------------------
// the oracle proper: parse and compare

fn jtype(v: &Value) -> &'static str {
    match v {
        Value::Null => "null",
        Value::Bool(_) => "bool",
        Value::Number(_) => "number",
        Value::String(_) => "string",
        Value::Array(_) => "array",
        Value::Object(_) => "object",
    }
}

/// Same content and JSON type (string<->string, Int/Float<->number, Bool<->bool, Null<->null, List<->array, Datetime<->string).
pub fn value_matches(j: &Value, dv: &DataValue) -> Result<(), String> {
    let wt = || Err(format!("wrong-type:{}-for-{}", jtype(j), dv_type(dv)));
    let wc = || Err(format!("wrong-content:{}", dv_type(dv)));
    match dv {
        DataValue::Null => {
            if j.is_null() {
                Ok(())
            } else {
                wt()
            }
        }
        DataValue::Bool(b) => match j {
            Value::Bool(x) if x == b => Ok(()),
            Value::Bool(_) => wc(),
            _ => wt(),
        },
        DataValue::Int(i) => match j {
            Value::Number(n) => {
                if n.as_i64() == Some(*i as i64) || (n.is_f64() && i.unsigned_abs() < (1 << 53) && n.as_f64() == Some(*i as f64)) {
                    Ok(())
                } else {
                    wc()
                }
            }
            _ => wt(),
        },
        DataValue::Float(f) => {
            if !f.is_finite() {
                return Ok(()); // JSON has no form for NaN / infinities: only well-formedness is required
            }
            match j {
                Value::Number(n) => {
                    let g = n.as_f64().unwrap_or(f64::NAN);
                    // tolerance: serde_json's decimal parser is not guaranteed to be correctly rounded
                    if (g - f).abs() <= f.abs() * 1e-14 + 1e-300 {
                        Ok(())
                    } else {
                        wc()
                    }
                }
                _ => wt(),
            }
        }
        DataValue::String(s) => match j {
            Value::String(x) => {
                if x == s {
                    Ok(())
                } else {
                    wc()
                }
            }
            // a string that is an IRI may be exported as a node reference (STAM: such strings SHOULD be read as IRIs)
            Value::Object(o) if s.contains(':') => match o.get("id") {
                Some(Value::String(x)) if o.len() == 1 => {
                    if x == s {
                        Ok(())
                    } else {
                        wc()
                    }
                }
                _ => wt(),
            },
            _ => wt(),
        },
        DataValue::Datetime(d) => {
            let text = match j {
                Value::String(x) => Some(x.as_str()),
                Value::Object(o) => o.get("@value").and_then(|v| v.as_str()),
                _ => None,
            };
            match text {
                None => wt(),
                Some(x) => match chrono::DateTime::parse_from_rfc3339(x) {
                    Ok(p) if p == *d => Ok(()),
                    _ => wc(),
                },
            }
        }
        DataValue::List(l) => match j {
            Value::Array(a) => {
                if a.len() != l.len() {
                    return wc();
                }
                for (x, y) in a.iter().zip(l.iter()) {
                    value_matches(x, y).map_err(|e| format!("element-{}", e))?;
                }
                Ok(())
            }
            _ => wt(),
        },
    }
}

fn dv_type(dv: &DataValue) -> &'static str {
    match dv {
        DataValue::Null => "Null",
        DataValue::Bool(_) => "Bool",
        DataValue::Int(_) => "Int",
        DataValue::Float(_) => "Float",
        DataValue::String(_) => "String",
        DataValue::Datetime(_) => "Datetime",
        DataValue::List(_) => "List",
    }
}

#[derive(Default)]
struct Flat {
    items: Vec<Item>,
    extras: Vec<String>,
    malformed: Vec<String>,
}

fn static_type(t: Option<&str>) -> &'static str {
    match t {
        Some("Annotation") => "Annotation",
        Some("Text") => "Text",
        Some("Dataset") => "Dataset",
        Some(_) => "<other>",
        None => "<none>",
    }
}

fn flatten(v: &Value, out: &mut Flat) {
    match v {
        Value::Array(a) => a.iter().for_each(|x| flatten(x, out)),
        Value::String(s) => out.extras.push(s.clone()),
        Value::Object(o) => {
            if o.contains_key("source") || o.contains_key("selector") {
                let src = o.get("source").and_then(|s| s.as_str());
                let b = o.get("selector").and_then(|s| s.get("start")).and_then(|x| x.as_u64());
                let e = o.get("selector").and_then(|s| s.get("end")).and_then(|x| x.as_u64());
                match (src, b, e) {
                    (Some(src), Some(b), Some(e)) => out.items.push(Item::Text { src: src.to_string(), b, e }),
                    _ => out.malformed.push("text-target-without-source-start-end".into()),
                }
            } else if let Some(items) = o.get("items") {
                flatten(items, out);
            } else if o.contains_key("id") {
                out.items.push(Item::Node {
                    id: o.get("id").and_then(|x| x.as_str()).map(|x| x.to_string()),
                    typ: static_type(o.get("type").and_then(|x| x.as_str())),
                });
            } else {
                out.malformed.push("object-without-source-items-id".into());
            }
        }
        other => out.malformed.push(jtype(other).to_string()),
    }
}

fn item_diff(got: &Item, want: &Item) -> Option<String> {
    match (got, want) {
        (Item::Text { src: s1, b: b1, e: e1 }, Item::Text { src: s2, b: b2, e: e2 }) => {
            if s1 != s2 {
                Some("target:source".into())
            } else if (b1, e1) != (b2, e2) {
                Some("target:offsets".into())
            } else {
                None
            }
        }
        (Item::Node { id: i1, typ: t1 }, Item::Node { id: i2, typ: t2 }) => {
            if i2.is_none() {
                None // no documented form for a reference to an annotation without public id
            } else if i1 != i2 {
                Some(format!("target:node-id:{}", t2))
            } else if t1 != t2 {
                Some(format!("target:node-type:{}", t2))
            } else {
                None
            }
        }
        _ => Some("target:item-kind".into()),
    }
}

fn sort_items(v: &[Item]) -> Vec<Item> {
    let mut v = v.to_vec();
    v.sort_by(|a, b| format!("{:?}", a).cmp(&format!("{:?}", b)));
    v
}

fn check_context(ctx: Option<&Value>, w: &WebAnnoConfig) -> Option<String> {
    let ctx = ctx?;
    let members: Vec<&Value> = match ctx {
        Value::Array(a) => a.iter().collect(),
        other => vec![other],
    };
    let has_str = |s: &str| members.iter().any(|m| m.as_str() == Some(s));
    if !has_str(CONTEXT_ANNO) {
        return Some("the W3C anno context is not listed".into());
    }
    for x in &w.extra_context {
        if !has_str(x) {
            return Some(format!("extra context {} is not listed", x));
        }
    }
    for (uri, ns) in &w.context_namespaces {
        if !members.iter().any(|m| m.get(ns.as_str()).and_then(|u| u.as_str()) == Some(uri.as_str())) {
            return Some(format!("namespace {} -> {} is not declared", ns, uri));
        }
    }
    None
}

/// All symptoms of one export (symptom class, detail). Empty = the export is faithful.
pub fn check_output(out: &str, exp: &Expect, w: &WebAnnoConfig) -> Vec<(String, String)> {
    let mut sy: Vec<(String, String)> = Vec::new();
    let v: Value = match serde_json::from_str(out) {
        Ok(v) => v,
        Err(e) => return vec![("not-json".into(), format!("serde_json: {}", e))],
    };
    let obj = match v.as_object() {
        Some(o) => o,
        None => return vec![("not-an-object".into(), format!("top-level JSON type is {}", jtype(&v)))],
    };
    // id
    if let Some(want) = &exp.ann_iri {
        match obj.get("id") {
            None => sy.push(("id:missing".into(), format!("expected id {:?}", want))),
            Some(Value::String(s)) if s == want => {}
            Some(other) => sy.push(("id:wrong".into(), format!("id is {} but the annotation's IRI is {:?}", other, want))),
        }
    }
    // @context
    match obj.get("@context") {
        None => sy.push(("context:missing".into(), String::new())),
        ctx => {
            if let Some(d) = check_context(ctx, w) {
                sy.push(("context:wrong".into(), d));
            }
        }
    }
    // target
    match obj.get("target") {
        None => sy.push(("target:missing".into(), String::new())),
        Some(t) => {
            // A target array holds alternative renderings of the same target: the usual one plus the renderings made
            // from the extra-target template (strings, or a copy of the complex wrapper with strings for the text
            // parts). The rendering with the most object items is the usual one; strings are collected from all.
            let mut flat = Flat::default();
            match t {
                Value::Array(a) => {
                    let mut parts: Vec<Flat> = a
                        .iter()
                        .map(|x| {
                            let mut f = Flat::default();
                            flatten(x, &mut f);
                            f
                        })
                        .collect();
                    let mut best = 0;
                    for (i, f) in parts.iter().enumerate() {
                        if f.items.len() > parts[best].items.len() {
                            best = i;
                        }
                    }
                    for (i, f) in parts.iter_mut().enumerate() {
                        flat.extras.append(&mut f.extras);
                        flat.malformed.append(&mut f.malformed);
                        if i == best {
                            flat.items.append(&mut f.items);
                        }
                    }
                }
                other => flatten(other, &mut flat),
            }
            if let Some(m) = flat.malformed.first() {
                sy.push(("target:item-malformed".into(), m.clone()));
            } else {
                let (got, want) = if exp.ordered { (flat.items.clone(), exp.items.clone()) } else { (sort_items(&flat.items), sort_items(&exp.items)) };
                if got.len() != want.len() {
                    let dir = if got.len() < want.len() { "fewer" } else { "more" };
                    sy.push((format!("target:item-count:{}", dir), format!("target lists {:?}, the annotation selects {:?}", flat.items, exp.items)));
                } else if let Some(diff) = got.iter().zip(want.iter()).find_map(|(g, w)| item_diff(g, w)) {
                    let diff = if exp.ordered && sort_items(&got).iter().zip(sort_items(&want).iter()).all(|(g, w)| item_diff(g, w).is_none()) {
                        "target:order".to_string()
                    } else {
                        diff
                    };
                    sy.push((diff, format!("target lists {:?}, the annotation selects {:?}", flat.items, exp.items)));
                }
                // extra targets generated from the template: one per text selection
                let mut want_extra: Vec<String> = Vec::new();
                if let Some(tpl) = &w.extra_target_template {
                    for it in &exp.items {
                        if let Item::Text { src, b, e } = it {
                            want_extra.push(tpl.replace("{resource}", src).replace("{begin}", &b.to_string()).replace("{end}", &e.to_string()));
                        }
                    }
                }
                let mut got_extra = flat.extras.clone();
                if !exp.ordered {
                    want_extra.sort();
                    got_extra.sort();
                }
                if got_extra != want_extra {
                    let s = if w.extra_target_template.is_none() {
                        "target:unexpected-string"
                    } else if got_extra.len() < want_extra.len() {
                        "target:extra-count:fewer"
                    } else if got_extra.len() > want_extra.len() {
                        "target:extra-count:more"
                    } else {
                        "target:extra-content"
                    };
                    sy.push((s.into(), format!("extra targets {:?}, the template gives {:?}", flat.extras, want_extra)));
                }
            }
        }
    }
    // data
    let body = obj.get("body").and_then(|b| b.as_object());
    let mut names: Vec<(bool, &String)> = Vec::new();
    for (top, name, _) in &exp.data {
        if !names.contains(&(*top, name)) {
            names.push((*top, name));
        }
    }
    let mut body_missing = false;
    for (top, name) in names {
        let vals: Vec<&DataValue> = exp.data.iter().filter(|(t, n, _)| *t == top && n == name).map(|x| &x.2).collect();
        let sect = if top { "top" } else { "body" };
        let container: Option<&Map<String, Value>> = if top { Some(obj) } else { body };
        let c = match container {
            Some(c) => c,
            None => {
                if !body_missing {
                    sy.push(("body:missing".into(), "the annotation has data but the export has no body object".into()));
                }
                body_missing = true;
                continue;
            }
        };
        match c.get(name.as_str()) {
            None => sy.push((format!("{}:member-missing", sect), format!("no member {:?}; members are {:?}", name, c.keys().collect::<Vec<_>>()))),
            Some(j) => {
                if vals.len() == 1 {
                    if let Err(e) = value_matches(j, vals[0]) {
                        sy.push((format!("{}:{}", sect, e), format!("member {:?} is {} but the value is {:?}", name, j, vals[0])));
                    }
                } else {
                    let ok = match j {
                        Value::Array(a) => vals.iter().all(|v| a.iter().any(|x| value_matches(x, v).is_ok())),
                        _ => false,
                    };
                    if !ok {
                        sy.push((
                            format!("{}:multi-valued-key-value-lost", sect),
                            format!("member {:?} is {} after parsing, but the annotation carries {:?} under that key", name, j, vals),
                        ));
                    }
                }
            }
        }
    }
    sy
}

// ---------------------------------------------------------------------------------------------
// one annotation under every configuration

#[derive(Default)]
pub struct Counters {
    pub exports: AtomicU64,
    pub accepted: AtomicU64,
    pub rejected: AtomicU64,
    pub skipped: AtomicU64,
    pub faithful: AtomicU64,
}

fn cut(s: &str, n: usize) -> String {
    s.chars().take(n).collect()
}

pub fn check_annotation(
    rep: &Reporter,
    store: &AnnotationStore,
    handle: usize,
    abs: &Abs,
    cfgs: &[Cfg],
    class: &str,
    ord: u64,
    case: &dyn Fn(&str) -> Value,
    cn: &Counters,
    verbose: bool,
    suppress: Option<&Vec<Vec<String>>>,
) -> Vec<Vec<String>> {
    let probe = class == PROBE_CLASS;
    let ann = match store.annotation(AnnotationHandle::new(handle)) {
        Some(a) if a.id() == abs.ann_id.as_deref() => a,
        _ => {
            cn.skipped.fetch_add(1, Ordering::Relaxed);
            return Vec::new();
        }
    };
    let mut seen: Vec<Vec<String>> = Vec::new();
    for (ci, cfg) in cfgs.iter().enumerate() {
        seen.push(Vec::new());
        let exp = match catch(|| resolve(abs, &cfg.w, store)) {
            Ok(Some(e)) => e,
            _ => {
                cn.skipped.fetch_add(1, Ordering::Relaxed);
                continue;
            }
        };
        cn.exports.fetch_add(1, Ordering::Relaxed);
        let res = catch(|| ann.to_webannotation(&cfg.w));
        let mut shown = String::new();
        let symptoms: Vec<(String, String)> = match res {
            Err(p) => vec![(format!("panic:{}", msg_class(&p)), p)],
            Ok(out) => {
                shown = out.clone();
                if out.is_empty() {
                    cn.rejected.fetch_add(1, Ordering::Relaxed);
                    if exp.top_unser {
                        vec![]
                    } else {
                        vec![("empty-output".into(), "the exporter returned an empty string for a target kind it documents as exportable".into())]
                    }
                } else {
                    cn.accepted.fetch_add(1, Ordering::Relaxed);
                    check_output(&out, &exp, &cfg.w)
                }
            }
        };
        if verbose {
            println!("  cfg={}: output = {}", cfg.name, shown);
            if symptoms.is_empty() {
                println!("     faithful");
            }
            for (s, dd) in &symptoms {
                println!("     {} :: {}", s, dd);
            }
        }
        if symptoms.is_empty() && !shown.is_empty() {
            cn.faithful.fetch_add(1, Ordering::Relaxed);
        }
        for (s, dd) in symptoms {
            seen[ci].push(s.clone());
            // not specific to this configuration: the configuration it extends shows the same symptom on this case
            let mut p = cfg.parent;
            let mut inherited = false;
            while let Some(pi) = p {
                inherited |= seen[pi].contains(&s);
                p = cfgs[pi].parent;
            }
            // a defect of the configuration itself (reported by the probe), or of the plain variant of this case
            let config_defect = cfg.base.contains(&s) && !probe;
            let baseline = suppress.map(|b| b.get(ci).map(|l| l.contains(&s)).unwrap_or(false)).unwrap_or(false);
            if inherited || config_defect || baseline {
                continue;
            }
            rep.fail(
                &format!("{}|cfg={}|{}", class, cfg.name, s),
                ord * 8 + ci as u64,
                || format!("annotation {:?} [{}] cfg={}: {} ;; output: {}", abs.ann_id, describe(abs), cfg.name, cut(&dd, 300), cut(&shown, 500)),
                || case(cfg.name),
            );
        }
    }
    seen
}

fn describe(abs: &Abs) -> String {
    let items: Vec<String> = abs
        .items
        .iter()
        .map(|i| match i {
            AItem::Text { res, b, e, via_ann } => format!("{}{:?}[{},{})", if *via_ann { "ann->" } else { "" }, res, b, e),
            AItem::AnnNode(id) => format!("annotation {:?}", id),
            AItem::ResNode(id) => format!("resource {:?}", id),
            AItem::SetNode(id) => format!("dataset {:?}", id),
            AItem::Unser => "key/data".into(),
        })
        .collect();
    let data: Vec<String> = abs.data.iter().map(|(s, k, v)| format!("{:?}/{:?}={:?}", s, k, v)).collect();
    format!("{:?} target {} data {}", abs.kind, items.join(" + "), data.join(", "))
}

const PROBE_CLASS: &str = "plain-annotation";

fn probe_spec() -> StoreSpec {
    StoreSpec { res: vec![("r".into(), "ab cd".into())], anns: vec![simple(Some("a0"), text("r", 0, 2), vec![d("s", "k", DataValue::String("v".into()))])] }
}

/// Export the plainest annotation (TextSelector, one string value, plain identifiers) under every configuration, report
/// what fails there under the class `plain-annotation`, and remember those symptoms per configuration.
pub fn probe_configs(rep: &Reporter, cn: &Counters) -> (Vec<Cfg>, Vec<Vec<String>>) {
    let mut cfgs = configs();
    let spec = probe_spec();
    let store = build(&spec).expect("the plain store must build");
    let abs = abs_of_spec(&spec, 0).unwrap();
    let ann = store.annotation("a0").expect("a0");
    // (not for the default configuration: what fails there is a property of the case, not of the configuration)
    for cfg in cfgs.iter_mut().skip(1) {
        if let Some(exp) = resolve(&abs, &cfg.w, &store) {
            if let Ok(out) = catch(|| ann.to_webannotation(&cfg.w)) {
                cfg.base = check_output(&out, &exp, &cfg.w).into_iter().map(|x| x.0).collect();
            }
        }
    }
    let seen = check_annotation(rep, &store, 0, &abs, &cfgs, PROBE_CLASS, 0, &|cfg| json!({"direct": {"sweep": "probe", "class": PROBE_CLASS, "spec": spec_to_json(&spec), "subject": 0}, "cfg": cfg}), cn, false, None);
    (cfgs, seen)
}

// ---------------------------------------------------------------------------------------------
// the direct sweeps

pub struct DCase {
    pub class: String,
    pub spec: StoreSpec,
    pub subjects: Vec<usize>,
    /// true: the class is the target shape class of the subject
    pub by_shape: bool,
    /// per subject, per configuration: symptoms of the plain variant of the case, not to be reported again
    pub suppress: Vec<Vec<Vec<String>>>,
}

fn simple(id: Option<&str>, part: PartSpec, data: Vec<DataSpec>) -> AnnSpec {
    AnnSpec { id: id.map(|x| x.to_string()), kind: TKind::Simple, parts: vec![part], data }
}

fn text(r: &str, b: usize, e: usize) -> PartSpec {
    PartSpec::Text(r.into(), b, e)
}

const KINDS: [TKind; 3] = [TKind::Multi, TKind::Composite, TKind::Directional];

/// (1) every selector kind, simple and nested, over all ranges of a short text
fn shape_cases(tier: Tier) -> Vec<DCase> {
    let rtext: &str = tier.pick("a\u{e9}\u{1d11e}", "a\u{e9}\u{1d11e}d");
    let len = rtext.chars().count();
    let base = StoreSpec {
        res: vec![("r".into(), rtext.into()), ("q".into(), "xyz".into())],
        anns: vec![
            simple(Some("a0"), text("r", 1, 3), vec![DataSpec { set: "s".into(), key: "k".into(), val: DataValue::Int(1), id: Some("d0".into()) }]),
            simple(Some("a1"), text("r", 0, 2), vec![d("s", "k2", DataValue::String("v".into()))]),
            simple(None, text("r", 0, 1), vec![]),
            simple(Some("a3"), PartSpec::Ann(0, Some((1, 2))), vec![]), // absolute [2,3)
        ],
    };
    let subject = base.anns.len();
    let plain_data = || vec![d("s", "k3", DataValue::String("v".into()))];
    let mut out: Vec<DCase> = Vec::new();
    let mut push = |kind: TKind, parts: Vec<PartSpec>, data: Vec<DataSpec>| {
        let mut spec = base.clone();
        spec.anns.push(AnnSpec { id: Some("x".into()), kind, parts, data });
        out.push(DCase { class: String::new(), spec, subjects: vec![subject], by_shape: true, suppress: vec![] });
    };
    // simple targets
    for (b, e) in all_ranges(len) {
        push(TKind::Simple, vec![text("r", b, e)], plain_data());
    }
    push(TKind::Simple, vec![text("q", 0, 1)], plain_data());
    push(TKind::Simple, vec![text("r", 0, 2)], vec![]);
    let simple_parts = vec![
        PartSpec::Ann(0, None),
        PartSpec::Ann(2, None),
        PartSpec::Ann(0, Some((0, 2))),
        PartSpec::Ann(0, Some((1, 2))),
        PartSpec::Ann(0, Some((0, 0))),
        PartSpec::Ann(3, Some((0, 1))),
        PartSpec::Res("r".into()),
        PartSpec::Set("s".into()),
        PartSpec::Key("s".into(), "k".into()),
        PartSpec::Data("s".into(), "d0".into()),
    ];
    for p in &simple_parts {
        push(TKind::Simple, vec![p.clone()], plain_data());
    }
    push(TKind::Simple, vec![PartSpec::Res("r".into())], vec![]);
    // complex targets over text selectors: all ordered pairs of distinct ranges, ordered triples of a pool
    let ranges = all_ranges(len);
    for kind in KINDS {
        for a in &ranges {
            for b in &ranges {
                if a != b {
                    push(kind, vec![text("r", a.0, a.1), text("r", b.0, b.1)], plain_data());
                }
            }
        }
        let pool: Vec<(usize, usize)> = tier.pick(vec![(0, 1), (1, 2), (2, 3), (0, 3)], ranges.clone());
        for a in &pool {
            for b in &pool {
                for c in &pool {
                    if a != b && b != c && a != c {
                        push(kind, vec![text("r", a.0, a.1), text("r", b.0, b.1), text("r", c.0, c.1)], plain_data());
                    }
                }
            }
        }
        push(kind, vec![text("r", 0, 1), text("r", 1, 2)], vec![]);
    }
    // complex targets over every part kind: all sequences of distinct parts up to a length
    let pool = vec![
        text("r", 0, 1),
        text("r", 1, 3),
        text("q", 0, 2),
        PartSpec::Ann(0, Some((1, 2))),
        PartSpec::Ann(0, None),
        PartSpec::Ann(1, None),
        PartSpec::Res("r".into()),
        PartSpec::Set("s".into()),
        PartSpec::Key("s".into(), "k".into()),
        PartSpec::Data("s".into(), "d0".into()),
    ];
    let n = pool.len();
    for kind in KINDS {
        for i in 0..n {
            push(kind, vec![pool[i].clone()], plain_data());
            for j in 0..n {
                if i == j {
                    continue;
                }
                push(kind, vec![pool[i].clone(), pool[j].clone()], plain_data());
                if tier == Tier::Thorough {
                    for k in 0..n {
                        if k != i && k != j {
                            push(kind, vec![pool[i].clone(), pool[j].clone(), pool[k].clone()], plain_data());
                        }
                    }
                }
            }
        }
    }
    out
}

/// JSON-relevant class of a string: the most delicate kind of character it contains
pub fn jclass(s: &str) -> String {
    if s.is_empty() {
        return "empty".into();
    }
    let has = |f: &dyn Fn(char) -> bool| s.chars().any(|c| f(c));
    let core = if has(&|c| c == '\\') {
        "backslash"
    } else if has(&|c| (c as u32) < 0x20 && c != '\n' && c != '\t') {
        "control"
    } else if has(&|c| c == '\t') {
        "tab"
    } else if has(&|c| c == '"') {
        "quote"
    } else if has(&|c| c == '\n') {
        "newline"
    } else if has(&|c| (c as u32) > 0xffff) {
        "nonbmp"
    } else if has(&|c| !c.is_ascii()) {
        "nonascii"
    } else {
        "ascii"
    };
    if s.contains(':') {
        format!("iri+{}", core)
    } else {
        core.into()
    }
}

fn vclass(v: &DataValue) -> String {
    match v {
        DataValue::String(s) => format!("String:{}", jclass(s)),
        DataValue::List(l) => format!("List[{}]", l.iter().map(vclass).collect::<Vec<_>>().join(",")),
        other => value_class(other),
    }
}

fn strings_up_to(syms: &[char], n: usize) -> Vec<String> {
    let mut all: Vec<String> = vec![String::new()];
    let mut last: Vec<String> = vec![String::new()];
    for _ in 0..n {
        let mut next = Vec::new();
        for s in &last {
            for c in syms {
                next.push(format!("{}{}", s, c));
            }
        }
        all.extend(next.iter().cloned());
        last = next;
    }
    all
}

fn extra_strings() -> Vec<String> {
    vec![
        "\r".into(),
        "\u{7f}".into(),
        "\u{0}".into(),
        "\u{1f}".into(),
        "\u{8}".into(),
        "http://example.org/x".into(),
        "http://example.org/a\\b".into(),
        "urn:a\u{1}".into(),
        "_:b".into(),
        "mailto:x".into(),
        "http://a b".into(),
    ]
    .into_iter()
    .chain(iri_awkward())
    .collect()
}

/// strings that start like an IRI (scheme the exporter recognises) and contain one awkward character later on
fn iri_awkward() -> Vec<String> {
    let mut v = Vec::new();
    for prefix in ["http://e/", "https://e/", "urn:", "file:", "_:"] {
        for c in ['"', '\n', '\t', '\\', '\u{1}', ' ', '\u{e9}'] {
            v.push(format!("{}{}", prefix, c));
            v.push(format!("{}a{}b", prefix, c));
        }
    }
    v
}

fn value_list(tier: Tier) -> Vec<DataValue> {
    let mut v = value_menu(true);
    for s in extra_strings() {
        v.push(DataValue::String(s));
    }
    if tier == Tier::Thorough {
        for s in strings_up_to(&['a', '"', '\\', '\n', '\t', '\u{1}', '\u{e9}', '\u{1f600}'], 3) {
            if s.chars().count() == 3 {
                v.push(DataValue::String(s));
            }
        }
    }
    v
}

/// (2) every value as body value, alone / first of two / second of two
fn value_cases(tier: Tier, plain: &Vec<Vec<String>>) -> Vec<DCase> {
    let mut out = Vec::new();
    let res = vec![("r".to_string(), "ab cd".to_string())];
    let mut push = |class: String, data: Vec<DataSpec>| {
        out.push(DCase {
            class,
            spec: StoreSpec { res: res.clone(), anns: vec![simple(Some("a0"), text("r", 0, 2), data)] },
            subjects: vec![0],
            by_shape: false,
            // the target and identifiers are those of the plain annotation: what fails there is not reported per value
            suppress: vec![plain.clone()],
        });
    };
    for v in value_list(tier) {
        let c = format!("value:{}", vclass(&v));
        push(c.clone(), vec![d("s", "k", v.clone())]);
        push(c.clone(), vec![d("s", "k", v.clone()), d("s", "z", DataValue::Int(7))]);
        push(c.clone(), vec![d("s", "j", DataValue::Int(7)), d("s", "k", v.clone())]);
    }
    push("value:two-values-under-one-key".into(), vec![d("s", "k", DataValue::Int(1)), d("s", "k", DataValue::Int(2))]);
    push("value:same-key-in-two-sets".into(), vec![d("s", "k", DataValue::Int(1)), d("s2", "k", DataValue::Int(2))]);
    out
}

/// (3) keys of the W3C Web Annotation namespace
fn annokey_cases(plain: &Vec<Vec<String>>) -> Vec<DCase> {
    let mut out = Vec::new();
    let res = vec![("r".to_string(), "ab cd".to_string())];
    let mut push = |class: String, data: Vec<DataSpec>| {
        out.push(DCase {
            class,
            spec: StoreSpec { res: res.clone(), anns: vec![simple(Some("a0"), text("r", 0, 2), data)] },
            subjects: vec![0],
            by_shape: false,
            // the target and identifiers are those of the plain annotation: what fails there is not reported per value
            suppress: vec![plain.clone()],
        });
    };
    let sv = |s: &str| DataValue::String(s.to_string());
    let keys = ["motivation", "created", "creator", "generated", "generator", "value", "purpose", "type", "id"];
    for set in [NS_ANNO, CONTEXT_ANNO] {
        for key in keys {
            let place = if TOP_KEYS.contains(&key) {
                "top".to_string()
            } else if key == "type" || key == "id" {
                format!("body-{}", key)
            } else {
                "body".to_string()
            };
            let v = sv("tagging");
            push(format!("annokey:{}:alone", place), vec![d(set, key, v.clone())]);
            push(format!("annokey:{}:before-plain-key", place), vec![d(set, key, v.clone()), d("s", "k", sv("v"))]);
            push(format!("annokey:{}:after-plain-key", place), vec![d("s", "k", sv("v")), d(set, key, v.clone())]);
            if key != "creator" {
                push(format!("annokey:{}:with-creator", place), vec![d(set, key, v.clone()), d(set, "creator", sv("me"))]);
            }
            if key != "purpose" {
                push(format!("annokey:{}:with-purpose", place), vec![d(set, key, v.clone()), d(set, "purpose", sv("p"))]);
            }
        }
        let dt = DataValue::Datetime(chrono::DateTime::parse_from_rfc3339("2024-03-01T12:30:45+01:00").unwrap());
        for key in ["motivation", "value"] {
            let place = if key == "motivation" { "top" } else { "body" };
            for (vi, v) in [
                sv("http://example.org/x"),
                sv("a\\b"),
                sv("a\tb"),
                sv("a\"b"),
                DataValue::Int(3),
                DataValue::Bool(true),
                DataValue::Null,
                dt.clone(),
                DataValue::List(vec![DataValue::Int(1), DataValue::Int(2)]),
            ]
            .into_iter()
            .enumerate()
            {
                if place == "body" && vi != 0 && vi != 3 {
                    continue; // body members share the code path of the value sweep: only the IRI and the quote variant
                }
                push(format!("annokey:{}:value={}", place, vclass(&v)), vec![d(set, key, v.clone()), d("s", "k", sv("v"))]);
            }
        }
    }
    out
}

fn ident_strings(tier: Tier) -> Vec<String> {
    let mut v: Vec<String> = awkward_strings().into_iter().filter(|s| !s.is_empty()).collect();
    v.extend(extra_strings());
    if tier == Tier::Thorough {
        for s in strings_up_to(&['a', '"', '\\', '\t', '\u{e9}'], 3) {
            if s.chars().count() == 3 {
                v.push(s);
            }
        }
    }
    v
}

fn ident_spec(a: &str, r: &str, set: &str, key: &str) -> StoreSpec {
    StoreSpec {
        res: vec![(r.to_string(), "ab cd".into())],
        anns: vec![
            simple(Some(a), text(r, 0, 2), vec![d(set, key, DataValue::Int(1))]),
            simple(Some("t1"), PartSpec::Ann(0, None), vec![]),
            simple(Some("t2"), PartSpec::Res(r.to_string()), vec![]),
            simple(Some("t3"), PartSpec::Set(set.to_string()), vec![]),
            AnnSpec { id: Some("t4".into()), kind: TKind::Directional, parts: vec![text(r, 3, 5), text(r, 0, 1)], data: vec![] },
        ],
    }
}

/// Symptoms of the identifier-sweep store with plain identifiers, per annotation and configuration: they belong to the
/// target shapes (reported by the shape sweep), not to the identifiers.
fn ident_baseline(cfgs: &[Cfg]) -> Vec<Vec<Vec<String>>> {
    let spec = ident_spec("a0", "r", "s", "k");
    let silent = Reporter::new("C17-baseline", Tier::Quick, true);
    let cn = Counters::default();
    let store = build(&spec).expect("plain identifier store must build");
    (0..spec.anns.len())
        .map(|i| {
            let abs = abs_of_spec(&spec, i).unwrap();
            check_annotation(&silent, &store, i, &abs, cfgs, "baseline", 0, &|_| Value::Null, &cn, false, None)
        })
        .collect()
}

/// (4) every awkward string in every identifier role
fn ident_cases(tier: Tier, cfgs: &[Cfg]) -> Vec<DCase> {
    let baseline = ident_baseline(cfgs);
    let mut out = Vec::new();
    for s in ident_strings(tier) {
        for role in ["annotation-id", "resource-id", "dataset-id", "key-id"] {
            let pick = |r: &str, dflt: &str| if role == r { s.clone() } else { dflt.to_string() };
            let spec = ident_spec(&pick("annotation-id", "a0"), &pick("resource-id", "r"), &pick("dataset-id", "s"), &pick("key-id", "k"));
            let subjects = match role {
                "annotation-id" => vec![0, 1],
                "resource-id" => vec![0, 2, 4],
                "dataset-id" => vec![0, 3],
                _ => vec![0],
            };
            out.push(DCase { class: format!("{}:{}", role, jclass(&s)), spec, suppress: subjects.iter().map(|i| baseline[*i].clone()).collect(), subjects, by_shape: false });
        }
    }
    out
}

fn run_direct(rep: &Reporter, name: &str, base_ord: u64, cases: &[DCase], cfgs: &[Cfg], cn: &Counters, build_failures: &AtomicU64) {
    cases.par_iter().enumerate().for_each(|(i, c)| {
        let store = match build(&c.spec) {
            Ok(s) => s,
            Err(e) => {
                build_failures.fetch_add(1, Ordering::Relaxed);
                if std::env::var("C17_DEBUG").is_ok() {
                    eprintln!("C17REFUSED {} {} {:?}", name, e, c.spec.anns.last().map(|a| (&a.id, a.kind, &a.parts)));
                }
                return;
            }
        };
        for (si, &subj) in c.subjects.iter().enumerate() {
            let abs = match abs_of_spec(&c.spec, subj) {
                Some(a) => a,
                None => continue,
            };
            let class = if c.by_shape { shape_class(&abs) } else { c.class.clone() };
            // simplest witness first: few parts, short identifiers, short string values
            let size: usize = c.spec.anns[subj].parts.len()
                + c.spec.res.iter().map(|r| r.0.len()).sum::<usize>()
                + c.spec.anns.iter().map(|a| a.id.as_ref().map(|x| x.len()).unwrap_or(0)).sum::<usize>()
                + c.spec.anns[subj]
                    .data
                    .iter()
                    .map(|d| d.set.len() + d.key.len() + if let DataValue::String(x) = &d.val { x.len() } else { 0 })
                    .sum::<usize>();
            check_annotation(
                rep,
                &store,
                subj,
                &abs,
                cfgs,
                &class,
                base_ord + (size as u64) * 1_000_000 + i as u64,
                &|cfg| json!({"direct": {"sweep": name, "class": class, "spec": spec_to_json(&c.spec), "subject": subj}, "cfg": cfg}),
                cn,
                false,
                c.suppress.get(si),
            );
        }
    });
}

// ---------------------------------------------------------------------------------------------
// (5) the stores of the history exploration

struct HistOracle {
    cfgs: Vec<Cfg>,
    cn: Counters,
    anns: AtomicU64,
    /// annotations with key/data selectors nested in a complex target make the library print a warning on stderr at
    /// every export: each distinct such annotation (by content) is exported once, not once per state
    noisy_seen: std::sync::Mutex<std::collections::HashSet<u64>>,
    noisy_skipped: AtomicU64,
}

impl Oracle for HistOracle {
    fn transition(&self, rep: &Reporter, t: &Trans) -> bool {
        if t.divergence.is_some() || !t.new_state {
            return true;
        }
        for i in t.post_model.live_anns() {
            let abs = match abs_of_model(t.post_model, i) {
                Some(a) => a,
                None => {
                    self.cn.skipped.fetch_add(1, Ordering::Relaxed);
                    continue;
                }
            };
            if abs.kind != TKind::Simple && abs.items.iter().any(|x| matches!(x, AItem::Unser)) {
                let key = crate::util::fnv64(format!("{:?}", abs).as_bytes());
                if !self.noisy_seen.lock().unwrap().insert(key) {
                    self.noisy_skipped.fetch_add(1, Ordering::Relaxed);
                    continue;
                }
            }
            self.anns.fetch_add(1, Ordering::Relaxed);
            let class = shape_class(&abs);
            check_annotation(
                rep,
                t.post,
                i,
                &abs,
                &self.cfgs,
                &class,
                (1 << 40) + (t.ord >> 8),
                &|cfg| json!({"history": history_json(t.hist, Some(t.op)), "ann": i, "cfg": cfg}),
                &self.cn,
                false,
                None,
            );
        }
        true
    }
}

pub fn run(rep: &Reporter) -> Coverage {
    let cn = Counters::default();
    let (cfgs, plain) = probe_configs(rep, &cn);
    let build_failures = AtomicU64::new(0);
    let sweeps: Vec<(&str, Vec<DCase>)> = vec![
        ("shape", shape_cases(rep.tier)),
        ("value", value_cases(rep.tier, &plain)),
        ("annokey", annokey_cases(&plain)),
        ("ident", ident_cases(rep.tier, &cfgs)),
    ];
    let mut space = Map::new();
    let mut direct_cases = 0u64;
    for (k, (name, cases)) in sweeps.iter().enumerate() {
        run_direct(rep, name, (k as u64) << 36, cases, &cfgs, &cn, &build_failures);
        let n: u64 = cases.iter().map(|c| c.subjects.len() as u64).sum();
        direct_cases += n * cfgs.len() as u64;
        space.insert(format!("{}_sweep", name), json!({"stores": cases.len(), "annotations_exported": n, "configurations": cfgs.len()}));
    }
    let direct_exports = cn.exports.load(Ordering::Relaxed);
    // history stores
    let oracle = HistOracle { cfgs: probe_configs(rep, &Counters::default()).0, cn: Counters::default(), anns: AtomicU64::new(0), noisy_seen: Default::default(), noisy_skipped: AtomicU64::new(0) };
    let mut runs = Vec::new();
    let mut exhaustive = true;
    let mut hist_states = 0u64;
    let mut hist_transitions = 0u64;
    let mut samples: Vec<Value> = Vec::new();
    let budget = rep.tier.pick(25.0, 600.0);
    // The explorations are those of C01; depth is capped at 4 operations after the initial ones: an export reads one
    // annotation and the items it references, and every (state, annotation) pair is exported six times, so the fifth
    // level of the reduced alphabet (5x the cost of everything else together) would add states but no new annotations.
    for plan in plans(rep.tier) {
        let depth = plan.depth.min(4);
        let stats = explore(rep, &oracle, &plan.init, &plan.al, depth, budget);
        hist_states += stats.states;
        hist_transitions += stats.transitions;
        exhaustive &= stats.completed_depth == depth;
        for h in stats.sample_histories.iter().take(1) {
            samples.push(json!({"history": h, "then": "export every live annotation under every configuration"}));
        }
        runs.push(json!({"exploration": plan.name, "depth_requested": depth, "depth_completed": stats.completed_depth,
            "new_states_per_depth": stats.depth_hist, "transitions": stats.transitions}));
    }
    let hist_exports = oracle.cn.exports.load(Ordering::Relaxed);
    let sum = |f: &dyn Fn(&Counters) -> &AtomicU64| f(&cn).load(Ordering::Relaxed) + f(&oracle.cn).load(Ordering::Relaxed);
    let mut cov = Coverage::default();
    let _ = direct_cases;
    cov.states = direct_exports + hist_exports;
    cov.transitions = direct_exports + hist_exports + hist_transitions;
    cov.evaluations = direct_exports + hist_exports;
    cov.traces_validated = direct_exports + hist_exports;
    cov.distinct_nontrivial = sum(&|c| &c.accepted);
    cov.exhaustive = exhaustive;
    cov.rule = "states = (store, annotation, export configuration) cases: (1) every selector kind as simple target (TextSelector over all ranges [b,e) of the text, AnnotationSelector with/without offset incl. a chain and an id-less annotation, ResourceSelector, DataSetSelector, DataKeySelector, AnnotationDataSelector) and nested in Multi/Composite/Directional selectors (all ordered pairs of distinct ranges, ordered triples of a pool, all sequences of distinct parts of a 10-part pool up to the stated length); (2) every value of the menu (Null, Bool, Int incl. range ends, Float incl. NaN/inf, datetimes with offsets and sub-seconds, flat/nested/empty lists, all strings of length <= 2 over 12 symbols plus control/IRI strings; thorough: length 3 over 8 symbols) alone, before and after another member; (3) the keys of the W3C namespace in five layouts and with nine value kinds; (4) every awkward string as annotation / resource / dataset / key identifier; (5) every live annotation of every distinct state of the history explorations of C01 up to depth 4 (expectation derived from the reference model; an annotation with a key/data selector nested in a complex target is exported once per distinct content because the library warns on stderr at each export); each crossed with the six configurations {default, IRI prefixes, namespaces, extra_context, namespaces+extra_context, extra_target_template}. transitions = to_webannotation calls + history operations; every output is parsed with serde_json and compared structurally (id, @context, flattened target items in order, template targets, each data member's JSON type and content). non-trivial = exports with non-empty output".into();
    samples.push(json!({"direct": "Directional[Text(r,1,3), Text(r,0,1)] with data s/k3=\"v\" under cfg template"}));
    samples.push(json!({"direct": "value List[[1],[],\"x\"] as s/k followed by s/z=7 under cfg namespaces"}));
    samples.push(json!({"direct": "resource id \"\\\\\\t\" exported through TextSelector, ResourceSelector and Directional selector under cfg prefixes"}));
    cov.samples = samples;
    space.insert("history_explorations".into(), json!(runs));
    space.insert("history_states".into(), json!(hist_states));
    space.insert("history_repeat_exports_of_annotations_with_nested_key_or_data_selector_not_made".into(), json!(oracle.noisy_skipped.load(Ordering::Relaxed)));
    space.insert("history_annotations_exported".into(), json!(oracle.anns.load(Ordering::Relaxed)));
    space.insert("configurations".into(), json!(cfgs.iter().map(|c| c.name).collect::<Vec<_>>()));
    cov.extra.insert("space".into(), Value::Object(space));
    cov.extra.insert("exports".into(), json!(direct_exports + hist_exports));
    cov.extra.insert("exports_with_output".into(), json!(sum(&|c| &c.accepted)));
    cov.extra.insert("exports_faithful".into(), json!(sum(&|c| &c.faithful)));
    cov.extra.insert("exports_empty_output".into(), json!(sum(&|c| &c.rejected)));
    cov.extra.insert("cases_skipped_item_not_found".into(), json!(sum(&|c| &c.skipped)));
    cov.extra.insert("stores_refused_by_builder".into(), json!(build_failures.load(Ordering::Relaxed)));
    if std::env::var("C17_DEBUG").is_ok() {
        eprintln!("C17DEBUG {}", serde_json::to_string_pretty(&cov.extra).unwrap());
    }
    cov.assumptions = vec![
        "identifiers without special characters map to IRIs as documented (kept if already an IRI, else prefix joined with '/' unless the prefix ends in '/', '#' or ':'); for identifiers with special characters the documentation only promises 'some transformations', so the expected IRI is what the library's public IRI::iri() returns and only its JSON encoding is checked".into(),
        "the parts of Multi- and CompositeSelectors are compared as a multiset (STAM gives their order no meaning and the store normalises it); Simple and Directional targets are compared in order".into(),
        "the type IRI used for the complex-selector wrapper object and the presence of body type/id members are not checked (not part of the property)".into(),
        "non-finite floats have no JSON form: only well-formedness is required for them; finite floats are compared with relative tolerance 1e-14 (serde_json's number parser is not correctly rounded)".into(),
        "a string value containing ':' may be exported either as a JSON string or as {\"id\": string} (STAM: IRI-valued strings should be read as IRIs)".into(),
        "an AnnotationSelector on an annotation without public id has no documented form: only well-formedness is required of that target item".into(),
        "stores the builder API refuses (or panics on) are not cases of this property; their number is reported".into(),
        "the export of an annotation with a top-level DataKeySelector / AnnotationDataSelector is documented as empty (not accepted)".into(),
    ];
    cov
}

/// Re-execute one recorded case and print every configuration's output and verdict.
pub fn replay(rep: &Reporter, case: &Value) {
    let cn = Counters::default();
    // the configuration probe runs silently here: its own findings are replayed through their own case files
    let (cfgs, plain) = probe_configs(&Reporter::new("C17-probe", Tier::Quick, true), &Counters::default());
    if let Some(dc) = case.get("direct") {
        let spec = match spec_from_json(&dc["spec"]) {
            Some(s) => s,
            None => {
                println!("replay C17: cannot decode the case specification");
                return;
            }
        };
        let subj = dc["subject"].as_u64().unwrap_or(0) as usize;
        let class = dc["class"].as_str().unwrap_or("?").to_string();
        println!("replay C17: sweep={} class={} subject annotation #{}", dc["sweep"], class, subj);
        for (i, a) in spec.anns.iter().enumerate() {
            println!("   annotation #{} id={:?} {:?} {:?} data={:?}", i, a.id, a.kind, a.parts, a.data.iter().map(|d| (&d.set, &d.key, &d.val)).collect::<Vec<_>>());
        }
        let store = match build(&spec) {
            Ok(s) => s,
            Err(e) => {
                println!("  the builder refused the store: {}", e);
                return;
            }
        };
        if let Some(abs) = abs_of_spec(&spec, subj) {
            let c = case.clone();
            let baseline = if dc["sweep"] == "ident" {
                ident_baseline(&cfgs).get(subj).cloned()
            } else if dc["sweep"] == "value" || dc["sweep"] == "annokey" {
                Some(plain.clone())
            } else {
                None
            };
            check_annotation(rep, &store, subj, &abs, &cfgs, &class, 0, &|_| c.clone(), &cn, true, baseline.as_ref());
        }
    } else {
        let hist = history_from_json(&case["history"]);
        let i = case["ann"].as_u64().unwrap_or(0) as usize;
        println!("replay C17: history:");
        for o in &hist {
            println!("   {}", o.short());
        }
        let (store, _) = crate::ops::replay_real(&hist);
        let model = replay_model(&hist);
        match abs_of_model(&model, i) {
            Some(abs) => {
                println!("  annotation #{}: {}", i, describe(&abs));
                let class = shape_class(&abs);
                let c = case.clone();
                check_annotation(rep, &store, i, &abs, &cfgs, &class, 0, &|_| c.clone(), &cn, true, None);
            }
            None => println!("  annotation #{} is not live in the model", i),
        }
    }
    println!(
        "  exports={} with-output={} faithful={} skipped={}",
        cn.exports.load(Ordering::Relaxed),
        cn.accepted.load(Ordering::Relaxed),
        cn.faithful.load(Ordering::Relaxed),
        cn.skipped.load(Ordering::Relaxed)
    );
}
