//! Public-API observation of a real store: forward references rendered by public id, the abstract
//! content of the store, and the self-consistency check "every reverse lookup = scan of forward references".

use crate::model::{data_name, FAnn, FRef, Model};
use crate::ops::{mode_code, TKind, Val};
use crate::util::{catch, msg_class};
use stam::*;
use std::collections::{BTreeMap, BTreeSet};

/// forward reference with raw handles
#[derive(Clone, Debug, PartialEq, Eq)]
pub enum HRef {
    Text { res: usize, tsel: usize, mode: u8 },
    Ann { ann: usize, text: Option<(usize, usize, u8)> },
    Res(usize),
    Set(usize),
    Key(usize, usize),
    Data(usize, usize),
}

pub struct HAnn {
    pub handle: usize,
    pub id: Option<String>,
    pub kind: TKind,
    pub parts: Vec<HRef>,
    pub data: Vec<(usize, usize)>,
}

fn walk_selector(store: &AnnotationStore, sel: &Selector, out: &mut Vec<HRef>) {
    match sel {
        Selector::TextSelector(r, t, m) => out.push(HRef::Text { res: r.as_usize(), tsel: t.as_usize(), mode: mode_code(*m) }),
        Selector::AnnotationSelector(a, t) => out.push(HRef::Ann {
            ann: a.as_usize(),
            text: t.map(|(r, t, m)| (r.as_usize(), t.as_usize(), mode_code(m))),
        }),
        Selector::ResourceSelector(r) => out.push(HRef::Res(r.as_usize())),
        Selector::DataSetSelector(s) => out.push(HRef::Set(s.as_usize())),
        Selector::DataKeySelector(s, k) => out.push(HRef::Key(s.as_usize(), k.as_usize())),
        Selector::AnnotationDataSelector(s, d) => out.push(HRef::Data(s.as_usize(), d.as_usize())),
        Selector::MultiSelector(v) | Selector::CompositeSelector(v) | Selector::DirectionalSelector(v) => {
            for s in v {
                walk_selector(store, s, out);
            }
        }
        Selector::RangedTextSelector { resource, begin, end } => {
            for i in begin.as_usize()..=end.as_usize() {
                out.push(HRef::Text { res: resource.as_usize(), tsel: i, mode: 0 });
            }
        }
        Selector::RangedAnnotationSelector { begin, end, with_text } => {
            for i in begin.as_usize()..=end.as_usize() {
                let text = if *with_text {
                    // the whole text of the targeted annotation
                    store.annotation(AnnotationHandle::new(i)).and_then(|a| {
                        let t = a.as_ref().target();
                        match (t.resource_handle(), t.textselection_handle()) {
                            (Some(r), Some(ts)) => Some((r.as_usize(), ts.as_usize(), 1u8)),
                            _ => None,
                        }
                    })
                } else {
                    None
                };
                out.push(HRef::Ann { ann: i, text });
            }
        }
    }
}

/// Forward references of every live annotation, by my own walk over the public `Selector` enum.
pub fn forward_handles(store: &AnnotationStore) -> Vec<HAnn> {
    let mut out = Vec::new();
    for a in store.annotations() {
        let sel = a.as_ref().target();
        let kind = match sel {
            Selector::MultiSelector(_) => TKind::Multi,
            Selector::CompositeSelector(_) => TKind::Composite,
            Selector::DirectionalSelector(_) => TKind::Directional,
            _ => TKind::Simple,
        };
        let mut parts = Vec::new();
        walk_selector(store, sel, &mut parts);
        out.push(HAnn {
            handle: a.handle().as_usize(),
            id: a.id().map(|s| s.to_string()),
            kind,
            parts,
            data: a.as_ref().raw_data().iter().map(|(s, d)| (s.as_usize(), d.as_usize())).collect(),
        });
    }
    out
}

fn res_name(store: &AnnotationStore, r: usize) -> String {
    store
        .resource(TextResourceHandle::new(r))
        .and_then(|r| r.id().map(|s| s.to_string()))
        .unwrap_or_else(|| format!("<dead res {}>", r))
}
fn set_name(store: &AnnotationStore, s: usize) -> String {
    store
        .dataset(AnnotationDataSetHandle::new(s))
        .and_then(|r| r.id().map(|s| s.to_string()))
        .unwrap_or_else(|| format!("<dead set {}>", s))
}
fn ann_name(store: &AnnotationStore, a: usize) -> String {
    match store.annotation(AnnotationHandle::new(a)) {
        Some(x) => x.id().map(|s| s.to_string()).unwrap_or_else(|| format!("!A{}", a)),
        None => format!("<dead {}>", a),
    }
}
pub fn tsel_range(store: &AnnotationStore, r: usize, t: usize) -> Option<(usize, usize)> {
    let res = store.resource(TextResourceHandle::new(r))?;
    let ts: &TextSelection = res.as_ref().get(TextSelectionHandle::new(t)).ok()?;
    Some((ts.begin(), ts.end()))
}

pub fn datavalue_to_val(v: &DataValue) -> Val {
    match v {
        DataValue::String(s) => Val::S(s.clone()),
        DataValue::Int(i) => Val::I(*i as i64),
        other => Val::S(format!("<{:?}>", other)),
    }
}

/// Forward references rendered by public id (same shape as `Model::forward`)
pub fn forward_real(store: &AnnotationStore) -> Vec<FAnn> {
    let mut out = Vec::new();
    for a in forward_handles(store) {
        let parts = a
            .parts
            .iter()
            .map(|p| match p {
                HRef::Text { res, tsel, mode } => match tsel_range(store, *res, *tsel) {
                    Some((b, e)) => FRef::Text { res: res_name(store, *res), b, e, mode: *mode },
                    None => FRef::Text { res: format!("<dangling selection {}:{}>", res, tsel), b: 0, e: 0, mode: *mode },
                },
                HRef::Ann { ann, text } => FRef::Ann {
                    ann: ann_name(store, *ann),
                    text: text.map(|(r, t, m)| match tsel_range(store, r, t) {
                        Some((b, e)) => (res_name(store, r), b, e, m),
                        None => (format!("<dangling selection {}:{}>", r, t), 0, 0, m),
                    }),
                },
                HRef::Res(r) => FRef::Res(res_name(store, *r)),
                HRef::Set(s) => FRef::Set(set_name(store, *s)),
                HRef::Key(s, k) => FRef::Key(
                    set_name(store, *s),
                    store
                        .dataset(AnnotationDataSetHandle::new(*s))
                        .and_then(|set| set.key(DataKeyHandle::new(*k)))
                        .map(|k| k.as_str().to_string())
                        .unwrap_or_else(|| format!("<dead key {}>", k)),
                ),
                HRef::Data(s, d) => FRef::Data(
                    set_name(store, *s),
                    store
                        .dataset(AnnotationDataSetHandle::new(*s))
                        .and_then(|set| set.annotationdata(AnnotationDataHandle::new(*d)))
                        .map(|x| data_name(x.id(), *d))
                        .unwrap_or_else(|| format!("<dead data {}>", d)),
                ),
            })
            .collect();
        let data = a
            .data
            .iter()
            .map(|(s, d)| {
                match store
                    .dataset(AnnotationDataSetHandle::new(*s))
                    .and_then(|set| set.annotationdata(AnnotationDataHandle::new(*d)))
                {
                    Some(item) => {
                        let key = catch(|| item.key().as_str().to_string()).unwrap_or_else(|_| "<dead key>".into());
                        (set_name(store, *s), data_name(item.id(), *d), key, datavalue_to_val(item.value()))
                    }
                    None => (format!("<dead {}>", s), format!("<dead {}>", d), String::new(), Val::I(0)),
                }
            })
            .collect();
        out.push(FAnn {
            name: a.id.clone().unwrap_or_else(|| format!("!A{}", a.handle)),
            kind: a.kind,
            parts,
            data,
        });
    }
    out
}

/// The abstract content of a store: resources, datasets, annotations, rendered by public ids.
#[derive(Clone, Debug, PartialEq, Eq, Default)]
pub struct Abstract {
    /// (id, text, known selections sorted)
    pub resources: Vec<(String, String, Vec<(usize, usize)>)>,
    /// (id, live key ids in handle order, live data (name, key id, value) in handle order)
    pub sets: Vec<(String, Vec<String>, Vec<(String, String, Val)>)>,
    pub anns: Vec<FAnn>,
}

pub fn abstract_real(store: &AnnotationStore) -> Abstract {
    let mut a = Abstract::default();
    for r in store.resources() {
        let mut sels: Vec<(usize, usize)> = r.textselections().map(|t| (t.begin(), t.end())).collect();
        sels.sort();
        a.resources.push((r.id().unwrap_or("").to_string(), r.text().to_string(), sels));
    }
    for s in store.datasets() {
        let keys = s.keys().map(|k| k.as_str().to_string()).collect();
        let data = s
            .data()
            .map(|d| {
                let key = catch(|| d.key().as_str().to_string()).unwrap_or_else(|_| "<dead key>".into());
                (data_name(d.id(), d.handle().as_usize()), key, datavalue_to_val(d.value()))
            })
            .collect();
        a.sets.push((s.id().unwrap_or("").to_string(), keys, data));
    }
    a.anns = forward_real(store);
    a
}

pub fn abstract_model(m: &Model) -> Abstract {
    let mut a = Abstract::default();
    for r in m.res.iter().flatten() {
        let mut sels = r.sels.clone();
        sels.sort();
        a.resources.push((r.id.clone(), r.text.clone(), sels));
    }
    for s in m.sets.iter().flatten() {
        let keys = s.keys.iter().flatten().cloned().collect();
        let data = s
            .data
            .iter()
            .enumerate()
            .filter_map(|(i, d)| {
                d.as_ref().map(|d| {
                    (
                        data_name(d.id.as_deref(), i),
                        s.keys[d.key].clone().unwrap_or_else(|| "<dead key>".into()),
                        d.val.clone(),
                    )
                })
            })
            .collect();
        a.sets.push((s.id.clone(), keys, data));
    }
    a.anns = m.forward();
    a
}

/// Normalise the order of parts for selectors whose order is documented as not significant
pub fn normalise_ann(a: &FAnn) -> FAnn {
    let mut a = a.clone();
    // the alignment mode only decides how an offset is reported back (C04/C05), it is not part of what is targeted
    for p in a.parts.iter_mut() {
        match p {
            FRef::Text { mode, .. } => *mode = 0,
            FRef::Ann { text: Some(t), .. } => t.3 = 0,
            _ => {}
        }
    }
    if a.kind == TKind::Multi || a.kind == TKind::Composite {
        a.parts.sort();
    }
    a
}

/// First difference between two abstracts as (section, detail); None if equal
pub fn diff_abstract(real: &Abstract, model: &Abstract) -> Option<(String, String)> {
    if real.resources != model.resources {
        let rids: Vec<&String> = real.resources.iter().map(|r| &r.0).collect();
        let mids: Vec<&String> = model.resources.iter().map(|r| &r.0).collect();
        if rids != mids {
            return Some(("resources".into(), format!("live resources {:?}, expected {:?}", rids, mids)));
        }
        for (r, m) in real.resources.iter().zip(model.resources.iter()) {
            if r.1 != m.1 {
                return Some(("resource-text".into(), format!("{}: text {:?}, expected {:?}", r.0, r.1, m.1)));
            }
            if r.2 != m.2 {
                return Some(("textselections".into(), format!("{}: known selections {:?}, expected {:?}", r.0, r.2, m.2)));
            }
        }
    }
    if real.sets != model.sets {
        let rids: Vec<&String> = real.sets.iter().map(|r| &r.0).collect();
        let mids: Vec<&String> = model.sets.iter().map(|r| &r.0).collect();
        if rids != mids {
            return Some(("datasets".into(), format!("live datasets {:?}, expected {:?}", rids, mids)));
        }
        for (r, m) in real.sets.iter().zip(model.sets.iter()) {
            if r.1 != m.1 {
                return Some(("keys".into(), format!("{}: keys {:?}, expected {:?}", r.0, r.1, m.1)));
            }
            if r.2 != m.2 {
                return Some(("data".into(), format!("{}: data {:?}, expected {:?}", r.0, r.2, m.2)));
            }
        }
    }
    let rn: Vec<&String> = real.anns.iter().map(|a| &a.name).collect();
    let mn: Vec<&String> = model.anns.iter().map(|a| &a.name).collect();
    if rn != mn {
        let rs: BTreeSet<&String> = rn.iter().copied().collect();
        let ms: BTreeSet<&String> = mn.iter().copied().collect();
        let extra: Vec<&&String> = rs.difference(&ms).collect();
        let missing: Vec<&&String> = ms.difference(&rs).collect();
        let what = if !missing.is_empty() && extra.is_empty() {
            "annotations-missing"
        } else if missing.is_empty() && !extra.is_empty() {
            "annotations-extra"
        } else {
            "annotations-differ"
        };
        return Some((what.into(), format!("live annotations {:?}, expected {:?}", rn, mn)));
    }
    for (r, m) in real.anns.iter().zip(model.anns.iter()) {
        let (rn, mn) = (normalise_ann(r), normalise_ann(m));
        if rn.kind != mn.kind {
            return Some(("target-kind".into(), format!("{}: kind {:?}, expected {:?}", r.name, r.kind, m.kind)));
        }
        if rn.parts != mn.parts {
            return Some(("target".into(), format!("{}: target {:?}, built with {:?}", r.name, rn.parts, mn.parts)));
        }
        if rn.data != mn.data {
            return Some(("annotation-data".into(), format!("{}: data {:?}, expected {:?}", r.name, rn.data, mn.data)));
        }
    }
    None
}

// ---------------------------------------------------------------------------------------------
// reverse lookups = scan of forward references

pub struct RevFail {
    pub accessor: &'static str,
    pub symptom: String,
    pub detail: String,
}

fn cmp_list(out: &mut Vec<RevFail>, accessor: &'static str, item: &str, got: Result<Vec<usize>, String>, want: &[usize]) {
    match got {
        Err(m) => out.push(RevFail { accessor, symptom: format!("panic:{}", msg_class(&m)), detail: format!("{}: panicked", item) }),
        Ok(got) => {
            if got != want {
                let gs: BTreeSet<usize> = got.iter().copied().collect();
                let ws: BTreeSet<usize> = want.iter().copied().collect();
                let symptom = if gs.len() != got.len() {
                    "duplicate"
                } else if gs == ws {
                    "order"
                } else if gs.is_subset(&ws) {
                    "missing"
                } else if ws.is_subset(&gs) {
                    "extra"
                } else {
                    "missing+extra"
                };
                out.push(RevFail { accessor, symptom: symptom.into(), detail: format!("{}: got {:?}, forward references say {:?}", item, got, want) });
            }
        }
    }
}

fn cmp_count(out: &mut Vec<RevFail>, accessor: &'static str, item: &str, got: Result<usize, String>, want: usize) {
    match got {
        Err(m) => out.push(RevFail { accessor, symptom: format!("panic:{}", msg_class(&m)), detail: format!("{}: panicked", item) }),
        Ok(got) => {
            if got != want {
                let symptom = if got > want { "count-too-high(stale-or-duplicate)" } else { "count-too-low" };
                out.push(RevFail { accessor, symptom: symptom.into(), detail: format!("{}: got {}, forward references say {}", item, got, want) });
            }
        }
    }
}

/// references of an annotation as the selector iterator with recursion sees them: its own parts and, through
/// AnnotationSelectors, the parts of the annotations it targets (transitively)
fn closure_parts<'a>(fw: &'a [HAnn], h: usize, seen: &mut Vec<usize>, out: &mut Vec<&'a HRef>) {
    if seen.contains(&h) {
        return;
    }
    seen.push(h);
    if let Some(a) = fw.iter().find(|a| a.handle == h) {
        for p in &a.parts {
            out.push(p);
            if let HRef::Ann { ann, .. } = p {
                closure_parts(fw, *ann, seen, out);
            }
        }
    }
}

fn cmp_set<T: Ord + std::fmt::Debug + Clone>(out: &mut Vec<RevFail>, accessor: &'static str, item: &str, got: Result<Vec<T>, String>, want: &BTreeSet<T>) {
    match got {
        Err(m) => out.push(RevFail { accessor, symptom: format!("panic:{}", msg_class(&m)), detail: format!("{}: panicked", item) }),
        Ok(got) => {
            let gs: BTreeSet<T> = got.iter().cloned().collect();
            if gs.len() != got.len() {
                out.push(RevFail { accessor, symptom: "duplicate".into(), detail: format!("{}: got {:?}", item, got) });
            } else if &gs != want {
                let symptom = if gs.is_subset(want) { "missing" } else if want.is_subset(&gs) { "extra" } else { "missing+extra" };
                out.push(RevFail { accessor, symptom: symptom.into(), detail: format!("{}: got {:?}, forward references say {:?}", item, got, want) });
            }
        }
    }
}

/// `lower` must be contained in the result and the result in `upper` (the documentation leaves open whether references
/// reached through targeted annotations count; both readings are accepted, anything outside them is not)
fn cmp_between<T: Ord + std::fmt::Debug + Clone>(out: &mut Vec<RevFail>, accessor: &'static str, item: &str, got: Result<Vec<T>, String>, lower: &BTreeSet<T>, upper: &BTreeSet<T>) {
    match got {
        Err(m) => out.push(RevFail { accessor, symptom: format!("panic:{}", msg_class(&m)), detail: format!("{}: panicked", item) }),
        Ok(got) => {
            let gs: BTreeSet<T> = got.iter().cloned().collect();
            if gs.len() != got.len() {
                out.push(RevFail { accessor, symptom: "duplicate".into(), detail: format!("{}: got {:?}", item, got) });
            } else if !lower.is_subset(&gs) {
                out.push(RevFail { accessor, symptom: "missing".into(), detail: format!("{}: got {:?}, the annotation's own target names {:?}", item, got, lower) });
            } else if !gs.is_subset(upper) {
                out.push(RevFail { accessor, symptom: "extra".into(), detail: format!("{}: got {:?}, reachable through the target are only {:?}", item, got, upper) });
            }
        }
    }
}

fn handles<'a>(it: impl Iterator<Item = ResultItem<'a, Annotation>>) -> Vec<usize> {
    it.map(|a| a.handle().as_usize()).collect()
}

/// Every reverse accessor of every live item must equal the scan of the forward references.
pub fn check_reverse(store: &AnnotationStore) -> Vec<RevFail> {
    let mut out = Vec::new();
    let fw = match catch(|| forward_handles(store)) {
        Ok(f) => f,
        Err(m) => {
            out.push(RevFail { accessor: "store.annotations()", symptom: format!("panic:{}", msg_class(&m)), detail: "iterating annotations panicked".into() });
            return out;
        }
    };
    // expected maps, in chronological (= handle) order
    let mut by_text: BTreeMap<(usize, usize), Vec<usize>> = BTreeMap::new();
    let mut by_res_text: BTreeMap<usize, Vec<usize>> = BTreeMap::new();
    let mut by_res_meta: BTreeMap<usize, Vec<usize>> = BTreeMap::new();
    let mut by_set_meta: BTreeMap<usize, Vec<usize>> = BTreeMap::new();
    let mut by_key_meta: BTreeMap<(usize, usize), Vec<usize>> = BTreeMap::new();
    let mut by_data_meta: BTreeMap<(usize, usize), Vec<usize>> = BTreeMap::new();
    let mut by_ann: BTreeMap<usize, Vec<usize>> = BTreeMap::new();
    let mut by_data: BTreeMap<(usize, usize), Vec<usize>> = BTreeMap::new();
    let (mut n_data, mut n_text, mut n_resmeta, mut n_setmeta, mut n_ann, mut n_keymeta, mut n_datameta) = (0, 0, 0, 0, 0, 0, 0);
    // returns 1 if the relation is new: an annotation is listed once per item, however many subselectors reach it
    fn push_unique(v: &mut Vec<usize>, x: usize) -> usize {
        if !v.contains(&x) {
            v.push(x);
            1
        } else {
            0
        }
    }
    for a in &fw {
        for d in &a.data {
            by_data.entry(*d).or_default().push(a.handle);
            n_data += 1;
        }
        for p in &a.parts {
            match p {
                HRef::Text { res, tsel, .. } => {
                    n_text += push_unique(by_text.entry((*res, *tsel)).or_default(), a.handle);
                    push_unique(by_res_text.entry(*res).or_default(), a.handle);
                }
                HRef::Ann { ann, text } => {
                    n_ann += push_unique(by_ann.entry(*ann).or_default(), a.handle);
                    if let Some((res, tsel, _)) = text {
                        n_text += push_unique(by_text.entry((*res, *tsel)).or_default(), a.handle);
                        push_unique(by_res_text.entry(*res).or_default(), a.handle);
                    }
                }
                HRef::Res(r) => {
                    n_resmeta += push_unique(by_res_meta.entry(*r).or_default(), a.handle);
                }
                HRef::Set(s) => {
                    n_setmeta += push_unique(by_set_meta.entry(*s).or_default(), a.handle);
                }
                HRef::Key(s, k) => {
                    n_keymeta += push_unique(by_key_meta.entry((*s, *k)).or_default(), a.handle);
                }
                HRef::Data(s, d) => {
                    n_datameta += push_unique(by_data_meta.entry((*s, *d)).or_default(), a.handle);
                }
            }
        }
    }
    let empty: Vec<usize> = Vec::new();
    // an annotation that reaches itself through its targets cannot be built through the API (a target must exist first);
    // a store that has one (only loadable from a damaged binary file) makes the library's recursive accessors loop
    let cyclic = {
        fn reaches(fw: &[HAnn], from: usize, goal: usize, seen: &mut Vec<usize>) -> bool {
            if seen.contains(&from) {
                return false;
            }
            seen.push(from);
            if let Some(a) = fw.iter().find(|a| a.handle == from) {
                for p in &a.parts {
                    if let HRef::Ann { ann, .. } = p {
                        if *ann == goal || reaches(fw, *ann, goal, seen) {
                            return true;
                        }
                    }
                }
            }
            false
        }
        fw.iter().any(|a| reaches(&fw, a.handle, a.handle, &mut Vec::new()))
    };
    if cyclic {
        out.push(RevFail { accessor: "Annotation::target", symptom: "cycle".into(), detail: "an annotation reaches itself through its targets".into() });
        return out;
    }
    // resources and their text selections
    for r in store.resources() {
        let rh = r.handle().as_usize();
        let name = format!("resource {}", r.id().unwrap_or("?"));
        cmp_list(&mut out, "TextResource::annotations", &name, catch(|| handles(r.annotations())), by_res_text.get(&rh).unwrap_or(&empty));
        cmp_list(&mut out, "TextResource::annotations_as_metadata", &name, catch(|| handles(r.annotations_as_metadata())), by_res_meta.get(&rh).unwrap_or(&empty));
        let sels: Vec<ResultTextSelection> = match catch(|| r.textselections().collect::<Vec<_>>()) {
            Ok(s) => s,
            Err(m) => {
                out.push(RevFail { accessor: "TextResource::textselections", symptom: format!("panic:{}", msg_class(&m)), detail: name.clone() });
                Vec::new()
            }
        };
        for ts in sels {
            if let Some(h) = ts.handle() {
                let want = by_text.get(&(rh, h.as_usize())).unwrap_or(&empty);
                let item = format!("{} selection [{},{})", name, ts.begin(), ts.end());
                cmp_list(&mut out, "ResultTextSelection::annotations", &item, catch(|| handles(ts.annotations())), want);
                cmp_count(&mut out, "ResultTextSelection::annotations_len", &item, catch(|| ts.annotations_len()), want.len());
            }
        }
    }
    // datasets, keys, data
    for s in store.datasets() {
        let sh = s.handle().as_usize();
        let sname = format!("dataset {}", s.id().unwrap_or("?"));
        cmp_list(&mut out, "AnnotationDataSet::annotations", &sname, catch(|| handles(s.annotations())), by_set_meta.get(&sh).unwrap_or(&empty));
        // scan: data per key
        let alldata: Vec<(usize, Option<usize>)> = s
            .data()
            .map(|d| (d.handle().as_usize(), catch(|| d.key().handle().as_usize()).ok()))
            .collect();
        for k in s.keys() {
            let kh = k.handle().as_usize();
            let kname = format!("{} key {}", sname, k.as_str());
            let want_data: Vec<usize> = alldata.iter().filter(|(_, key)| *key == Some(kh)).map(|(d, _)| *d).collect();
            cmp_list(&mut out, "DataKey::data", &kname, catch(|| k.data().map(|d| d.handle().as_usize()).collect()), &want_data);
            let mut want_anns: Vec<usize> = Vec::new();
            for d in &want_data {
                if let Some(v) = by_data.get(&(sh, *d)) {
                    want_anns.extend(v.iter().copied());
                }
            }
            want_anns.sort();
            want_anns.dedup();
            cmp_list(&mut out, "DataKey::annotations", &kname, catch(|| handles(k.annotations())), &want_anns);
            cmp_count(&mut out, "DataKey::annotations_count", &kname, catch(|| k.annotations_count()), want_anns.len());
            cmp_list(&mut out, "DataKey::annotations_as_metadata", &kname, catch(|| handles(k.annotations_as_metadata())), by_key_meta.get(&(sh, kh)).unwrap_or(&empty));
        }
        for d in s.data() {
            let dh = d.handle().as_usize();
            let dname = format!("{} data {}", sname, data_name(d.id(), dh));
            let want = by_data.get(&(sh, dh)).unwrap_or(&empty);
            cmp_list(&mut out, "AnnotationData::annotations", &dname, catch(|| handles(d.annotations())), want);
            cmp_count(&mut out, "AnnotationData::annotations_len", &dname, catch(|| d.annotations_len()), want.len());
            cmp_list(&mut out, "AnnotationData::annotations_as_metadata", &dname, catch(|| handles(d.annotations_as_metadata())), by_data_meta.get(&(sh, dh)).unwrap_or(&empty));
        }
    }
    // annotations
    for a in &fw {
        let ann = match store.annotation(AnnotationHandle::new(a.handle)) {
            Some(x) => x,
            None => continue,
        };
        let name = format!("annotation {}", a.id.clone().unwrap_or_else(|| format!("!A{}", a.handle)));
        let want = by_ann.get(&a.handle).unwrap_or(&empty);
        cmp_list(&mut out, "Annotation::annotations", &name, catch(|| handles(ann.annotations())), want);
        cmp_list(&mut out, "Annotation::annotations_handles", &name, catch(|| handles(ann.annotations_handles().items())), want);
        // annotations_in_targets(One): the annotations this one targets, exactly as it was built (a target named twice is there twice)
        let mut want_targets: Vec<usize> = Vec::new();
        for p in &a.parts {
            if let HRef::Ann { ann, .. } = p {
                want_targets.push(*ann);
            }
        }
        // order: "textual order" unless directional (then exactly as selected); the textual order of
        // annotations is not a function of the handles, so non-directional results are compared as sets
        let mut got = catch(|| handles(ann.annotations_in_targets(AnnotationDepth::One)));
        let mut sorted_want = want_targets.clone();
        if a.kind != TKind::Directional {
            sorted_want.sort();
            if let Ok(g) = got.as_mut() {
                g.sort();
            }
        }
        cmp_list(&mut out, "Annotation::annotations_in_targets", &name, got, &sorted_want);
        // textselections(): exactly the selections of the forward references
        let want_ts: Vec<(usize, usize)> = a
            .parts
            .iter()
            .filter_map(|p| match p {
                HRef::Text { res, tsel, .. } => Some((*res, *tsel)),
                HRef::Ann { text: Some((res, tsel, _)), .. } => Some((*res, *tsel)),
                _ => None,
            })
            .collect();
        let got_ts = catch(|| {
            ann.textselections()
                .map(|t| (t.resource().handle().as_usize(), t.handle().map(|h| h.as_usize()).unwrap_or(usize::MAX)))
                .collect::<Vec<_>>()
        });
        match got_ts {
            Err(m) => out.push(RevFail { accessor: "Annotation::textselections", symptom: format!("panic:{}", msg_class(&m)), detail: name.clone() }),
            Ok(g) => {
                if g != want_ts {
                    out.push(RevFail { accessor: "Annotation::textselections", symptom: "differs".into(), detail: format!("{}: got {:?}, target holds {:?}", name, g, want_ts) });
                }
            }
        }
        // derived views on the target: resources / keys / data / datasets reached, text selection sets per resource
        {
            let mut seen = Vec::new();
            let mut cl: Vec<&HRef> = Vec::new();
            closure_parts(&fw, a.handle, &mut seen, &mut cl);
            let res_meta: BTreeSet<usize> = cl.iter().filter_map(|p| if let HRef::Res(r) = p { Some(*r) } else { None }).collect();
            let res_text: BTreeSet<usize> = cl.iter().filter_map(|p| if let HRef::Text { res, .. } = p { Some(*res) } else { None }).collect();
            let keys: BTreeSet<(usize, usize)> = cl.iter().filter_map(|p| if let HRef::Key(s, k) = p { Some((*s, *k)) } else { None }).collect();
            let datas: BTreeSet<(usize, usize)> = cl.iter().filter_map(|p| if let HRef::Data(s, d) = p { Some((*s, *d)) } else { None }).collect();
            let own = |f: &dyn Fn(&HRef) -> Option<usize>| -> BTreeSet<usize> { a.parts.iter().filter_map(|p| f(p)).collect() };
            let own2 = |f: &dyn Fn(&HRef) -> Option<(usize, usize)>| -> BTreeSet<(usize, usize)> { a.parts.iter().filter_map(|p| f(p)).collect() };
            let d_res_meta = own(&|p| if let HRef::Res(r) = p { Some(*r) } else { None });
            let d_res_text = own(&|p| if let HRef::Text { res, .. } = p { Some(*res) } else { None });
            let d_keys = own2(&|p| if let HRef::Key(s, k) = p { Some((*s, *k)) } else { None });
            let d_datas = own2(&|p| if let HRef::Data(s, d) = p { Some((*s, *d)) } else { None });
            cmp_between(&mut out, "Annotation::resources_as_metadata", &name, catch(|| ann.resources_as_metadata().map(|r| r.handle().as_usize()).collect()), &d_res_meta, &res_meta);
            cmp_between(&mut out, "Annotation::resources", &name, catch(|| ann.resources().map(|r| r.handle().as_usize()).collect()), &d_res_text, &res_text);
            cmp_between(&mut out, "Annotation::keys_as_metadata", &name, catch(|| ann.keys_as_metadata().map(|k| (k.set().handle().as_usize(), k.handle().as_usize())).collect()), &d_keys, &keys);
            cmp_between(&mut out, "Annotation::data_as_metadata", &name, catch(|| ann.data_as_metadata().map(|d| (d.set().handle().as_usize(), d.handle().as_usize())).collect()), &d_datas, &datas);
            // own dataset targets (no recursion in the library's datasets())
            let sets: BTreeSet<usize> = a.parts.iter().filter_map(|p| if let HRef::Set(s) = p { Some(*s) } else { None }).collect();
            cmp_set(&mut out, "Annotation::datasets", &name, catch(|| ann.datasets().map(|s| s.handle().as_usize()).collect()), &sets);
            // text selection sets: the selections of textselections() grouped by resource
            let mut groups: BTreeMap<usize, BTreeSet<usize>> = BTreeMap::new();
            for (r, t) in &want_ts {
                groups.entry(*r).or_default().insert(*t);
            }
            let want_groups: BTreeSet<(usize, Vec<usize>)> = groups.into_iter().map(|(r, ts)| (r, ts.into_iter().collect())).collect();
            cmp_set(
                &mut out,
                "Annotation::textselectionsets",
                &name,
                catch(|| {
                    ann.textselectionsets()
                        .map(|set| {
                            let mut ts: Vec<usize> = set.iter().map(|t| t.handle().map(|h| h.as_usize()).unwrap_or(usize::MAX)).collect();
                            ts.sort();
                            ts.dedup();
                            (set.resource().handle().as_usize(), ts)
                        })
                        .collect()
                }),
                &want_groups,
            );
        }
        // data()
        let got_d = catch(|| ann.data().map(|d| (d.set().handle().as_usize(), d.handle().as_usize())).collect::<Vec<_>>());
        match got_d {
            Err(m) => out.push(RevFail { accessor: "Annotation::data", symptom: format!("panic:{}", msg_class(&m)), detail: name.clone() }),
            Ok(g) => {
                if g != a.data {
                    out.push(RevFail { accessor: "Annotation::data", symptom: "dangling-or-differs".into(), detail: format!("{}: got {:?}, raw data {:?}", name, g, a.data) });
                }
            }
        }
    }
    // metadata about resources, seen from the resource (filtered by data) and from the data / key
    {
        let ann_data: BTreeMap<usize, &Vec<(usize, usize)>> = fw.iter().map(|a| (a.handle, &a.data)).collect();
        let res_meta_direct = |h: usize| -> BTreeSet<usize> {
            fw.iter().find(|a| a.handle == h).map(|a| a.parts.iter().filter_map(|p| if let HRef::Res(r) = p { Some(*r) } else { None }).collect()).unwrap_or_default()
        };
        let res_meta_closure = |h: usize| -> BTreeSet<usize> {
            let mut seen = Vec::new();
            let mut cl: Vec<&HRef> = Vec::new();
            closure_parts(&fw, h, &mut seen, &mut cl);
            cl.iter().filter_map(|p| if let HRef::Res(r) = p { Some(*r) } else { None }).collect()
        };
        for s in store.datasets() {
            let sh = s.handle().as_usize();
            for d in s.data() {
                let dh = d.handle().as_usize();
                let dname = format!("dataset {} data {}", s.id().unwrap_or("?"), data_name(d.id(), dh));
                let users = by_data.get(&(sh, dh)).cloned().unwrap_or_default();
                let mut want_res: BTreeSet<usize> = BTreeSet::new();
                let mut low_res: BTreeSet<usize> = BTreeSet::new();
                for u in &users {
                    want_res.extend(res_meta_closure(*u));
                    low_res.extend(res_meta_direct(*u));
                }
                cmp_between(&mut out, "AnnotationData::resources_as_metadata", &dname, catch(|| d.resources_as_metadata().map(|r| r.handle().as_usize()).collect()), &low_res, &want_res);
                for r in store.resources() {
                    let rh = r.handle().as_usize();
                    if by_res_meta.get(&rh).map(|v| v.is_empty()).unwrap_or(true) {
                        continue; // no metadata annotation on this resource (annotations_as_metadata() was compared above)
                    }
                    let want: Vec<usize> = by_res_meta.get(&rh).unwrap_or(&empty).iter().copied().filter(|a| ann_data.get(a).map(|v| v.contains(&(sh, dh))).unwrap_or(false)).collect();
                    let item = format!("resource {} about {}", r.id().unwrap_or("?"), dname);
                    cmp_list(&mut out, "TextResource::annotations_by_metadata_about", &item, catch(|| handles(r.annotations_by_metadata_about(d.clone()))), &want);
                    match catch(|| r.has_metadata_about(d.clone())) {
                        Ok(b) if b == !want.is_empty() => {}
                        Ok(b) => out.push(RevFail { accessor: "TextResource::has_metadata_about", symptom: format!("wrong:{}", b), detail: format!("{}: {} but the matching annotations are {:?}", item, b, want) }),
                        Err(m) => out.push(RevFail { accessor: "TextResource::has_metadata_about", symptom: format!("panic:{}", msg_class(&m)), detail: item.clone() }),
                    }
                }
            }
            for k in s.keys() {
                let kh = k.handle().as_usize();
                let mut want_res: BTreeSet<usize> = BTreeSet::new();
                let mut low_res: BTreeSet<usize> = BTreeSet::new();
                for d in s.data() {
                    if catch(|| d.key().handle().as_usize()).ok() == Some(kh) {
                        for u in by_data.get(&(sh, d.handle().as_usize())).cloned().unwrap_or_default() {
                            want_res.extend(res_meta_closure(u));
                            low_res.extend(res_meta_direct(u));
                        }
                    }
                }
                let kname = format!("dataset {} key {}", s.id().unwrap_or("?"), k.as_str());
                cmp_between(&mut out, "DataKey::resources_as_metadata", &kname, catch(|| k.resources_as_metadata().into_iter().map(|r| r.handle().as_usize()).collect()), &low_res, &want_res);
            }
        }
    }
    // raw index sizes: the only public view on stale entries
    match catch(|| store.index_totalcount()) {
        Err(m) => out.push(RevFail { accessor: "index_totalcount", symptom: format!("panic:{}", msg_class(&m)), detail: String::new() }),
        Ok(t) => {
            let got = [t.0, t.1, t.2, t.3, t.4, t.6, t.7];
            let want = [n_data, n_text, n_resmeta, n_setmeta, n_ann, n_keymeta, n_datameta];
            let names = [
                "dataset_data_annotation_map",
                "textrelationmap",
                "resource_annotation_metamap",
                "dataset_annotation_metamap",
                "annotation_annotation_map",
                "key_annotation_metamap",
                "data_annotation_metamap",
            ];
            for i in 0..7 {
                if got[i] != want[i] {
                    out.push(RevFail {
                        accessor: "index_totalcount",
                        symptom: format!("{}:{}", names[i], if got[i] > want[i] { "stale-or-duplicate" } else { "missing" }),
                        detail: format!("{} holds {} entries, forward references say {}", names[i], got[i], want[i]),
                    });
                }
            }
        }
    }
    out
}
