//! verif-mc: bounded-exhaustive checks of the semantic properties C01..C20 of stam-rust.
//! usage: verif-mc <Cxx> <quick|thorough> [--replay <file>] [--list-signatures]

mod report;
mod util;
mod c13;
mod c20;
mod c19;
mod c12;
mod c09;
mod c08;
mod c06;
mod ops;
mod model;
mod observe;
mod hist;
mod c01;
mod c03;
mod c14;
mod ser;
mod c04;
mod c05;
mod c10;
mod c11;
mod c15;
mod c18;
mod c07;
mod c16;
mod c17;

use report::{Coverage, Reporter, Tier};

#[global_allocator]
static GLOBAL: c19::CapAlloc = c19::CapAlloc;

fn usage() -> ! {
    eprintln!("usage: verif-mc <C01..C20> <quick|thorough> [--replay <file>] [--list-signatures]");
    std::process::exit(2);
}

fn main() {
    let args: Vec<String> = std::env::args().skip(1).collect();
    if args.first().map(|s| s.as_str()) == Some("worker") {
        c19::worker_main();
        return;
    }
    if args.len() < 2 {
        usage();
    }
    let prop = args[0].clone();
    let tier = match args[1].as_str() {
        "quick" => Tier::Quick,
        "thorough" => Tier::Thorough,
        _ => usage(),
    };
    let mut replay: Option<String> = None;
    let mut list = false;
    let mut i = 2;
    while i < args.len() {
        match args[i].as_str() {
            "--replay" => {
                i += 1;
                replay = args.get(i).cloned();
            }
            "--list-signatures" => list = true,
            _ => usage(),
        }
        i += 1;
    }
    util::install_quiet_panic_hook();
    let rep = Reporter::new(&prop, tier, list || replay.is_some());
    let rep = if replay.is_some() { rep.without_ceilings() } else { rep };
    if let Some(path) = replay {
        let text = std::fs::read_to_string(&path).expect("cannot read replay file");
        let doc: serde_json::Value = serde_json::from_str(&text).expect("replay file is not JSON");
        let case = &doc["case"];
        match prop.as_str() {
            "C13" => c13::replay(&rep, case),
            "C20" => c20::replay(&rep, case),
            "C19" => c19::replay(&rep, case),
            "C12" => c12::replay(&rep, case),
            "C09" => c09::replay(&rep, case),
            "C08" => c08::replay(&rep, case),
            "C06" => c06::replay(&rep, case),
            "C01" => c01::replay(&rep, case, "C01"),
            "C02" => c01::replay(&rep, case, "C02"),
            "C03" => c03::replay(&rep, case),
            "C14" => c14::replay(&rep, case),
            "C04" => c04::replay(&rep, case),
            "C05" => c05::replay(&rep, case),
            "C10" => c10::replay(&rep, case),
            "C11" => c11::replay(&rep, case),
            "C15" => c15::replay(&rep, case),
            "C18" => c18::replay(&rep, case),
            "C07" => c07::replay(&rep, case),
            "C16" => c16::replay(&rep, case),
            "C17" => c17::replay(&rep, case),
            _ => usage(),
        }
        let code = rep.finish(Coverage::default());
        std::process::exit(code);
    }
    // safety net: a panic of the library that escapes the oracles' own panic capture must not kill the run without a verdict
    let outcome = util::catch(|| run_check(&prop, &rep));
    let cov = match outcome {
        Ok(cov) => cov,
        Err(msg) => {
            let class = util::msg_class(&msg);
            rep.fail(
                &format!("panic-outside-the-oracles|{}", class),
                0,
                || format!("the library panicked in a call the check makes without expecting a failure (exploration aborted at that point): {}", msg),
                || serde_json::json!({"panic": msg}),
            );
            let mut cov = Coverage::default();
            cov.rule = "exploration aborted by a panic, see the violation".into();
            cov
        }
    };
    let code = rep.finish(cov);
    std::process::exit(code);
}

fn run_check(prop: &str, rep: &Reporter) -> Coverage {
    let rep = rep;
    match prop {
        "C13" => c13::run(&rep),
        "C20" => c20::run(&rep),
        "C19" => c19::run(&rep),
        "C12" => c12::run(&rep),
        "C09" => c09::run(&rep),
        "C08" => c08::run(&rep),
        "C06" => c06::run(&rep),
        "C01" => c01::run_c01(&rep),
        "C02" => c01::run_c02(&rep),
        "C03" => c03::run(&rep),
        "C14" => c14::run(&rep),
        "C04" => c04::run(&rep),
        "C05" => c05::run(&rep),
        "C10" => c10::run(&rep),
        "C11" => c11::run(&rep),
        "C15" => c15::run(&rep),
        "C18" => c18::run(&rep),
        "C07" => c07::run(&rep),
        "C16" => c16::run(&rep),
        "C17" => c17::run(&rep),
        _ => usage(),
    }
}
