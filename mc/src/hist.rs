//! History engine: level-synchronous exploration of operation histories on the real store, in lock-step
//! with the reference model, with state matching on the canonical internal dump (hook H1).

use crate::model::*;
use crate::observe::*;
use crate::ops::*;
use crate::report::Reporter;
use crate::util::key128;
use rayon::prelude::*;
use stam::AnnotationStore;
use std::collections::HashSet;
use std::sync::atomic::{AtomicU64, Ordering};
use std::sync::Mutex;

pub const R0: (&str, &str) = ("r0", "a\u{e9} \u{1d11e}d");
pub const R1: (&str, &str) = ("r1", "\u{e9}\u{1d11e}x\u{e9}");

#[derive(Clone, Debug)]
pub struct Alphabet {
    /// resources that may be added
    pub resources: Vec<(String, String)>,
    /// richer menu of offsets / complex selectors / second dataset
    pub rich: bool,
    /// include removals
    pub removals: bool,
    /// how many of the most recent live annotations may be targeted
    pub recent: usize,
}

impl Alphabet {
    pub fn quick() -> Self {
        Alphabet { resources: vec![(R0.0.into(), R0.1.into())], rich: false, removals: true, recent: 2 }
    }
    pub fn thorough() -> Self {
        Alphabet { resources: vec![(R0.0.into(), R0.1.into()), (R1.0.into(), R1.1.into())], rich: true, removals: true, recent: 2 }
    }
}

fn next_ann_id(m: &Model) -> String {
    format!("a{}", m.anns.len())
}

fn data_ref(m: &Model, si: usize, di: usize) -> DRef {
    match &m.sets[si].as_ref().unwrap().data[di].as_ref().unwrap().id {
        Some(id) => DRef::Id(id.clone()),
        None => DRef::H(di),
    }
}

/// Simple targets available in this state
fn simple_targets(m: &Model, al: &Alphabet) -> Vec<TSimple> {
    let mut v = Vec::new();
    for r in m.res.iter().flatten() {
        let len = r.len();
        let mut offs: Vec<Off> = Vec::new();
        if r.id == "r0" {
            offs.push(Off::simple(0, 3));
            offs.push(Off::simple(3, 5));
            offs.push(Off::simple(0, 5));
            offs.push(Off { b: Cur::E(-2), e: Cur::E(0) });
            if al.rich {
                offs.push(Off::simple(2, 2));
                offs.push(Off { b: Cur::B(1), e: Cur::E(-1) });
            }
        } else {
            offs.push(Off::simple(0, 2.min(len)));
            if al.rich {
                offs.push(Off::simple(1.min(len), len));
                offs.push(Off { b: Cur::E(-(len.min(3) as isize)), e: Cur::B(len) });
            }
        }
        for o in offs {
            v.push(TSimple::Text { res: r.id.clone(), off: o });
        }
        v.push(TSimple::Res(r.id.clone()));
    }
    let live = m.live_anns();
    for &ai in live.iter().rev().take(al.recent) {
        let a = m.anns[ai].as_ref().unwrap();
        if let Some(id) = &a.id {
            v.push(TSimple::Ann { ann: id.clone(), off: None });
            if let Some((_, b, e)) = a.simple_text() {
                v.push(TSimple::Ann { ann: id.clone(), off: Some(Off::whole()) });
                if e - b >= 1 {
                    v.push(TSimple::Ann { ann: id.clone(), off: Some(Off::simple(0, 1)) });
                    if al.rich {
                        v.push(TSimple::Ann { ann: id.clone(), off: Some(Off { b: Cur::E(-1), e: Cur::E(0) }) });
                        if e - b >= 2 {
                            // end-aligned cursors that stop short of the container's end, and a mixed pair
                            v.push(TSimple::Ann { ann: id.clone(), off: Some(Off { b: Cur::E(-2), e: Cur::E(-1) }) });
                            v.push(TSimple::Ann { ann: id.clone(), off: Some(Off { b: Cur::B(1), e: Cur::E(-1) }) });
                        }
                    }
                }
            }
        }
    }
    for (si, s) in m.sets.iter().enumerate() {
        if let Some(s) = s {
            v.push(TSimple::Set(s.id.clone()));
            for k in s.keys.iter().flatten().take(2) {
                v.push(TSimple::Key(s.id.clone(), k.clone()));
            }
            let mut n = 0;
            for (di, d) in s.data.iter().enumerate() {
                if d.is_some() && n < 2 {
                    v.push(TSimple::Data(s.id.clone(), data_ref(m, si, di)));
                    n += 1;
                }
            }
        }
    }
    v
}

fn complex_targets(m: &Model, al: &Alphabet) -> Vec<Target> {
    let mut v = Vec::new();
    let t = |res: &str, b, e| TSimple::Text { res: res.to_string(), off: Off::simple(b, e) };
    if m.res_idx("r0").is_some() {
        v.push(Target { kind: TKind::Multi, parts: vec![t("r0", 0, 3), t("r0", 3, 5)] });
        v.push(Target { kind: TKind::Directional, parts: vec![t("r0", 3, 5), t("r0", 0, 3)] });
        if al.rich {
            v.push(Target { kind: TKind::Composite, parts: vec![t("r0", 3, 5), t("r0", 0, 3)] });
            v.push(Target { kind: TKind::Multi, parts: vec![t("r0", 0, 5), TSimple::Res("r0".into())] });
            v.push(Target { kind: TKind::Composite, parts: vec![t("r0", 0, 3), t("r0", 2, 2), t("r0", 3, 5)] });
            // an end-aligned part listed first (parts are stored in textual order: two begin-aligned neighbours, then the end-aligned one)
            v.push(Target { kind: TKind::Multi, parts: vec![TSimple::Text { res: "r0".into(), off: Off { b: Cur::E(-2), e: Cur::E(0) } }, t("r0", 0, 2), t("r0", 2, 3)] });
        }
    }
    if al.rich && m.res_idx("r0").is_some() && m.res_idx("r1").is_some() {
        // three parts over two resources: two neighbours in r0, then a selection of r1 (whose handle may continue r0's numbering)
        v.push(Target { kind: TKind::Multi, parts: vec![t("r0", 0, 2), t("r0", 2, 3), t("r1", 0, 1)] });
        v.push(Target { kind: TKind::Directional, parts: vec![t("r0", 0, 2), t("r0", 2, 3), t("r1", 2, 3)] });
    }
    let live = m.live_anns();
    let named: Vec<usize> = live.iter().rev().copied().filter(|i| m.anns[*i].as_ref().unwrap().id.is_some()).take(2).collect();
    if named.len() == 2 {
        let (y, x) = (named[0], named[1]); // x older, y newer
        let (ax, ay) = (m.anns[x].as_ref().unwrap(), m.anns[y].as_ref().unwrap());
        let (ix, iy) = (ax.id.clone().unwrap(), ay.id.clone().unwrap());
        v.push(Target { kind: TKind::Composite, parts: vec![TSimple::Ann { ann: ix.clone(), off: None }, TSimple::Ann { ann: iy.clone(), off: None }] });
        v.push(Target { kind: TKind::Directional, parts: vec![TSimple::Ann { ann: iy.clone(), off: None }, TSimple::Ann { ann: ix.clone(), off: None }] });
        if let (Some(tx), Some(ty)) = (ax.simple_text(), ay.simple_text()) {
            v.push(Target {
                kind: TKind::Multi,
                parts: vec![
                    TSimple::Ann { ann: ix.clone(), off: Some(Off::whole()) },
                    TSimple::Ann { ann: iy.clone(), off: Some(Off::whole()) },
                ],
            });
            if ty.2 - ty.1 >= 1 {
                v.push(Target {
                    kind: TKind::Composite,
                    parts: vec![
                        TSimple::Ann { ann: ix.clone(), off: Some(Off::whole()) },
                        TSimple::Ann { ann: iy.clone(), off: Some(Off::simple(0, 1)) },
                    ],
                });
            }
            if al.rich && tx.2 - tx.1 >= 1 {
                v.push(Target {
                    kind: TKind::Directional,
                    parts: vec![
                        TSimple::Ann { ann: iy.clone(), off: Some(Off::whole()) },
                        TSimple::Ann { ann: ix.clone(), off: Some(Off::simple(0, 1)) },
                    ],
                });
            }
        }
    }
    if al.rich {
        for (si, s) in m.sets.iter().enumerate() {
            if let Some(s) = s {
                let keys: Vec<&String> = s.keys.iter().flatten().collect();
                if keys.len() >= 2 {
                    v.push(Target { kind: TKind::Directional, parts: vec![TSimple::Key(s.id.clone(), keys[0].clone()), TSimple::Key(s.id.clone(), keys[1].clone())] });
                }
                if let Some(di) = s.data.iter().position(|d| d.is_some()) {
                    v.push(Target { kind: TKind::Directional, parts: vec![TSimple::Data(s.id.clone(), data_ref(m, si, di)), TSimple::Set(s.id.clone())] });
                }
                break;
            }
        }
    }
    v
}

fn data_templates(m: &Model, al: &Alphabet) -> Vec<Vec<DataT>> {
    let n = |set: &str| m.set_idx(set).map(|si| m.sets[si].as_ref().unwrap().data.len()).unwrap_or(0);
    let new = |set: &str, key: &str, val: Val, id: Option<String>| DataT::New { set: set.into(), key: key.into(), val, id };
    let mut v: Vec<Vec<DataT>> = vec![
        vec![],
        vec![new("s0", "k0", Val::S("v".into()), Some(format!("D{}", n("s0"))))],
        vec![new("s0", "k1", Val::I(1), None)],
        vec![new("s0", "k0", Val::S("v".into()), None), new("s0", "k1", Val::S("w".into()), None)],
    ];
    if al.rich {
        v.push(vec![new("s1", "k0", Val::S("v".into()), None)]);
        v.push(vec![new("s0", "k0", Val::S("v".into()), None), new("s1", "k0", Val::S("v".into()), None)]);
        // two values under one key in one annotation
        v.push(vec![new("s0", "k0", Val::S("v".into()), None), new("s0", "k0", Val::S("x".into()), None)]);
        // a run of two items from one set followed by an item from another set
        v.push(vec![new("s0", "k0", Val::S("v".into()), None), new("s0", "k1", Val::S("w".into()), None), new("s1", "k0", Val::S("v".into()), None)]);
    }
    if let Some(si) = m.set_idx("s0") {
        if let Some(d) = m.sets[si].as_ref().unwrap().data.iter().flatten().find(|d| d.id.is_some()) {
            v.push(vec![DataT::Existing { set: "s0".into(), id: d.id.clone().unwrap() }]);
        }
    }
    v
}

/// The valid operations enabled in a model state, simplest first.
pub fn enabled_ops(m: &Model, al: &Alphabet) -> Vec<Op> {
    let mut ops = Vec::new();
    for (id, text) in &al.resources {
        if m.res_idx(id).is_none() {
            ops.push(Op::AddRes { id: id.clone(), text: text.clone() });
        }
    }
    for s in ["s0", "s1"] {
        if (s == "s0" || al.rich) && m.set_idx(s).is_none() {
            ops.push(Op::AddSet { id: s.to_string() });
        }
    }
    let default_data = vec![DataT::New { set: "s0".into(), key: "k0".into(), val: Val::S("v".into()), id: None }];
    let simple = simple_targets(m, al);
    let id = Some(next_ann_id(m));
    for t in &simple {
        ops.push(Op::Annotate { id: id.clone(), target: Target::simple(t.clone()), data: default_data.clone() });
    }
    for t in complex_targets(m, al) {
        ops.push(Op::Annotate { id: id.clone(), target: t, data: default_data.clone() });
    }
    if let Some(t0) = simple.first() {
        for d in data_templates(m, al) {
            ops.push(Op::Annotate { id: id.clone(), target: Target::simple(t0.clone()), data: d });
        }
        // one id-less annotation
        ops.push(Op::Annotate { id: None, target: Target::simple(t0.clone()), data: default_data.clone() });
    }
    if al.removals {
        for ai in m.live_anns() {
            if let Some(id) = &m.anns[ai].as_ref().unwrap().id {
                ops.push(Op::RemoveAnn(id.clone()));
            }
        }
        for (si, s) in m.sets.iter().enumerate() {
            if let Some(s) = s {
                let mut n = 0;
                for (di, d) in s.data.iter().enumerate() {
                    if d.is_some() && n < 3 {
                        n += 1;
                        for strict in [true, false] {
                            ops.push(Op::RemoveData { set: s.id.clone(), data: data_ref(m, si, di), strict });
                        }
                    }
                }
                for k in s.keys.iter().flatten().take(2) {
                    for strict in [true, false] {
                        ops.push(Op::RemoveKey { set: s.id.clone(), key: k.clone(), strict });
                    }
                }
                ops.push(Op::RemoveSet(s.id.clone()));
            }
        }
        for r in m.res.iter().flatten() {
            ops.push(Op::RemoveRes(r.id.clone()));
        }
    }
    ops
}

pub fn replay_model(history: &[Op]) -> Model {
    let mut m = Model::default();
    for op in history {
        let _ = m.apply(op);
    }
    m
}

pub struct Trans<'a> {
    pub hist: &'a [Op],
    pub op: &'a Op,
    pub pre: &'a AnnotationStore,
    pub pre_model: &'a Model,
    pub post: &'a AnnotationStore,
    pub post_model: &'a Model,
    pub outcome: &'a Outcome,
    /// first difference between the real store and the model after the operation (None = conforming)
    pub divergence: &'a Option<(String, String)>,
    /// the post state has not been seen before (by canonical dump)
    pub new_state: bool,
    pub depth: usize,
    pub ord: u64,
}

pub trait Oracle: Sync {
    /// called for every transition; `t.new_state` says whether the post-state is new
    /// returns false when the post-state is unhealthy for this property and must not be expanded
    fn transition(&self, rep: &Reporter, t: &Trans) -> bool;
    /// whether the base conformance check (outcome + abstract content vs model) is needed by this oracle
    fn needs_conformance(&self) -> bool {
        true
    }
}

pub struct Stats {
    pub states: u64,
    pub transitions: u64,
    pub pruned_divergent: u64,
    pub depth_hist: Vec<u64>,
    pub sample_histories: Vec<Vec<String>>,
    pub completed_depth: usize,
    pub nontrivial_states: u64,
}

fn shard(k: u128) -> usize {
    (k as usize) & 63
}

pub fn hist_ord(depth: usize, hist: &[Op], op: &Op) -> u64 {
    let mut s = String::new();
    for o in hist {
        s.push_str(&o.short());
    }
    s.push_str(&op.short());
    ((depth as u64) << 48) | (crate::util::fnv64(s.as_bytes()) & 0xffff_ffff_ffff)
}

pub fn state_key(store: &AnnotationStore) -> u128 {
    key128(store.verif_dump().as_bytes())
}

/// A history is stored as a parent-linked list so that prefixes are shared between states.
pub struct Node {
    pub parent: Option<std::sync::Arc<Node>>,
    pub op: Op,
}

impl Node {
    pub fn history(node: &Option<std::sync::Arc<Node>>, init: &[Op]) -> Vec<Op> {
        let mut rev = Vec::new();
        let mut cur = node.as_ref();
        while let Some(n) = cur {
            rev.push(n.op.clone());
            cur = n.parent.as_ref();
        }
        let mut h = init.to_vec();
        h.extend(rev.into_iter().rev());
        h
    }
}

/// Explore all histories `init ++ ops` with at most `maxdepth` operations after `init`.
/// `budget_s`: no new level is started once the elapsed time exceeds this (the evidence reports the depth completed).
pub fn explore(rep: &Reporter, oracle: &dyn Oracle, init: &[Op], al: &Alphabet, maxdepth: usize, budget_s: f64) -> Stats {
    use std::sync::Arc;
    let seen: Vec<Mutex<HashSet<u128>>> = (0..64).map(|_| Mutex::new(HashSet::new())).collect();
    let (s0, _) = replay_real(init);
    let k0 = state_key(&s0);
    seen[shard(k0)].lock().unwrap().insert(k0);
    let transitions = AtomicU64::new(0);
    let pruned = AtomicU64::new(0);
    let nontrivial = AtomicU64::new(0);
    let mut depth_hist = vec![1u64];
    let mut frontier: Vec<Option<Arc<Node>>> = vec![None];
    let mut samples: Vec<Vec<String>> = Vec::new();
    let mut completed = 0;
    for depth in 1..=maxdepth {
        if rep.elapsed() > budget_s && depth > 1 {
            break;
        }
        let last = depth == maxdepth;
        let newcount = AtomicU64::new(0);
        let sample: Mutex<Vec<Vec<String>>> = Mutex::new(Vec::new());
        let next: Vec<Option<Arc<Node>>> = frontier
            .par_iter()
            .flat_map_iter(|node| {
                let h = Node::history(node, init);
                let h = &h;
                let (pre, _) = replay_real(h);
                let pre_model = replay_model(h);
                let ops = enabled_ops(&pre_model, al);
                let mut out: Vec<Option<Arc<Node>>> = Vec::new();
                for op in ops {
                    let mut post_model = pre_model.clone();
                    if post_model.apply(&op).is_err() {
                        continue; // the model has no opinion: not part of the valid alphabet
                    }
                    let (mut post, _) = replay_real(h);
                    let outcome = apply_real(&mut post, &op);
                    transitions.fetch_add(1, Ordering::Relaxed);
                    let divergence = if !outcome.is_ok() {
                        Some(("outcome".to_string(), format!("library returned {}, the documentation says the operation succeeds", outcome.class())))
                    } else if oracle.needs_conformance() {
                        match crate::util::catch(|| diff_abstract(&abstract_real(&post), &abstract_model(&post_model))) {
                            Ok(d) => d,
                            Err(p) => Some(("observation-panic".to_string(), crate::util::msg_class(&p))),
                        }
                    } else {
                        None
                    };
                    let key = state_key(&post);
                    let new_state = seen[shard(key)].lock().unwrap().insert(key);
                    let t = Trans {
                        hist: h,
                        op: &op,
                        pre: &pre,
                        pre_model: &pre_model,
                        post: &post,
                        post_model: &post_model,
                        outcome: &outcome,
                        divergence: &divergence,
                        new_state,
                        depth,
                        ord: hist_ord(depth, h, &op),
                    };
                    let healthy = oracle.transition(rep, &t);
                    if divergence.is_some() || !healthy {
                        pruned.fetch_add(1, Ordering::Relaxed);
                        if new_state {
                            // a divergent state is not a state of the model: do not count or expand it
                            seen[shard(key)].lock().unwrap().remove(&key);
                        }
                        continue;
                    }
                    if new_state {
                        if post_model.anns.iter().any(|a| a.is_none()) && !post_model.live_anns().is_empty() {
                            nontrivial.fetch_add(1, Ordering::Relaxed);
                        }
                        let n = newcount.fetch_add(1, Ordering::Relaxed);
                        if n == 1 || n == 1000 || n == 100_000 {
                            let mut s = sample.lock().unwrap();
                            if s.len() < 3 {
                                let mut hh: Vec<String> = h.iter().map(|o| o.short()).collect();
                                hh.push(op.short());
                                s.push(hh);
                            }
                        }
                        if !last {
                            out.push(Some(Arc::new(Node { parent: node.clone(), op })));
                        }
                    }
                }
                out.into_iter()
            })
            .collect();
        depth_hist.push(newcount.load(Ordering::Relaxed));
        completed = depth;
        for s in sample.into_inner().unwrap() {
            if samples.len() < 8 {
                samples.push(s);
            }
        }
        if last {
            break;
        }
        frontier = next;
        if frontier.is_empty() {
            break;
        }
    }
    Stats {
        states: depth_hist.iter().sum(),
        transitions: transitions.load(Ordering::Relaxed),
        pruned_divergent: pruned.load(Ordering::Relaxed),
        depth_hist,
        sample_histories: samples,
        completed_depth: completed,
        nontrivial_states: nontrivial.load(Ordering::Relaxed),
    }
}

pub fn history_json(hist: &[Op], op: Option<&Op>) -> serde_json::Value {
    let mut v: Vec<serde_json::Value> = hist.iter().map(|o| serde_json::to_value(o).unwrap()).collect();
    if let Some(op) = op {
        v.push(serde_json::to_value(op).unwrap());
    }
    serde_json::Value::Array(v)
}

pub fn history_from_json(v: &serde_json::Value) -> Vec<Op> {
    v.as_array()
        .map(|a| a.iter().filter_map(|o| serde_json::from_value(o.clone()).ok()).collect())
        .unwrap_or_default()
}

pub fn quick_init() -> Vec<Op> {
    vec![Op::AddRes { id: R0.0.into(), text: R0.1.into() }, Op::AddSet { id: "s0".into() }]
}
