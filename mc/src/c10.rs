//! C10 — annotation data is a deduplicated vocabulary and data search equals a scan.
//! (A) fixed stores holding a menu of values of all seven types under two keys and two sets, after a menu of
//!     removal scenarios: every (set, key, operator) search through every entry point = a full scan;
//! (B) DataValue::test against an independent transcription of the operator documentation (same-type) + logic laws;
//! (C) dedup and key uniqueness under every pair of insertions, and the search-vs-scan check in every state of the
//!     history exploration.

use crate::c01::plans;
use crate::hist::*;
use crate::report::{Coverage, Reporter};
use crate::util::{catch, msg_class};
use chrono::{DateTime, FixedOffset};
use serde_json::{json, Value};
use stam::*;
use std::sync::atomic::{AtomicU64, Ordering};

fn dt(s: &str) -> DateTime<FixedOffset> {
    DateTime::parse_from_rfc3339(s).unwrap()
}

const T1: &str = "2024-03-01T12:30:45+01:00";
const T2: &str = "2025-01-01T00:00:00+00:00";

pub fn values() -> Vec<DataValue> {
    vec![
        DataValue::Null,
        DataValue::Bool(true),
        DataValue::Bool(false),
        DataValue::Int(0),
        DataValue::Int(5),
        DataValue::Int(-3),
        DataValue::Float(0.0),
        DataValue::Float(2.5),
        DataValue::Float(5.0),
        DataValue::String("5".into()),
        DataValue::String("yes".into()),
        DataValue::String("abc".into()),
        DataValue::String("".into()),
        DataValue::List(vec![DataValue::Int(5), DataValue::String("abc".into())]),
        DataValue::List(vec![]),
        DataValue::List(vec![DataValue::Float(5.0)]),
        DataValue::Datetime(dt(T1)),
        DataValue::Datetime(dt(T2)),
    ]
}

pub fn operators() -> Vec<(String, DataOperator<'static>)> {
    let mut v: Vec<(String, DataOperator<'static>)> = Vec::new();
    let mut add = |name: &str, op: DataOperator<'static>| v.push((name.to_string(), op));
    add("Any", DataOperator::Any);
    add("Null", DataOperator::Null);
    add("True", DataOperator::True);
    add("False", DataOperator::False);
    for s in ["5", "yes", "abc", "", "true", "2.5", "on", "-3", T1, "nope"] {
        add(&format!("Equals({:?})", s), DataOperator::Equals(s.into()));
    }
    for n in [5isize, 0, -3, 7] {
        add(&format!("EqualsInt({})", n), DataOperator::EqualsInt(n));
        add(&format!("GreaterThan({})", n), DataOperator::GreaterThan(n));
        add(&format!("GreaterThanOrEqual({})", n), DataOperator::GreaterThanOrEqual(n));
        add(&format!("LessThan({})", n), DataOperator::LessThan(n));
        add(&format!("LessThanOrEqual({})", n), DataOperator::LessThanOrEqual(n));
        add(&format!("HasElementInt({})", n), DataOperator::HasElementInt(n));
    }
    for f in [2.5f64, 5.0, 0.0] {
        add(&format!("EqualsFloat({})", f), DataOperator::EqualsFloat(f));
        add(&format!("GreaterThanFloat({})", f), DataOperator::GreaterThanFloat(f));
        add(&format!("GreaterThanOrEqualFloat({})", f), DataOperator::GreaterThanOrEqualFloat(f));
        add(&format!("LessThanFloat({})", f), DataOperator::LessThanFloat(f));
        add(&format!("LessThanOrEqualFloat({})", f), DataOperator::LessThanOrEqualFloat(f));
        add(&format!("HasElementFloat({})", f), DataOperator::HasElementFloat(f));
    }
    for t in [T1, T2, "2024-06-01T00:00:00+00:00"] {
        add(&format!("ExactDatetime({})", t), DataOperator::ExactDatetime(dt(t)));
        add(&format!("AfterDatetime({})", t), DataOperator::AfterDatetime(dt(t)));
        add(&format!("BeforeDatetime({})", t), DataOperator::BeforeDatetime(dt(t)));
        add(&format!("AtOrAfterDatetime({})", t), DataOperator::AtOrAfterDatetime(dt(t)));
        add(&format!("AtOrBeforeDatetime({})", t), DataOperator::AtOrBeforeDatetime(dt(t)));
    }
    add("HasElement(abc)", DataOperator::HasElement("abc".into()));
    add("HasElement(5)", DataOperator::HasElement("5".into()));
    add("Not(Equals(abc))", DataOperator::Not(Box::new(DataOperator::Equals("abc".into()))));
    add("Not(Any)", DataOperator::Not(Box::new(DataOperator::Any)));
    add("Not(Null)", DataOperator::Not(Box::new(DataOperator::Null)));
    add("And(GreaterThan(0),LessThan(7))", DataOperator::And(vec![DataOperator::GreaterThan(0), DataOperator::LessThan(7)]));
    add("And()", DataOperator::And(vec![]));
    add("Or(Equals(abc),EqualsInt(5))", DataOperator::Or(vec![DataOperator::Equals("abc".into()), DataOperator::EqualsInt(5)]));
    add("Or()", DataOperator::Or(vec![]));
    add(
        "Not(Or(Equals(abc),EqualsInt(5)))",
        DataOperator::Not(Box::new(DataOperator::Or(vec![DataOperator::Equals("abc".into()), DataOperator::EqualsInt(5)]))),
    );
    v
}

/// operator family for signatures
fn op_family(name: &str) -> String {
    name.chars().take_while(|c| c.is_alphabetic()).collect()
}

fn vtype(v: &DataValue) -> &'static str {
    match v {
        DataValue::Null => "Null",
        DataValue::Bool(_) => "Bool",
        DataValue::Int(_) => "Int",
        DataValue::Float(_) => "Float",
        DataValue::String(_) => "String",
        DataValue::List(_) => "List",
        DataValue::Datetime(_) => "Datetime",
    }
}

/// Independent transcription of the operator documentation; None where the docs do not define the combination
pub fn spec_test(v: &DataValue, op: &DataOperator) -> Option<bool> {
    use DataOperator as O;
    use DataValue as V;
    Some(match (v, op) {
        (_, O::Any) => true,
        (V::Null, O::Null) => true,
        (_, O::Null) => false,
        (V::Bool(b), O::True) => *b,
        (V::Bool(b), O::False) => !*b,
        (_, O::True) | (_, O::False) => false,
        (V::String(s), O::Equals(x)) => s.as_str() == x.as_ref(),
        (V::Int(n), O::EqualsInt(m)) => n == m,
        (V::Int(n), O::GreaterThan(m)) => n > m,
        (V::Int(n), O::GreaterThanOrEqual(m)) => n >= m,
        (V::Int(n), O::LessThan(m)) => n < m,
        (V::Int(n), O::LessThanOrEqual(m)) => n <= m,
        (V::Float(n), O::EqualsFloat(m)) => n == m,
        (V::Float(n), O::GreaterThanFloat(m)) => n > m,
        (V::Float(n), O::GreaterThanOrEqualFloat(m)) => n >= m,
        (V::Float(n), O::LessThanFloat(m)) => n < m,
        (V::Float(n), O::LessThanOrEqualFloat(m)) => n <= m,
        (V::Datetime(a), O::ExactDatetime(b)) => a == b,
        (V::Datetime(a), O::AfterDatetime(b)) => a > b,
        (V::Datetime(a), O::BeforeDatetime(b)) => a < b,
        (V::Datetime(a), O::AtOrAfterDatetime(b)) => a >= b,
        (V::Datetime(a), O::AtOrBeforeDatetime(b)) => a <= b,
        (V::List(l), O::HasElement(s)) => {
            let mut any = false;
            for e in l {
                any |= spec_test(e, &O::Equals(s.clone()))?;
            }
            any
        }
        (V::List(l), O::HasElementInt(n)) => {
            let mut any = false;
            for e in l {
                any |= spec_test(e, &O::EqualsInt(*n))?;
            }
            any
        }
        (V::List(l), O::HasElementFloat(n)) => {
            let mut any = false;
            for e in l {
                any |= spec_test(e, &O::EqualsFloat(*n))?;
            }
            any
        }
        (v, O::Not(o)) => !spec_test(v, o)?,
        (v, O::And(os)) => {
            let mut all = true;
            for o in os {
                all &= spec_test(v, o)?;
            }
            all
        }
        (v, O::Or(os)) => {
            let mut any = false;
            for o in os {
                any |= spec_test(v, o)?;
            }
            any
        }
        // a string operand against a number or datetime (what an unquoted STAMQL operand amounts to): a value equals its own
        // canonical text form and never a text that is no number / datetime at all; other spellings ("5.0" against Int(5),
        // "+5", exponents) are not pinned down
        (V::Int(n), O::Equals(x)) => {
            if x.as_ref() == n.to_string() {
                true
            } else if x.parse::<f64>().is_err() {
                false
            } else {
                return None;
            }
        }
        (V::Float(f), O::Equals(x)) => {
            if x.as_ref() == format!("{}", f) || x.as_ref() == format!("{:?}", f) {
                true
            } else if x.parse::<f64>().is_err() {
                false
            } else {
                return None;
            }
        }
        (V::Datetime(d), O::Equals(x)) => {
            if x.as_ref() == d.to_rfc3339() {
                true
            } else if DateTime::parse_from_rfc3339(x.as_ref()).is_err() {
                false
            } else {
                return None;
            }
        }
        // other cross-type comparisons (an integer operand against a float, a string operand against a boolean) are not documented
        _ => return None,
    })
}

// ---------------------------------------------------------------------------------------------

#[derive(Clone, Copy, Debug, PartialEq, Eq)]
pub enum Scenario {
    Base,
    RemoveKey0Strict,
    RemoveKey1NonStrict,
    RemoveOneData,
    RemoveOneDataThenKey1,
}

const SCENARIOS: [Scenario; 5] = [Scenario::Base, Scenario::RemoveKey0Strict, Scenario::RemoveKey1NonStrict, Scenario::RemoveOneData, Scenario::RemoveOneDataThenKey1];

pub fn build(sc: Scenario) -> Result<AnnotationStore, String> {
    let mut store = AnnotationStore::new(Config::default());
    let r = catch(|| -> Result<(), StamError> {
        store.add_resource(TextResourceBuilder::new().with_id("r").with_text("0123456789"))?;
        let vals = values();
        // set s0: key k0 holds every value without id, through annotations (even index) or directly in the dataset (odd index)
        let mut setb = AnnotationDataSetBuilder::new().with_id("s0");
        for (i, v) in vals.iter().enumerate() {
            if i % 2 == 1 {
                setb = setb.with_data(AnnotationDataBuilder::new().with_key("k0".into()).with_value(v.clone()));
            }
        }
        store.add_dataset(setb)?;
        for (i, v) in vals.iter().enumerate() {
            if i % 2 == 0 {
                store.annotate(
                    AnnotationBuilder::new()
                        .with_id(format!("a{}", i))
                        .with_target(SelectorBuilder::textselector("r", Offset::simple(i % 9, i % 9 + 1)))
                        .with_data("s0", "k0", v.clone()),
                )?;
            }
        }
        // key k1: some values with ids, plus an explicit-id duplicate of the same (key, value)
        for (i, (v, id)) in [
            (DataValue::String("abc".into()), "dup1"),
            (DataValue::String("abc".into()), "dup2"),
            (DataValue::Int(5), "five"),
            (DataValue::Float(2.5), "twohalf"),
            (DataValue::Bool(true), "yes"),
        ]
        .into_iter()
        .enumerate()
        {
            store.annotate(
                AnnotationBuilder::new()
                    .with_id(format!("b{}", i))
                    .with_target(SelectorBuilder::textselector("r", Offset::simple(i, i + 2)))
                    .with_data_with_id("s0", "k1", v, id),
            )?;
        }
        // a second set with the same key name
        store.annotate(
            AnnotationBuilder::new()
                .with_id("c0")
                .with_target(SelectorBuilder::resourceselector("r"))
                .with_data("s1", "k0", "abc")
                .with_data("s1", "k0", 5isize),
        )?;
        match sc {
            Scenario::Base => {}
            Scenario::RemoveKey0Strict => store.remove_key("s0", "k0", true)?,
            Scenario::RemoveKey1NonStrict => store.remove_key("s0", "k1", false)?,
            Scenario::RemoveOneData => store.remove_data("s0", "dup1", true)?,
            Scenario::RemoveOneDataThenKey1 => {
                store.remove_data("s0", AnnotationDataHandle::new(0), false)?;
                store.remove_key("s0", "k1", true)?;
            }
        }
        Ok(())
    });
    match r {
        Ok(Ok(())) => Ok(store),
        Ok(Err(e)) => Err(format!("err:{}", e)),
        Err(p) => Err(format!("panic:{}", msg_class(&p))),
    }
}

type Item = (String, usize);

fn items<'a>(it: impl Iterator<Item = ResultItem<'a, AnnotationData>>) -> Vec<Item> {
    it.map(|d| (d.set().id().unwrap_or("").to_string(), d.handle().as_usize())).collect()
}

/// full scan: live data of the datasets in scope, filtered by key identity and by value.test(op)
fn scan(store: &AnnotationStore, set: Option<&str>, key: Option<&str>, op: &DataOperator) -> Vec<Item> {
    let mut out = Vec::new();
    for s in store.datasets() {
        if let Some(set) = set {
            if s.id() != Some(set) {
                continue;
            }
        }
        for d in s.data() {
            if let Some(key) = key {
                if d.key().as_str() != key {
                    continue;
                }
            }
            if d.value().test(op) {
                out.push((s.id().unwrap_or("").to_string(), d.handle().as_usize()));
            }
        }
    }
    out
}

/// All search entry points for (set, key, op) against the scan. `ctx` goes into the signature.
pub fn check_search(rep: &Reporter, store: &AnnotationStore, ctx: &str, ord: u64, case: &dyn Fn(&str, &str, &str) -> Value, counter: &AtomicU64) {
    let ops = operators();
    let setids: Vec<String> = store.datasets().filter_map(|s| s.id().map(|x| x.to_string())).collect();
    let mut keyids: Vec<String> = vec!["k0".into(), "k1".into(), "nokey".into()];
    keyids.dedup();
    for (opname, op) in &ops {
        let fam = op_family(opname);
        // (1) set given, key given or any
        for set in &setids {
            let ds = match store.dataset(set.as_str()) {
                Some(d) => d,
                None => continue,
            };
            for key in keyids.iter().map(|k| Some(k.as_str())).chain(std::iter::once(None)) {
                let want = scan(store, Some(set), key, op);
                let keyname = key.unwrap_or("<any>");
                let keyclass = match key {
                    None => "anykey",
                    Some(k) if ds.key(k).is_some() => "key",
                    Some(_) => "unknown-key",
                };
                let mut cmp = |entry: &str, got: Result<Vec<Item>, String>| {
                    counter.fetch_add(1, Ordering::Relaxed);
                    match got {
                        Err(p) => rep.fail(&format!("search|{}|{}|{}|{}|panic:{}", ctx, entry, keyclass, fam, msg_class(&p)), ord, || format!("{} set={} key={} op={}", entry, set, keyname, opname), || case(set, keyname, opname)),
                        Ok(got) => {
                            if got != want {
                                let symptom = if got.len() < want.len() { "missing" } else if got.len() > want.len() { "extra" } else { "differs" };
                                rep.fail(
                                    &format!("search|{}|{}|{}|{}|{}", ctx, entry, keyclass, fam, symptom),
                                    ord,
                                    || format!("{} set={} key={} op={}: got {:?}, full scan gives {:?}", entry, set, keyname, opname, got, want),
                                    || case(set, keyname, opname),
                                );
                            }
                        }
                    }
                };
                match key {
                    Some(k) => {
                        cmp("store.find_data", catch(|| items(store.find_data(set.as_str(), k, op.clone()))));
                        cmp("dataset.find_data", catch(|| items(ds.find_data(k, op.clone()))));
                        if let Some(keyitem) = ds.key(k) {
                            cmp("key.data.filter_value", catch(|| items(keyitem.data().filter_value(op.clone()))));
                        }
                    }
                    None => {
                        cmp("store.find_data", catch(|| items(store.find_data(set.as_str(), false, op.clone()))));
                        cmp("dataset.find_data", catch(|| items(ds.find_data(false, op.clone()))));
                    }
                }
                // boolean forms
                let wantb = !want.is_empty();
                let gotb = match key {
                    Some(k) => catch(|| (store.test_data(set.as_str(), k, op.clone()), ds.test_data(k, op.clone()))),
                    None => catch(|| (store.test_data(set.as_str(), false, op.clone()), ds.test_data(false, op.clone()))),
                };
                counter.fetch_add(2, Ordering::Relaxed);
                match gotb {
                    Ok((a, b)) => {
                        if a != wantb || b != wantb {
                            rep.fail(&format!("search|{}|test_data|{}|{}|wrong-boolean", ctx, keyclass, fam), ord, || format!("test_data set={} key={} op={}: store={} dataset={}, scan says {}", set, keyname, opname, a, b, wantb), || case(set, keyname, opname));
                        }
                    }
                    Err(p) => rep.fail(&format!("search|{}|test_data|{}|{}|panic:{}", ctx, keyclass, fam, msg_class(&p)), ord, || format!("test_data set={} key={} op={}", set, keyname, opname), || case(set, keyname, opname)),
                }
            }
        }
        // (2) any set, any key
        let want = scan(store, None, None, op);
        counter.fetch_add(1, Ordering::Relaxed);
        match catch(|| items(store.find_data(false, false, op.clone()))) {
            Ok(got) => {
                if got != want {
                    rep.fail(&format!("search|{}|store.find_data|anyset|{}|differs", ctx, fam), ord, || format!("find_data(any, any, {}): got {:?}, scan {:?}", opname, got, want), || case("<any>", "<any>", opname));
                }
            }
            Err(p) => rep.fail(&format!("search|{}|store.find_data|anyset|{}|panic:{}", ctx, fam, msg_class(&p)), ord, || opname.clone(), || case("<any>", "<any>", opname)),
        }
    }
    // (3) key.data() = the items carrying that key; data_by_value finds exactly an item with that key and value
    for s in store.datasets() {
        for k in s.keys() {
            let want: Vec<usize> = s.data().filter(|d| d.key().handle() == k.handle()).map(|d| d.handle().as_usize()).collect();
            let got = catch(|| k.data().map(|d| d.handle().as_usize()).collect::<Vec<_>>());
            counter.fetch_add(1, Ordering::Relaxed);
            if got.as_ref().ok() != Some(&want) {
                rep.fail(&format!("search|{}|key.data|differs", ctx), ord, || format!("{}/{}: key.data() = {:?}, items carrying the key: {:?}", s.id().unwrap_or(""), k.as_str(), got, want), || case(s.id().unwrap_or(""), k.as_str(), "key.data()"));
            }
            for v in values() {
                let wantv = s.data().any(|d| d.key().handle() == k.handle() && *d.value() == v);
                let gotv = catch(|| s.as_ref().data_by_value(k.handle(), &v).map(|d| (d.key() == k.handle(), *d.value() == v)));
                counter.fetch_add(1, Ordering::Relaxed);
                let ok = match &gotv {
                    Ok(Some((true, true))) => wantv,
                    Ok(None) => !wantv,
                    _ => false,
                };
                if !ok {
                    rep.fail(&format!("search|{}|data_by_value|{}|wrong", ctx, vtype(&v)), ord, || format!("{}/{} data_by_value({:?}) = {:?} (key matches, value matches), exists: {}", s.id().unwrap_or(""), k.as_str(), v, gotv, wantv), || case(s.id().unwrap_or(""), k.as_str(), "data_by_value"));
                }
            }
        }
    }
}

/// (C) dedup and key uniqueness: every ordered pair of insertions (value, with/without id, via annotation or dataset)
fn run_dedup(rep: &Reporter, counter: &AtomicU64) -> u64 {
    let vals = values();
    let mut n = 0;
    for (i, v1) in vals.iter().enumerate() {
        for (j, v2) in vals.iter().enumerate() {
            for via in ["annotate+annotate", "dataset+annotate", "annotate+dataset", "builder+builder", "builder+annotate"] {
                n += 1;
                counter.fetch_add(1, Ordering::Relaxed);
                let r = catch(|| -> Result<(usize, usize, usize, Vec<usize>, Vec<usize>), StamError> {
                    let mut store = AnnotationStore::new(Config::default());
                    store.add_resource(TextResourceBuilder::new().with_id("r").with_text("0123456789"))?;
                    match via {
                        // the dataset is declared through its builder, with the data in the declaration
                        "builder+builder" => {
                            store.add_dataset(AnnotationDataSetBuilder::new().with_id("s0").with_key_value("k", v1.clone()).with_key_value("k", v2.clone()))?;
                        }
                        "builder+annotate" => {
                            store.add_dataset(AnnotationDataSetBuilder::new().with_id("s0").with_key_value("k", v1.clone()))?;
                        }
                        _ => {
                            store.add_dataset(AnnotationDataSetBuilder::new().with_id("s0"))?;
                        }
                    }
                    let ann = |store: &mut AnnotationStore, id: &str, v: &DataValue| {
                        store.annotate(AnnotationBuilder::new().with_id(id.to_string()).with_target(SelectorBuilder::textselector("r", Offset::simple(0, 1))).with_data("s0", "k", v.clone()))
                    };
                    let direct = |store: &mut AnnotationStore, v: &DataValue| -> Result<(), StamError> {
                        let set: &mut AnnotationDataSet = store.get_mut("s0")?;
                        set.insert_data(BuildItem::None, "k", v.clone(), true)?;
                        Ok(())
                    };
                    match via {
                        "annotate+annotate" => {
                            ann(&mut store, "x", v1)?;
                            ann(&mut store, "y", v2)?;
                        }
                        "dataset+annotate" => {
                            direct(&mut store, v1)?;
                            ann(&mut store, "y", v2)?;
                        }
                        "builder+builder" => {}
                        "builder+annotate" => {
                            ann(&mut store, "y", v2)?;
                        }
                        _ => {
                            ann(&mut store, "x", v1)?;
                            direct(&mut store, v2)?;
                        }
                    }
                    let set = store.dataset("s0").unwrap();
                    let nkeys = set.keys().filter(|k| k.as_str() == "k").count();
                    let ndata = set.data().count();
                    let rawlen = set.as_ref().data_len();
                    let dx: Vec<usize> = store.annotation("x").map(|a| a.data().map(|d| d.handle().as_usize()).collect()).unwrap_or_default();
                    let dy: Vec<usize> = store.annotation("y").map(|a| a.data().map(|d| d.handle().as_usize()).collect()).unwrap_or_default();
                    Ok((nkeys, ndata, rawlen, dx, dy))
                });
                let same = v1 == v2 && !matches!(v1, DataValue::Float(f) if f.is_nan());
                let class = format!("{}:{}{}", via, vtype(v1), if same { ":same" } else if vtype(v1) == vtype(v2) { ":sametype" } else { ":othertype" });
                let case = || json!({"dedup": {"v1": format!("{:?}", v1), "v2": format!("{:?}", v2), "via": via, "i": i, "j": j}});
                match r {
                    Err(p) => rep.fail(&format!("dedup|{}|panic:{}", class, msg_class(&p)), (i * 100 + j) as u64, || format!("{:?} then {:?}", v1, v2), case),
                    Ok(Err(e)) => rep.fail(&format!("dedup|{}|err:{}", class, msg_class(&format!("{}", e))), (i * 100 + j) as u64, || format!("{:?} then {:?}: {}", v1, v2, e), case),
                    Ok(Ok((nkeys, ndata, rawlen, dx, dy))) => {
                        let want = if same { 1 } else { 2 };
                        if nkeys != 1 {
                            rep.fail(&format!("dedup|{}|key-not-unique", class), (i * 100 + j) as u64, || format!("key 'k' exists {} times", nkeys), case);
                        }
                        if ndata != want || rawlen != want {
                            rep.fail(&format!("dedup|{}|data-count:{}-instead-of-{}", class, ndata, want), (i * 100 + j) as u64, || format!("(k,{:?}) then (k,{:?}) without ids: {} live data items ({} slots), expected {}", v1, v2, ndata, rawlen, want), case);
                        }
                        if same && via == "annotate+annotate" && (dx != dy || dx.len() != 1) {
                            rep.fail(&format!("dedup|{}|annotations-refer-to-different-items", class), (i * 100 + j) as u64, || format!("x has data {:?}, y has data {:?}", dx, dy), case);
                        }
                    }
                }
            }
        }
    }
    n
}

pub struct C10 {
    pub evals: AtomicU64,
}

impl Oracle for C10 {
    fn transition(&self, rep: &Reporter, t: &Trans) -> bool {
        // dedup as the model defines it: divergences in the vocabulary sections after an annotate
        if let Some((section, detail)) = t.divergence {
            if matches!(t.op, crate::ops::Op::Annotate { .. }) && (section == "keys" || section == "data" || section == "annotation-data") {
                rep.fail(&format!("hist|dedup|{}", section), t.ord, || format!("after {}: {}", t.op.short(), detail), || json!({"history": history_json(t.hist, Some(t.op))}));
            }
            return true;
        }
        if !t.new_state {
            return true;
        }
        let lastop = if t.op.is_removal() { t.op.kind() } else { "other".into() };
        let hist = t.hist;
        let op = t.op;
        let case = |set: &str, key: &str, o: &str| json!({"history": history_json(hist, Some(op)), "set": set, "key": key, "operator": o});
        check_search(rep, t.post, &format!("hist:lastop={}", lastop), t.ord, &case, &self.evals);
        true
    }
}

pub fn run(rep: &Reporter) -> Coverage {
    let oracle = C10 { evals: AtomicU64::new(0) };
    let mut cov = Coverage::default();
    // (A) fixed stores x scenarios
    let mut built = 0u64;
    for (i, sc) in SCENARIOS.iter().enumerate() {
        match build(*sc) {
            Ok(store) => {
                built += 1;
                let case = |set: &str, key: &str, o: &str| json!({"scenario": format!("{:?}", sc), "set": set, "key": key, "operator": o});
                check_search(rep, &store, &format!("{:?}", sc), i as u64, &case, &oracle.evals);
            }
            Err(e) => {
                // a scenario that cannot be built is a removal defect (C02), not a search defect; note it in the evidence
                cov.extra.insert(format!("scenario_{:?}_not_built", sc), json!(e));
            }
        }
    }
    // (B) DataValue::test vs the transcription of the documentation, and the logic laws
    let ops = operators();
    let mut pairs = 0u64;
    for (vi, v) in values().iter().enumerate() {
        for (opname, op) in &ops {
            pairs += 1;
            oracle.evals.fetch_add(1, Ordering::Relaxed);
            let got = catch(|| v.test(op));
            let case = || json!({"value": format!("{:?}", v), "operator": opname});
            match got {
                Err(p) => rep.fail(&format!("test|{}|{}|panic:{}", vtype(v), op_family(opname), msg_class(&p)), vi as u64, || format!("{:?}.test({})", v, opname), case),
                Ok(g) => {
                    if let Some(w) = spec_test(v, op) {
                        if g != w {
                            rep.fail(&format!("test|{}|{}|got={}", vtype(v), op_family(opname), g), vi as u64, || format!("{:?}.test({}) = {}, the operator documentation says {}", v, opname, g, w), case);
                        }
                    }
                    // laws hold for every operator, documented or not
                    let neg = DataOperator::Not(Box::new(op.clone()));
                    if catch(|| v.test(&neg)).ok() != Some(!g) {
                        rep.fail(&format!("test|{}|{}|law:not", vtype(v), op_family(opname)), vi as u64, || format!("{:?}: Not({}) is not the complement", v, opname), case);
                    }
                    let and = DataOperator::And(vec![op.clone(), DataOperator::Any]);
                    let or = DataOperator::Or(vec![op.clone(), DataOperator::Not(Box::new(DataOperator::Any))]);
                    if catch(|| v.test(&and)).ok() != Some(g) || catch(|| v.test(&or)).ok() != Some(g) {
                        rep.fail(&format!("test|{}|{}|law:and-or-identity", vtype(v), op_family(opname)), vi as u64, || format!("{:?}: And([{}, Any]) / Or([{}, Not(Any)]) differ from {}", v, opname, opname, g), case);
                    }
                }
            }
        }
    }
    // (C) dedup pairs and the history exploration
    let ndedup = run_dedup(rep, &oracle.evals);
    let mut runs = Vec::new();
    let budget = rep.tier.pick(40.0, 1200.0);
    let mut exhaustive = true;
    for plan in plans(rep.tier) {
        let stats = explore(rep, &oracle, &plan.init, &plan.al, plan.depth, budget);
        cov.states += stats.states;
        cov.transitions += stats.transitions;
        cov.distinct_nontrivial += stats.nontrivial_states;
        exhaustive &= stats.completed_depth == plan.depth;
        for h in &stats.sample_histories {
            if cov.samples.len() < 3 {
                cov.samples.push(json!({"history": h, "then": "every (set, key, operator) search through every entry point vs a full scan"}));
            }
        }
        runs.push(json!({"exploration": plan.name, "depth_requested": plan.depth, "depth_completed": stats.completed_depth, "new_states_per_depth": stats.depth_hist, "transitions": stats.transitions}));
    }
    cov.samples.push(json!({"scenario": "RemoveKey0Strict", "set": "s0", "key": "k1", "operator": "Equals(\"abc\")", "expected": "the two explicit-id duplicates dup1, dup2"}));
    cov.samples.push(json!({"dedup": {"v1": "Int(5)", "v2": "Int(5)", "via": "dataset+annotate"}}));
    cov.states += built * (ops.len() as u64) + pairs + ndedup;
    cov.exhaustive = exhaustive;
    cov.evaluations = oracle.evals.load(Ordering::Relaxed);
    cov.transitions += cov.evaluations;
    cov.traces_validated = cov.transitions;
    cov.extra.insert("explorations".into(), json!(runs));
    cov.extra.insert("fixed_store_scenarios".into(), json!(built));
    cov.extra.insert("value_operator_pairs".into(), json!(pairs));
    cov.extra.insert("dedup_insertion_pairs".into(), json!(ndedup));
    cov.extra.insert("operators".into(), json!(ops.len()));
    cov.extra.insert("values".into(), json!(values().len()));
    cov.rule = "(A) five fixed stores (18 values of all 7 types under key k0 without ids, 5 under k1 with ids incl. an explicit-id duplicate, a second set; after no removal / remove_key strict / non-strict / remove_data) x every dataset x every key (known, unknown, any) x every operator of the menu (see coverage.operators): store.find_data, dataset.find_data, key.data().filter_value, test_data (store, dataset), key.data(), data_by_value must equal a full scan of dataset.data() filtered by key identity and DataValue::test; (B) every value x operator pair: DataValue::test = transcription of the operator docs for same-type comparisons, Not/And/Or laws for all; (C) every ordered pair of insertions of the 18 values without ids via annotation or dataset: one key, equal values shared; and the search-vs-scan check in every state of the history exploration; non-trivial = states with a removed and a live annotation".into();
    cov.assumptions = vec!["cross-type comparisons (string operand on numbers/bools/datetimes, integer operand on floats) are not documented: compared differentially (index path vs scan path) only".into()];
    cov
}

pub fn replay(rep: &Reporter, case: &Value) {
    let c = AtomicU64::new(0);
    if let Some(sc) = case["scenario"].as_str() {
        for s in SCENARIOS {
            if format!("{:?}", s) == sc {
                println!("replay C10: scenario {:?}, recorded set={} key={} operator={}", s, case["set"], case["key"], case["operator"]);
                if let Ok(store) = build(s) {
                    let cj = |set: &str, key: &str, o: &str| json!({"scenario": sc, "set": set, "key": key, "operator": o});
                    check_search(rep, &store, sc, 0, &cj, &c);
                }
            }
        }
    } else if case.get("dedup").is_some() {
        println!("replay C10 dedup: {}", case["dedup"]);
        run_dedup(rep, &c);
    } else if case.get("history").is_some() {
        let hist = history_from_json(&case["history"]);
        let (store, _) = crate::ops::replay_real(&hist);
        let cj = |set: &str, key: &str, o: &str| json!({"history": history_json(&hist, None), "set": set, "key": key, "operator": o});
        check_search(rep, &store, "hist:replay", 0, &cj, &c);
    } else {
        println!("replay C10 value/operator pair: {} {}", case["value"], case["operator"]);
    }
}
