//! C01 (reverse lookups agree with forward references after any history) and
//! C02 (removal cascades exactly and never leaves dangling references) on the history engine.

use crate::hist::*;
use crate::observe::*;
use crate::ops::*;
use crate::report::{Coverage, Reporter, Tier};
use crate::util::{catch, msg_class};
use serde_json::{json, Value};
use stam::*;

pub struct C01;

fn offending_kind(t: &Trans) -> String {
    t.op.kind()
}

impl Oracle for C01 {
    fn transition(&self, rep: &Reporter, t: &Trans) -> bool {
        let mut healthy = true;
        // (1) "asking an annotation for its targets returns exactly what it was built with":
        // divergences of the abstract content after a non-removal operation (removals are C02's business)
        if let Some((section, detail)) = t.divergence {
            if !t.op.is_removal() {
                let sig = format!("built|{}|op={}", section_class(section, detail), offending_kind(t));
                rep.fail(
                    &sig,
                    t.ord,
                    || format!("after {}: {}", t.op.short(), detail),
                    || json!({"history": history_json(t.hist, Some(t.op))}),
                );
            }
        }
        // (2) every reverse lookup = scan of the forward references, in every state reached
        // (also in states that diverge from the model: self-consistency does not need the model)
        if t.outcome.is_ok() || matches!(t.outcome, Outcome::Err(_)) {
            healthy &= check_state(rep, t.hist, Some(t.op), t.post, t.ord);
        }
        // (3) protect_text adds data to annotations and updates the data index by hand: probe it in every new state
        if healthy && t.new_state && t.divergence.is_none() && !t.post_model.live_anns().is_empty() {
            let mut hist = t.hist.to_vec();
            hist.push(t.op.clone());
            for m in [PMode::Text, PMode::Checksum, PMode::Both, PMode::Auto] {
                let (mut s, _) = replay_real(&hist);
                let op = Op::Protect(m);
                if apply_real(&mut s, &op).is_ok() {
                    check_state(rep, &hist, Some(&op), &s, t.ord);
                }
            }
        }
        healthy
    }
}

fn section_class(section: &str, detail: &str) -> String {
    if section == "outcome" || section == "observation-panic" {
        format!("{}:{}", section, detail.split(',').next().unwrap_or("").replace("library returned ", ""))
    } else {
        section.to_string()
    }
}

pub fn check_state(rep: &Reporter, hist: &[Op], op: Option<&Op>, store: &AnnotationStore, ord: u64) -> bool {
    let fails = match catch(|| check_reverse(store)) {
        Ok(f) => f,
        Err(m) => vec![RevFail { accessor: "observation", symptom: format!("panic:{}", msg_class(&m)), detail: String::new() }],
    };
    // which kinds of operations are in the history decides which code paths maintained the index
    let lastop = op.map(|o| o.kind()).unwrap_or_else(|| "init".into());
    let healthy = fails.is_empty();
    for f in fails {
        let sig = format!("rev|{}|{}|lastop={}", f.accessor, f.symptom, lastop);
        rep.fail(
            &sig,
            ord,
            || format!("after {}: {}", op.map(|o| o.short()).unwrap_or_default(), f.detail),
            || json!({"history": history_json(hist, op)}),
        );
    }
    healthy
}

pub struct C02;

/// fixed battery exercising iteration, querying and serialisation of a store (must never fail or panic)
pub fn dangling_probe(store: &AnnotationStore) -> Option<(String, String)> {
    // forward accessors of every survivor
    let r = catch(|| {
        let mut problems: Vec<(String, String)> = Vec::new();
        for a in store.annotations() {
            let name = a.id().map(|s| s.to_string()).unwrap_or_else(|| format!("!A{}", a.handle().as_usize()));
            let rawlen = a.as_ref().raw_data().len();
            let n = a.data().count();
            if n != rawlen {
                problems.push(("dangling-data".into(), format!("{}: {} of {} data references resolve", name, n, rawlen)));
            }
            let _ = a.textselections().count();
            let _ = a.text().count();
            let _ = a.annotations_in_targets(AnnotationDepth::Max).count();
            let _ = a.resources().count();
            let _ = a.keys().count();
        }
        problems
    });
    match r {
        Err(m) => return Some(("dangling-panic@accessor".into(), msg_class(&m))),
        Ok(p) => {
            if let Some(first) = p.into_iter().next() {
                return Some(first);
            }
        }
    }
    // the forward walk must not name dead items
    let fw = catch(|| forward_real(store));
    match fw {
        Err(m) => return Some(("dangling-panic@target".into(), msg_class(&m))),
        Ok(fw) => {
            for a in fw {
                let s = format!("{:?}", a);
                if s.contains("<dead") || s.contains("<dangling") {
                    return Some(("dangling-target".into(), format!("{} refers to a removed item: {:?}", a.name, a.parts)));
                }
            }
        }
    }
    // queries
    for q in [
        "SELECT ANNOTATION ?a",
        "SELECT ANNOTATION ?a WHERE DATA \"s0\" \"k0\";",
        "SELECT TEXT ?t",
        "SELECT DATA ?d",
        "SELECT RESOURCE ?r",
    ] {
        let r = catch(|| -> Result<usize, String> {
            let (query, _) = Query::parse(q).map_err(|e| format!("{:?}", e))?;
            let iter = store.query(query).map_err(|e| format!("{:?}", e))?;
            Ok(iter.count())
        });
        match r {
            Err(m) => return Some(("dangling-panic@query".into(), format!("{}: {}", q, msg_class(&m)))),
            Ok(Err(e)) => return Some(("query-error".into(), format!("{}: {}", q, msg_class(&e)))),
            Ok(Ok(_)) => {}
        }
    }
    // serialisation
    // (an explicit JSON configuration: a store loaded from CSV/CBOR carries that data format in its own config)
    match catch(|| store.to_json_string(&Config::default())) {
        Err(m) => Some(("dangling-panic@to_json".into(), msg_class(&m))),
        Ok(Err(e)) => Some(("to_json-error".into(), msg_class(&format!("{:?}", e)))),
        Ok(Ok(_)) => None,
    }
}

/// how is the most interesting victim related to the removed item (for the signature)
fn removal_context(t: &Trans) -> String {
    // shape of the pre-state: which selector kinds / data sharing exist among live annotations
    let m = t.pre_model;
    let mut kinds: Vec<String> = Vec::new();
    for a in m.anns.iter().flatten() {
        let k = match a.kind {
            TKind::Simple => match &a.parts[0] {
                crate::model::MT::Text { .. } => "T",
                crate::model::MT::Ann { text: None, .. } => "A",
                crate::model::MT::Ann { text: Some(_), .. } => "At",
                crate::model::MT::Res(_) => "R",
                crate::model::MT::Set(_) => "S",
                crate::model::MT::Key(..) => "K",
                crate::model::MT::Data(..) => "D",
            }
            .to_string(),
            _ => "C".to_string(),
        };
        let dk = match a.data.len() {
            0 => "0",
            1 => "1",
            _ => "n",
        };
        kinds.push(format!("{}{}", k, dk));
    }
    kinds.sort();
    kinds.dedup();
    kinds.join(",")
}

impl Oracle for C02 {
    fn transition(&self, rep: &Reporter, t: &Trans) -> bool {
        if !t.op.is_removal() {
            return true;
        }
        let mut healthy = true;
        let ctx = removal_context(t);
        let mut report = |symptom: String, detail: String| {
            healthy = false;
            let sig = format!("{}|{}|pre={}", t.op.kind(), symptom, ctx);
            rep.fail(
                &sig,
                t.ord,
                || format!("{} : {}", t.op.short(), detail),
                || json!({"history": history_json(t.hist, Some(t.op))}),
            );
        };
        match t.outcome {
            Outcome::Panic(m) => {
                report(format!("panic:{}", m), "removal of an existing item panicked".into());
                return false;
            }
            Outcome::Err(e) => {
                report(format!("err-on-existing:{}", e), format!("removal of an existing item returned Err({})", e));
                // the store must still be usable: fall through to the dangling probe
            }
            Outcome::Ok => {
                if let Some((section, detail)) = t.divergence {
                    report(section.clone(), detail.clone());
                }
            }
        }
        if let Some((symptom, detail)) = dangling_probe(t.post) {
            report(symptom, detail);
        }
        // "touches nothing else": a removal must leave the reverse indices of everything that survives exact (a row of an
        // unrelated annotation dropped here only shows as a missed cascade one removal later)
        if t.new_state {
            match catch(|| check_reverse(t.post)) {
                Ok(fails) => {
                    for f in fails {
                        report(format!("index-of-survivors|{}|{}", f.accessor, f.symptom), f.detail);
                    }
                }
                Err(m) => report(format!("index-of-survivors|observation|panic:{}", msg_class(&m)), String::new()),
            }
        }
        healthy
    }
}

pub struct Plan {
    pub name: &'static str,
    pub al: Alphabet,
    pub init: Vec<Op>,
    pub depth: usize,
}

/// r0, s0, r1 and two annotations on r1: the second resource already has text selections (handles 0 and 1) when the
/// exploration starts, so that handles of different resources can coincide or continue each other
pub fn two_resource_init() -> Vec<Op> {
    let mut v = quick_init();
    v.push(Op::AddRes { id: R1.0.into(), text: R1.1.into() });
    for (i, (b, e)) in [(0usize, 2usize), (1, 4)].iter().enumerate() {
        v.push(Op::Annotate {
            id: Some(format!("x{}", i)),
            target: Target::simple(TSimple::Text { res: R1.0.into(), off: Off::simple(*b, *e) }),
            data: vec![DataT::New { set: "s0".into(), key: "k0".into(), val: Val::S("v".into()), id: None }],
        });
    }
    v
}

pub fn plans(tier: Tier) -> Vec<Plan> {
    match tier {
        Tier::Quick => vec![
            Plan { name: "reduced alphabet, r0+s0 pre-created", al: Alphabet::quick(), init: quick_init(), depth: 4 },
            // second resource, second dataset, data in two sets, rich targets: shallower
            Plan { name: "full alphabet, r0+s0 pre-created", al: Alphabet::thorough(), init: quick_init(), depth: 3 },
            Plan { name: "full alphabet, two resources, r1 with two selections", al: Alphabet::thorough(), init: two_resource_init(), depth: 2 },
        ],
        Tier::Thorough => vec![
            Plan { name: "full alphabet, r0+s0 pre-created", al: Alphabet::thorough(), init: quick_init(), depth: 4 },
            Plan { name: "reduced alphabet, r0+s0 pre-created", al: Alphabet::quick(), init: quick_init(), depth: 5 },
            Plan { name: "full alphabet from the empty store", al: Alphabet::thorough(), init: vec![], depth: 4 },
            Plan { name: "full alphabet, two resources, r1 with two selections", al: Alphabet::thorough(), init: two_resource_init(), depth: 3 },
        ],
    }
}

/// Run all explorations of the tier with one oracle and merge the statistics into one coverage record.
pub fn run_hist(rep: &Reporter, oracle: &dyn Oracle, what: &str) -> Coverage {
    let mut cov = Coverage::default();
    let mut runs = Vec::new();
    let mut exhaustive = true;
    let budget = rep.tier.pick(50.0, 1500.0);
    for plan in plans(rep.tier) {
        let stats = explore(rep, oracle, &plan.init, &plan.al, plan.depth, budget);
        cov.states += stats.states;
        cov.transitions += stats.transitions;
        cov.distinct_nontrivial += stats.nontrivial_states;
        exhaustive &= stats.completed_depth == plan.depth;
        for h in &stats.sample_histories {
            if cov.samples.len() < 8 {
                cov.samples.push(json!(h));
            }
        }
        runs.push(json!({
            "exploration": plan.name,
            "depth_requested": plan.depth,
            "depth_completed": stats.completed_depth,
            "new_states_per_depth": stats.depth_hist,
            "transitions": stats.transitions,
            "transitions_pruned_behind_divergence_or_failure": stats.pruned_divergent,
            "initial_operations": plan.init.iter().map(|o| o.short()).collect::<Vec<_>>(),
            "alphabet": format!("{:?}", plan.al),
        }));
    }
    cov.traces_validated = cov.transitions;
    cov.evaluations = cov.transitions;
    cov.rule = format!(
        "level-synchronous exploration of every history of valid operations (alphabet: hist::enabled_ops) of length <= depth after the initial operations; \
         states are merged only when the complete internal dump (hook H1) coincides; every transition executes the real library call and the reference model on the same operation; {}; \
         non-trivial = distinct states with at least one removed and one live annotation",
        what
    );
    cov.exhaustive = exhaustive;
    cov.extra.insert("explorations".into(), json!(runs));
    cov.assumptions = vec![
        "the reference model (model.rs) is the documented semantics of annotate / remove_*".into(),
        "states behind a transition that fails its oracle or diverges from the model are not expanded (their number is reported)".into(),
    ];
    cov
}

pub fn run_c01(rep: &Reporter) -> Coverage {
    let init = quick_init();
    let (s0, _) = replay_real(&init);
    check_state(rep, &init, None, &s0, 0);
    run_hist(rep, &C01, "oracle: every reverse accessor of every live item = scan of the forward references (observe::check_reverse), and forward references = what the builder resolved to in the model")
}

pub fn run_c02(rep: &Reporter) -> Coverage {
    run_hist(rep, &C02, "oracle (removal transitions): Ok whenever the item exists, survivors and their data = the model's documented cascade, and iteration / queries / to_json_string succeed afterwards")
}

/// replay for both: re-execute the recorded history; the last operation is the transition under test
pub fn replay(rep: &Reporter, case: &Value, which: &str) {
    let hist = history_from_json(&case["history"]);
    if hist.is_empty() {
        println!("replay: empty history");
        return;
    }
    let (pre_h, op) = hist.split_at(hist.len() - 1);
    let op = &op[0];
    println!("replay {}: history:", which);
    for o in &hist {
        println!("   {}", o.short());
    }
    let (pre, _) = replay_real(pre_h);
    let pre_model = replay_model(pre_h);
    let mut post_model = pre_model.clone();
    let mres = post_model.apply(op);
    let (mut post, _) = replay_real(pre_h);
    let outcome = apply_real(&mut post, op);
    println!("  library outcome: {}   model: {:?}", outcome.class(), mres);
    let divergence = if !outcome.is_ok() {
        Some(("outcome".to_string(), format!("library returned {}, the documentation says the operation succeeds", outcome.class())))
    } else {
        diff_abstract(&abstract_real(&post), &abstract_model(&post_model))
    };
    println!("  divergence from model: {:?}", divergence);
    let t = Trans {
        hist: pre_h,
        op,
        pre: &pre,
        pre_model: &pre_model,
        post: &post,
        post_model: &post_model,
        outcome: &outcome,
        divergence: &divergence,
        new_state: true,
        depth: hist.len(),
        ord: 0,
    };
    match which {
        "C01" => C01.transition(rep, &t),
        _ => C02.transition(rep, &t),
    };
}
