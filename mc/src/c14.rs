//! C14 — failed mutations leave the store observably unchanged.
//! In every state reached by the history engine, every invalid request of a menu is issued (directly, inside
//! a batch, from a JSON file); if it returns Err the public observation must be unchanged, and the corrected
//! request must then behave exactly as on the untouched state.

use crate::c01::plans;
use crate::hist::*;
use crate::model::Model;
use crate::observe::*;
use crate::ops::*;
use crate::report::{Coverage, Reporter, Tier};
use crate::util::{catch, msg_class};
use serde_json::{json, Value};
use stam::*;
use std::sync::atomic::{AtomicU64, Ordering};

/// A possibly nested target (the Op alphabet cannot express nesting, invalid requests need it)
#[derive(Clone, Debug)]
pub enum TNode {
    S(TSimple),
    C(TKind, Vec<TNode>),
}

fn tnode_builder<'a>(t: &'a TNode) -> SelectorBuilder<'a> {
    match t {
        TNode::S(s) => tsimple_builder(s),
        TNode::C(k, v) => {
            let subs: Vec<SelectorBuilder<'a>> = v.iter().map(tnode_builder).collect();
            match k {
                TKind::Multi | TKind::Simple => SelectorBuilder::multiselector(subs),
                TKind::Composite => SelectorBuilder::compositeselector(subs),
                TKind::Directional => SelectorBuilder::directionalselector(subs),
            }
        }
    }
}

#[derive(Clone, Debug)]
pub struct Req {
    pub id: Option<String>,
    pub target: Option<TNode>,
    pub data: Vec<DataT>,
}

impl Req {
    fn builder<'a>(&'a self) -> AnnotationBuilder<'a> {
        let mut b = AnnotationBuilder::new();
        if let Some(id) = &self.id {
            b = b.with_id(id.clone());
        }
        if let Some(t) = &self.target {
            b = b.with_target(tnode_builder(t));
        }
        for d in &self.data {
            match d {
                DataT::New { set, key, val, id: None } => b = b.with_data(set.as_str(), key.as_str(), val.to_datavalue()),
                DataT::New { set, key, val, id: Some(id) } => b = b.with_data_with_id(set.as_str(), key.as_str(), val.to_datavalue(), id.as_str()),
                DataT::Existing { set, id } => b = b.with_existing_data(set.as_str(), id.as_str()),
            }
        }
        b
    }
    fn to_json(&self) -> Value {
        json!(format!("{:?}", self))
    }
    /// STAM JSON rendering (for annotate_from_file); None if the request cannot be written as JSON
    fn to_stam_json(&self) -> Option<Value> {
        fn sel(t: &TNode) -> Option<Value> {
            Some(match t {
                TNode::S(TSimple::Text { res, off }) => json!({"@type": "TextSelector", "resource": res, "offset": offj(off)}),
                TNode::S(TSimple::Ann { ann, off: None }) => json!({"@type": "AnnotationSelector", "annotation": ann}),
                TNode::S(TSimple::Ann { ann, off: Some(o) }) => json!({"@type": "AnnotationSelector", "annotation": ann, "offset": offj(o)}),
                TNode::S(TSimple::Res(r)) => json!({"@type": "ResourceSelector", "resource": r}),
                TNode::S(TSimple::Set(s)) => json!({"@type": "DataSetSelector", "annotationset": s}),
                TNode::S(TSimple::Key(s, k)) => json!({"@type": "DataKeySelector", "annotationset": s, "key": k}),
                TNode::S(TSimple::Data(_, _)) => return None,
                TNode::C(k, v) => {
                    let subs: Option<Vec<Value>> = v.iter().map(sel).collect();
                    let name = match k {
                        TKind::Composite => "CompositeSelector",
                        TKind::Directional => "DirectionalSelector",
                        _ => "MultiSelector",
                    };
                    json!({"@type": name, "selectors": subs?})
                }
            })
        }
        fn offj(o: &Off) -> Value {
            let c = |c: Cur| match c {
                Cur::B(n) => json!({"@type": "BeginAlignedCursor", "value": n}),
                Cur::E(n) => json!({"@type": "EndAlignedCursor", "value": n}),
            };
            json!({"@type": "Offset", "begin": c(o.b), "end": c(o.e)})
        }
        let mut o = serde_json::Map::new();
        o.insert("@type".into(), json!("Annotation"));
        if let Some(id) = &self.id {
            o.insert("@id".into(), json!(id));
        }
        o.insert("target".into(), sel(self.target.as_ref()?)?);
        let mut data = Vec::new();
        for d in &self.data {
            match d {
                DataT::New { set, key, val, id } => {
                    let v = match val {
                        Val::S(s) => json!({"@type": "String", "value": s}),
                        Val::I(i) => json!({"@type": "Int", "value": i}),
                    };
                    let mut m = serde_json::Map::new();
                    m.insert("@type".into(), json!("AnnotationData"));
                    if let Some(id) = id {
                        m.insert("@id".into(), json!(id));
                    }
                    m.insert("set".into(), json!(set));
                    m.insert("key".into(), json!(key));
                    m.insert("value".into(), v);
                    data.push(Value::Object(m));
                }
                DataT::Existing { set, id } => data.push(json!({"@type": "AnnotationData", "@id": id, "set": set})),
            }
        }
        o.insert("data".into(), Value::Array(data));
        Some(Value::Object(o))
    }
}

pub struct InvalidCase {
    pub name: &'static str,
    pub bad: Req,
    /// the same request with the mistake corrected
    pub good: Req,
}

fn text(res: &str, b: usize, e: usize) -> TNode {
    TNode::S(TSimple::Text { res: res.into(), off: Off::simple(b, e) })
}

fn newdata(set: &str, key: &str, v: &str) -> DataT {
    DataT::New { set: set.into(), key: key.into(), val: Val::S(v.into()), id: None }
}

/// The menu of invalid requests for a state. Only those whose corrected version the model accepts are returned.
pub fn invalid_menu(m: &Model) -> Vec<InvalidCase> {
    let mut v = Vec::new();
    let r = match m.res.iter().flatten().next() {
        Some(r) => r.id.clone(),
        None => return v,
    };
    let len = m.res.iter().flatten().next().unwrap().len();
    if len < 4 {
        return v;
    }
    let nid = Some(format!("a{}", m.anns.len()));
    // a fresh range (1,4) is deliberately used so that a leaked selection is visible; (0,2) may already be known
    let good_t = text(&r, 1, 4);
    let good_d = vec![newdata("s0", "k0", "v")];
    let mk = |name: &'static str, t: Option<TNode>, d: Vec<DataT>, id: Option<String>, gt: Option<TNode>, gd: Vec<DataT>, gid: Option<String>| InvalidCase {
        name,
        bad: Req { id, target: t, data: d },
        good: Req { id: gid, target: gt, data: gd },
    };
    let g = |t: Option<TNode>, d: Vec<DataT>| (t, d);
    let _ = g;
    v.push(mk("unknown-resource", Some(text("nope", 1, 4)), good_d.clone(), nid.clone(), Some(good_t.clone()), good_d.clone(), nid.clone()));
    v.push(mk("unknown-annotation", Some(TNode::S(TSimple::Ann { ann: "nope".into(), off: None })), good_d.clone(), nid.clone(), Some(good_t.clone()), good_d.clone(), nid.clone()));
    v.push(mk("unknown-dataset-selector", Some(TNode::S(TSimple::Set("nope".into()))), good_d.clone(), nid.clone(), Some(good_t.clone()), good_d.clone(), nid.clone()));
    v.push(mk("unknown-key-selector", Some(TNode::S(TSimple::Key("s0".into(), "nokey".into()))), good_d.clone(), nid.clone(), Some(good_t.clone()), good_d.clone(), nid.clone()));
    v.push(mk("unknown-data-selector", Some(TNode::S(TSimple::Data("s0".into(), DRef::Id("nodata".into())))), good_d.clone(), nid.clone(), Some(good_t.clone()), good_d.clone(), nid.clone()));
    v.push(mk("offset-out-of-range", Some(text(&r, len, len + 4)), good_d.clone(), nid.clone(), Some(good_t.clone()), good_d.clone(), nid.clone()));
    v.push(mk("offset-inverted", Some(text(&r, 4, 1)), good_d.clone(), nid.clone(), Some(good_t.clone()), good_d.clone(), nid.clone()));
    v.push(mk(
        "offset-positive-endaligned",
        Some(TNode::S(TSimple::Text { res: r.clone(), off: Off { b: Cur::B(1), e: Cur::E(2) } })),
        good_d.clone(),
        nid.clone(),
        Some(good_t.clone()),
        good_d.clone(),
        nid.clone(),
    ));
    v.push(mk("no-target", None, good_d.clone(), nid.clone(), Some(good_t.clone()), good_d.clone(), nid.clone()));
    v.push(mk(
        "nested-complex",
        Some(TNode::C(TKind::Multi, vec![text(&r, 0, 1), TNode::C(TKind::Composite, vec![text(&r, 1, 4), text(&r, len - 1, len)])])),
        good_d.clone(),
        nid.clone(),
        Some(TNode::C(TKind::Multi, vec![text(&r, 0, 1), text(&r, 1, 4), text(&r, len - 1, len)])),
        good_d.clone(),
        nid.clone(),
    ));
    v.push(mk(
        "nested-complex-first",
        Some(TNode::C(TKind::Directional, vec![TNode::C(TKind::Composite, vec![text(&r, 1, 4), text(&r, len - 1, len)]), text(&r, 0, 1)])),
        good_d.clone(),
        nid.clone(),
        Some(TNode::C(TKind::Directional, vec![text(&r, 1, 4), text(&r, len - 1, len), text(&r, 0, 1)])),
        good_d.clone(),
        nid.clone(),
    ));
    v.push(mk(
        "complex-second-part-invalid",
        Some(TNode::C(TKind::Directional, vec![text(&r, 1, 4), text("nope", 0, 1)])),
        good_d.clone(),
        nid.clone(),
        Some(TNode::C(TKind::Directional, vec![text(&r, 1, 4), text(&r, 0, 1)])),
        good_d.clone(),
        nid.clone(),
    ));
    v.push(mk(
        "valid-target+unknown-existing-data",
        Some(good_t.clone()),
        vec![DataT::Existing { set: "s0".into(), id: "nodata".into() }],
        nid.clone(),
        Some(good_t.clone()),
        good_d.clone(),
        nid.clone(),
    ));
    v.push(mk(
        "valid-target+new-data-then-unknown-existing-data",
        Some(good_t.clone()),
        vec![newdata("snew", "knew", "x"), DataT::Existing { set: "s0".into(), id: "nodata".into() }],
        nid.clone(),
        Some(good_t.clone()),
        vec![newdata("snew", "knew", "x")],
        nid.clone(),
    ));
    v.push(mk(
        "invalid-target+new-dataset-key-data",
        Some(text("nope", 1, 4)),
        vec![newdata("snew", "knew", "x")],
        nid.clone(),
        Some(good_t.clone()),
        vec![newdata("snew", "knew", "x")],
        nid.clone(),
    ));
    if let Some(a) = m.anns.iter().flatten().find(|a| a.id.is_some()) {
        v.push(mk(
            "duplicate-annotation-id",
            Some(good_t.clone()),
            vec![newdata("snew", "knew", "x")],
            a.id.clone(),
            Some(good_t.clone()),
            vec![newdata("snew", "knew", "x")],
            nid.clone(),
        ));
        // relative offset beyond the parent
        if let Some((_, b, e)) = a.simple_text() {
            let plen = e - b;
            v.push(mk(
                "relative-offset-out-of-range",
                Some(TNode::S(TSimple::Ann { ann: a.id.clone().unwrap(), off: Some(Off::simple(plen + 1, plen + 2)) })),
                good_d.clone(),
                nid.clone(),
                Some(TNode::S(TSimple::Ann { ann: a.id.clone().unwrap(), off: Some(Off::simple(0, plen)) })),
                good_d.clone(),
                nid.clone(),
            ));
        }
    }
    // a valid target relative to an annotation whose text selection is already known (resolving it looks the selection up, and
    // must find it rather than make a second one), in a request that fails afterwards
    if let Some(a) = m.anns.iter().flatten().find(|a| a.id.is_some() && a.simple_text().map(|(_, b, e)| e > b).unwrap_or(false)) {
        let rel = TNode::S(TSimple::Ann { ann: a.id.clone().unwrap(), off: Some(Off::whole()) });
        v.push(mk("valid-relative-target+duplicate-annotation-id", Some(rel.clone()), vec![], a.id.clone(), Some(rel.clone()), vec![], nid.clone()));
        // (only where the dataset exists: that a failing data reference leaves a new, empty dataset behind is recorded under valid-target+unknown-existing-data)
        if m.set_idx("s0").is_some() {
        v.push(mk(
            "valid-relative-target+unknown-existing-data",
            Some(rel.clone()),
            vec![DataT::Existing { set: "s0".into(), id: "nodata".into() }],
            nid.clone(),
            Some(rel.clone()),
            vec![],
            nid.clone(),
        ));
        }
    }
    // a full data definition under an identifier that is already taken by other content, with a key and a dataset that do not
    // exist yet (the library may accept this by re-using the existing item, or refuse it; if it refuses, nothing may stay behind)
    if let Some(si) = m.set_idx("s0") {
        if let Some(d) = m.sets[si].as_ref().unwrap().data.iter().flatten().find(|d| d.id.is_some()) {
            let taken = d.id.clone();
            v.push(mk(
                "taken-data-id+other-content-new-key",
                Some(good_t.clone()),
                vec![DataT::New { set: "s0".into(), key: "knew".into(), val: Val::S("other".into()), id: taken.clone() }],
                nid.clone(),
                Some(good_t.clone()),
                vec![newdata("s0", "knew", "other")],
                nid.clone(),
            ));
            v.push(mk(
                "new-dataset-data-then-taken-data-id+other-content",
                Some(good_t.clone()),
                vec![newdata("snew", "knew", "x"), DataT::New { set: "s0".into(), key: "k0".into(), val: Val::S("other".into()), id: taken }],
                nid.clone(),
                Some(good_t.clone()),
                vec![newdata("snew", "knew", "x"), newdata("s0", "k0", "other")],
                nid.clone(),
            ));
        }
    }
    // the id of the most recently added annotation (the holder is the last item of its store)
    if let Some(a) = m.anns.iter().flatten().filter(|a| a.id.is_some()).last() {
        if m.anns.iter().flatten().find(|a| a.id.is_some()).map(|f| f.id != a.id).unwrap_or(false) {
            v.push(mk(
                "duplicate-annotation-id:newest",
                Some(good_t.clone()),
                good_d.clone(),
                a.id.clone(),
                Some(good_t.clone()),
                good_d.clone(),
                nid.clone(),
            ));
        }
    }
    v
}

/// The public observation that must not change: abstract content (incl. known selections), segmentation,
/// raw lengths, index sizes, and the reverse-lookup self-consistency.
pub fn observe_full(store: &AnnotationStore) -> Result<Vec<(String, String)>, String> {
    catch(|| {
        let mut o: Vec<(String, String)> = Vec::new();
        let a = abstract_real(store);
        for r in &a.resources {
            for sel in &r.2 {
                o.push((format!("textselections"), format!("{}({},{})", r.0, sel.0, sel.1)));
            }
            o.push((format!("resource"), format!("{} {:?}", r.0, r.1)));
        }
        for s in &a.sets {
            o.push(("dataset".into(), s.0.clone()));
            for k in &s.1 {
                o.push(("keys".into(), format!("{}/{}", s.0, k)));
            }
            for d in &s.2 {
                o.push(("data".into(), format!("{}/{}={:?}", s.0, d.1, d.2)));
            }
        }
        o.push(("annotations".into(), format!("{:?}", a.anns)));
        for r in store.resources() {
            let seg: Vec<(usize, usize)> = r.segmentation().map(|t| (t.begin(), t.end())).collect();
            o.push(("segmentation".into(), format!("{} {:?}", r.id().unwrap_or(""), seg)));
            o.push(("textselections_len".into(), format!("{} {}", r.id().unwrap_or(""), r.textselections_len())));
        }
        o.push(("lengths".into(), format!("annotations_len={} resources_len={} datasets_len={}", store.annotations_len(), store.resources_len(), store.datasets_len())));
        for s in store.datasets() {
            o.push(("dataset-lengths".into(), format!("{} keys_len={} data_len={}", s.id().unwrap_or(""), s.as_ref().keys_len(), s.as_ref().data_len())));
        }
        o.push(("index".into(), format!("{:?}", store.index_totalcount())));
        let rev = check_reverse(store);
        o.push(("reverse-lookups".into(), format!("{:?}", rev.iter().map(|f| format!("{} {} {}", f.accessor, f.symptom, f.detail)).collect::<Vec<_>>())));
        for id in ["nope", "snew", "knew", "nodata"] {
            o.push((
                "id-lookups".into(),
                format!(
                    "{}: {:?} {:?} {:?} {:?} {:?}",
                    id,
                    store.annotation(id).is_some(),
                    store.resource(id).is_some(),
                    store.dataset(id).is_some(),
                    store.key("s0", id).is_some(),
                    store.annotationdata("s0", id).is_some()
                ),
            ));
        }
        o
    })
}

/// All differences between two observations: (signature part naming every section that changed and what
/// appeared / disappeared in the itemised sections, human-readable detail). None if equal.
fn first_diff(a: &[(String, String)], b: &[(String, String)]) -> Option<(String, String)> {
    let mut sigparts: Vec<String> = Vec::new();
    let mut details: Vec<String> = Vec::new();
    for section in ["textselections", "dataset", "keys", "data", "annotations", "resource", "segmentation", "id-lookups", "textselections_len", "dataset-lengths", "lengths", "index", "reverse-lookups"] {
        let x: Vec<&String> = a.iter().filter(|p| p.0 == section).map(|p| &p.1).collect();
        let y: Vec<&String> = b.iter().filter(|p| p.0 == section).map(|p| &p.1).collect();
        if x != y {
            match section {
                "textselections" | "dataset" | "keys" | "data" => {
                    // what appeared / disappeared (entries are one per item)
                    let added: Vec<String> = y.iter().filter(|e| !x.contains(e)).map(|e| e.replace(' ', "")).collect();
                    let removed: Vec<String> = x.iter().filter(|e| !y.contains(e)).map(|e| e.replace(' ', "")).collect();
                    sigparts.push(format!("{}:+[{}]-[{}]", section, added.join(";"), removed.join(";")));
                    details.push(format!("{}: appeared {:?} disappeared {:?}", section, added, removed));
                }
                // consequences of the itemised sections (not repeated in the signature when those already differ)
                "segmentation" | "textselections_len" | "dataset-lengths" | "lengths" | "id-lookups" if !sigparts.is_empty() => {}
                _ => {
                    sigparts.push(section.to_string());
                    details.push(format!("{}: before {:?} after {:?}", section, x, y));
                }
            }
        }
    }
    if sigparts.is_empty() {
        None
    } else {
        Some((sigparts.join(","), details.join("; ")))
    }
}

#[derive(Clone, Copy, Debug, PartialEq, Eq)]
pub enum Entry {
    Direct,
    BatchMiddle,
    File,
}

fn apply_req(store: &mut AnnotationStore, entry: Entry, bad: &Req, ok_before: &Req, ok_after: &Req, workdir: &str) -> Outcome {
    let r = catch(|| -> Result<(), StamError> {
        match entry {
            Entry::Direct => {
                store.annotate(bad.builder())?;
            }
            Entry::BatchMiddle => {
                store.annotate_from_iter(vec![ok_before.builder(), bad.builder(), ok_after.builder()])?;
            }
            Entry::File => {
                let docs: Vec<Value> = vec![ok_before.to_stam_json().unwrap(), bad.to_stam_json().unwrap(), ok_after.to_stam_json().unwrap()];
                let path = format!("{}/batch-{:?}.json", workdir, std::thread::current().id());
                std::fs::write(&path, serde_json::to_string(&Value::Array(docs)).unwrap()).expect("write batch file");
                let r = store.annotate_from_file(&path).map(|_| ());
                let _ = std::fs::remove_file(&path);
                r?;
            }
        }
        Ok(())
    });
    match r {
        Ok(Ok(())) => Outcome::Ok,
        Ok(Err(e)) => Outcome::Err(msg_class(&format!("{:?}", e)).chars().take_while(|c| c.is_alphanumeric()).collect()),
        Err(p) => Outcome::Panic(msg_class(&p)),
    }
}

pub struct C14 {
    pub probes: AtomicU64,
    pub errs: AtomicU64,
    pub workdir: String,
}

impl Oracle for C14 {
    fn transition(&self, rep: &Reporter, t: &Trans) -> bool {
        if t.divergence.is_some() || !t.new_state {
            return true;
        }
        let mut hist: Vec<Op> = t.hist.to_vec();
        hist.push(t.op.clone());
        self.probe_state(rep, &hist, t.post_model, t.ord);
        true
    }
}

impl C14 {
    pub fn probe_state(&self, rep: &Reporter, hist: &[Op], m: &Model, ord: u64) {
        let (base, _) = replay_real(hist);
        let before = match observe_full(&base) {
            Ok(o) => o,
            Err(_) => return, // an unobservable state is C01/C02's finding
        };
        let nid = m.anns.len();
        let (r, len) = match m.res.iter().flatten().next() {
            Some(r) => (r.id.clone(), r.len()),
            None => return,
        };
        if len < 4 {
            return;
        }
        // two valid neighbours for batches (their own ids must not clash with the element under test)
        let ok_before = Req { id: Some(format!("b{}", nid)), target: Some(text(&r, 0, 1)), data: vec![] };
        let ok_after = Req { id: Some(format!("c{}", nid)), target: Some(text(&r, len - 1, len)), data: vec![] };
        for case in invalid_menu(m) {
            for entry in [Entry::Direct, Entry::BatchMiddle, Entry::File] {
                if entry == Entry::File && (case.bad.to_stam_json().is_none() || case.bad.target.is_none()) {
                    continue;
                }
                self.probes.fetch_add(1, Ordering::Relaxed);
                // the reference "before" state of a batch is the state after its valid first element
                let (mut s, _) = replay_real(hist);
                let reference = if entry == Entry::Direct {
                    before.clone()
                } else {
                    let (mut s0, _) = replay_real(hist);
                    if s0.annotate(ok_before.builder()).is_err() {
                        continue;
                    }
                    match observe_full(&s0) {
                        Ok(o) => o,
                        Err(_) => continue,
                    }
                };
                let out = apply_req(&mut s, entry, &case.bad, &ok_before, &ok_after, &self.workdir);
                let casej = || json!({"history": history_json(hist, None), "invalid": case.name, "entry": format!("{:?}", entry), "request": case.bad.to_json()});
                match &out {
                    Outcome::Ok => continue, // accepted: nothing for C14 to say (C04 decides acceptance)
                    Outcome::Panic(p) => {
                        rep.fail(&format!("{:?}|{}|panic:{}", entry, case.name, p), ord, || format!("{} via {:?}: panicked instead of returning an error", case.name, entry), casej);
                        continue;
                    }
                    Outcome::Err(_) => {}
                }
                self.errs.fetch_add(1, Ordering::Relaxed);
                let reference = if out == Outcome::Err("JsonError".into()) { before.clone() } else { reference };
                let after = match observe_full(&s) {
                    Ok(o) => o,
                    Err(p) => {
                        rep.fail(&format!("{:?}|{}|observation-panic-after:{}", entry, case.name, msg_class(&p)), ord, || "store not observable after the failed call".into(), casej);
                        continue;
                    }
                };
                if let Some((section, detail)) = first_diff(&reference, &after) {
                    rep.fail(
                        &format!("{:?}|{}|leaked:{}", entry, case.name, section),
                        ord,
                        || format!("{} via {:?} returned {} but the store changed: {} {}", case.name, entry, out.class(), section, detail),
                        casej,
                    );
                    continue;
                }
                // the corrected request behaves as if the failed attempt had never happened
                if entry == Entry::Direct {
                    let (mut fresh, _) = replay_real(hist);
                    let o1 = apply_req(&mut fresh, Entry::Direct, &case.good, &ok_before, &ok_after, &self.workdir);
                    let o2 = apply_req(&mut s, Entry::Direct, &case.good, &ok_before, &ok_after, &self.workdir);
                    if o1 != o2 || fresh.verif_dump() != s.verif_dump() {
                        rep.fail(
                            &format!("{:?}|{}|corrected-retry-differs", entry, case.name),
                            ord,
                            || format!("after the failed {} the corrected request gives {} (on the untouched state: {}) or a different store", case.name, o2.class(), o1.class()),
                            casej,
                        );
                    }
                }
            }
        }
        // duplicate resource / dataset ids
        let newest_res = m.res.iter().flatten().last().map(|x| x.id.clone()).unwrap_or_else(|| r.clone());
        for (name, op) in [
            ("duplicate-resource-id", Op::AddRes { id: r.clone(), text: "other text".into() }),
            ("duplicate-resource-id:newest", Op::AddRes { id: newest_res.clone(), text: "other text".into() }),
            ("duplicate-dataset-id", Op::AddSet { id: "s0".into() }),
        ] {
            if name == "duplicate-dataset-id" && m.set_idx("s0").is_none() {
                continue;
            }
            if name == "duplicate-resource-id:newest" && newest_res == r {
                continue;
            }
            self.probes.fetch_add(1, Ordering::Relaxed);
            let (mut s, _) = replay_real(hist);
            let out = apply_real(&mut s, &op);
            let casej = || json!({"history": history_json(hist, None), "invalid": name});
            match out {
                Outcome::Ok => {
                    // add_dataset with an existing id and identical (empty) body is documented to return the existing item
                    continue;
                }
                Outcome::Panic(p) => rep.fail(&format!("Direct|{}|panic:{}", name, p), ord, || "panicked".into(), casej),
                Outcome::Err(_) => {
                    self.errs.fetch_add(1, Ordering::Relaxed);
                    if let Ok(after) = observe_full(&s) {
                        if let Some((section, detail)) = first_diff(&before, &after) {
                            rep.fail(&format!("Direct|{}|leaked:{}", name, section), ord, || format!("{}: store changed: {} {}", name, section, detail), casej);
                        }
                    }
                }
            }
        }
    }
}

pub fn run(rep: &Reporter) -> Coverage {
    let workdir = crate::util::work_dir("w");
    std::fs::create_dir_all(&workdir).expect("workdir");
    let oracle = C14 { probes: AtomicU64::new(0), errs: AtomicU64::new(0), workdir: workdir.clone() };
    let mut cov = Coverage::default();
    let mut runs = Vec::new();
    let budget = rep.tier.pick(45.0, 1500.0);
    let mut exhaustive = true;
    // the initial state too
    let init = quick_init();
    oracle.probe_state(rep, &init, &replay_model(&init), 0);
    for mut plan in plans(rep.tier) {
        plan.depth -= 1; // every state carries ~50 probes of 3-4 replays each
        let stats = explore(rep, &oracle, &plan.init, &plan.al, plan.depth, budget);
        cov.states += stats.states;
        cov.transitions += stats.transitions;
        cov.distinct_nontrivial += stats.nontrivial_states;
        exhaustive &= stats.completed_depth == plan.depth;
        for h in &stats.sample_histories {
            if cov.samples.len() < 4 {
                cov.samples.push(json!({"history": h, "then": "every invalid request of c14::invalid_menu, directly / in the middle of a 3-element batch / from a JSON file"}));
            }
        }
        runs.push(json!({"exploration": plan.name, "depth_requested": plan.depth, "depth_completed": stats.completed_depth,
            "new_states_per_depth": stats.depth_hist, "transitions": stats.transitions}));
    }
    let _ = std::fs::remove_dir_all(&workdir);
    let probes = oracle.probes.load(Ordering::Relaxed);
    cov.exhaustive = exhaustive;
    cov.evaluations = probes;
    cov.transitions += probes;
    cov.traces_validated = cov.transitions;
    cov.extra.insert("explorations".into(), json!(runs));
    cov.extra.insert("invalid_requests_issued".into(), json!(probes));
    cov.extra.insert("invalid_requests_that_returned_err".into(), json!(oracle.errs.load(Ordering::Relaxed)));
    cov.rule = "every history of valid operations up to the depth (as C01, one level less); in every new state every invalid request of the menu (unknown resource/annotation/dataset/key/data, out-of-range / inverted / positive end-aligned offsets, no target, nested complex selector, complex selector whose second part is invalid, valid target + invalid data, invalid target + new dataset/key/data, duplicate ids, relative offset out of range) is issued directly, as the middle element of a 3-element annotate_from_iter batch and from a JSON file via annotate_from_file; oracle: if Err then the full public observation (content, known selections, segmentation, lengths, index sizes, id lookups) equals the one before, and the corrected request then yields the same store as on the untouched state; non-trivial = states with a removed and a live annotation".into();
    cov.assumptions = vec![
        "a request the library accepts (Ok) is outside this property (C04 decides which offsets must be refused)".into(),
        "for batches the reference state is the state after the valid first element (elements before the failing one may legitimately have been added)".into(),
    ];
    let _ = Tier::Quick;
    cov
}

pub fn replay(rep: &Reporter, case: &Value) {
    let hist = history_from_json(&case["history"]);
    println!("replay C14: history:");
    for o in &hist {
        println!("   {}", o.short());
    }
    println!("  invalid request: {} via {}", case["invalid"], case["entry"]);
    let workdir = crate::util::work_dir("w");
    std::fs::create_dir_all(&workdir).expect("workdir");
    let oracle = C14 { probes: AtomicU64::new(0), errs: AtomicU64::new(0), workdir: workdir.clone() };
    oracle.probe_state(rep, &hist, &replay_model(&hist), 0);
    let _ = std::fs::remove_dir_all(&workdir);
}
