//! C19 — loading untrusted serialisations never panics, aborts or hangs.
//! Exhaustive 1- (quick) and 2-deviation (thorough, small seeds) mutation space of seed documents (STAM JSON stores,
//! annotation arrays, dataset files, STAM CSV, CBOR), every mutated document loaded by the real loader in an isolated
//! worker process with an allocation cap and a wall-clock limit; plus all short strings through the small string parsers.

use crate::c01::dangling_probe;
use crate::observe::check_reverse;
use crate::ops::*;
use crate::report::{Coverage, Reporter, Tier};
use crate::util::{catch, fnv64, msg_class};
use serde_json::{json, Value};
use stam::*;
use std::io::{BufRead, BufReader, Write};
use std::process::{Child, Command, Stdio};
use std::sync::atomic::{AtomicBool, AtomicU64, AtomicUsize, Ordering};
use std::sync::mpsc;
use std::sync::Mutex;
use std::time::Duration;

// ---------------------------------------------------------------------------------------------
// counting allocator (armed only in worker processes)

pub struct CapAlloc;
static ARMED: AtomicBool = AtomicBool::new(false);
static LIVE: AtomicUsize = AtomicUsize::new(0);
const LIVE_CAP: usize = 1 << 30; // 1 GiB live heap
const REQ_CAP: usize = 256 << 20; // 256 MiB in one request

fn cap_abort(what: &str) -> ! {
    // no allocation here: write a fixed marker and abort
    let msg: &[u8] = if what == "req" { b"\nABORT alloc-cap single-request\n" } else { b"\nABORT alloc-cap live-heap\n" };
    unsafe {
        libc_write(1, msg.as_ptr(), msg.len());
    }
    std::process::abort();
}

extern "C" {
    #[link_name = "write"]
    fn libc_write(fd: i32, buf: *const u8, count: usize) -> isize;
}

unsafe impl std::alloc::GlobalAlloc for CapAlloc {
    unsafe fn alloc(&self, layout: std::alloc::Layout) -> *mut u8 {
        if ARMED.load(Ordering::Relaxed) {
            if layout.size() > REQ_CAP {
                cap_abort("req");
            }
            if LIVE.fetch_add(layout.size(), Ordering::Relaxed) + layout.size() > LIVE_CAP {
                cap_abort("live");
            }
        }
        std::alloc::System.alloc(layout)
    }
    unsafe fn dealloc(&self, ptr: *mut u8, layout: std::alloc::Layout) {
        if ARMED.load(Ordering::Relaxed) {
            LIVE.fetch_sub(layout.size(), Ordering::Relaxed);
        }
        std::alloc::System.dealloc(ptr, layout)
    }
    unsafe fn realloc(&self, ptr: *mut u8, layout: std::alloc::Layout, new_size: usize) -> *mut u8 {
        if ARMED.load(Ordering::Relaxed) {
            if new_size > REQ_CAP {
                cap_abort("req");
            }
            if new_size > layout.size() {
                if LIVE.fetch_add(new_size - layout.size(), Ordering::Relaxed) + (new_size - layout.size()) > LIVE_CAP {
                    cap_abort("live");
                }
            } else {
                LIVE.fetch_sub(layout.size() - new_size, Ordering::Relaxed);
            }
        }
        std::alloc::System.realloc(ptr, layout, new_size)
    }
}

// ---------------------------------------------------------------------------------------------
// worker side

#[derive(Clone, Copy, Debug, PartialEq, Eq)]
pub enum Loader {
    StoreJson,
    StoreCsv,
    StoreCbor,
    AnnotateFromFile,
    DatasetJson,
}

impl Loader {
    fn name(&self) -> &'static str {
        match self {
            Loader::StoreJson => "store-json",
            Loader::StoreCsv => "store-csv",
            Loader::StoreCbor => "store-cbor",
            Loader::AnnotateFromFile => "annotate-from-file",
            Loader::DatasetJson => "dataset-json",
        }
    }
    fn from_name(s: &str) -> Option<Loader> {
        [Loader::StoreJson, Loader::StoreCsv, Loader::StoreCbor, Loader::AnnotateFromFile, Loader::DatasetJson].into_iter().find(|l| l.name() == s)
    }
}

/// consistency of a store that a loader returned: C01 (reverse lookups = forward references), C02 (no dangling), C03 (ids resolve to their items)
pub fn consistency(store: &AnnotationStore) -> Option<String> {
    let r = catch(|| {
        if let Some(f) = check_reverse(store).into_iter().next() {
            return Some(format!("C01:{}:{}", f.accessor, f.symptom));
        }
        if let Some((symptom, _)) = dangling_probe(store) {
            return Some(format!("C02:{}", symptom));
        }
        for a in store.annotations() {
            if let Some(id) = a.id() {
                if store.annotation(id).map(|x| x.handle()) != Some(a.handle()) {
                    return Some("C03:annotation-id-does-not-resolve-to-itself".to_string());
                }
            }
        }
        for r in store.resources() {
            if let Some(id) = r.id() {
                if store.resource(id).map(|x| x.handle()) != Some(r.handle()) {
                    return Some("C03:resource-id-does-not-resolve-to-itself".to_string());
                }
            }
        }
        for s in store.datasets() {
            if let Some(id) = s.id() {
                if store.dataset(id).map(|x| x.handle()) != Some(s.handle()) {
                    return Some("C03:dataset-id-does-not-resolve-to-itself".to_string());
                }
            }
            for d in s.data() {
                if let Some(id) = d.id() {
                    if s.annotationdata(id).map(|x| x.handle()) != Some(d.handle()) {
                        return Some("C03:data-id-does-not-resolve-to-itself".to_string());
                    }
                }
            }
            for k in s.keys() {
                if s.key(k.as_str()).map(|x| x.handle()) != Some(k.handle()) {
                    return Some("C03:key-id-does-not-resolve-to-itself".to_string());
                }
            }
        }
        None
    });
    match r {
        Ok(x) => x,
        Err(p) => Some(format!("panic-while-observing:{}", msg_class(&p))),
    }
}

/// load one document with the real loader; verdict string: "err", "ok", "inconsistent:<what>", "panic:<class>"
fn load_one(loader: Loader, path: &str, base: &str) -> String {
    let r = catch(|| -> Result<Option<String>, String> {
        match loader {
            Loader::StoreJson | Loader::StoreCsv | Loader::StoreCbor => {
                let store = AnnotationStore::from_file(path, Config::default()).map_err(|e| format!("{}", e))?;
                Ok(consistency(&store))
            }
            Loader::DatasetJson => {
                let mut store = AnnotationStore::new(Config::default());
                store.add_dataset_from_file(path).map_err(|e| format!("{}", e))?;
                Ok(consistency(&store))
            }
            Loader::AnnotateFromFile => {
                let mut store = AnnotationStore::from_file(base, Config::default()).map_err(|e| format!("base:{}", e))?;
                let r = store.annotate_from_file(path).map(|_| ());
                // whether the batch succeeded or not, the store must stay consistent
                let c = consistency(&store);
                match (r, c) {
                    (_, Some(c)) => Ok(Some(c)),
                    (Ok(()), None) => Ok(None),
                    (Err(e), None) => Err(format!("{}", e)),
                }
            }
        }
    });
    match r {
        Ok(Ok(None)) => "ok".into(),
        Ok(Ok(Some(c))) => format!("inconsistent:{}", c),
        Ok(Err(_)) => "err".into(),
        Err(p) => format!("panic:{}", msg_class(&p)),
    }
}

/// worker main loop: one request per line `<id> <loader> <path> <base>`; one answer per line `END <id> <verdict>`
pub fn worker_main() {
    crate::util::install_quiet_panic_hook();
    ARMED.store(true, Ordering::SeqCst);
    let stdin = std::io::stdin();
    let mut out = std::io::stdout();
    for line in stdin.lock().lines() {
        let line = match line {
            Ok(l) => l,
            Err(_) => break,
        };
        let parts: Vec<&str> = line.splitn(4, ' ').collect();
        if parts.len() < 4 {
            continue;
        }
        let verdict = match Loader::from_name(parts[1]) {
            Some(l) => load_one(l, parts[2], parts[3]),
            None => "bad-request".into(),
        };
        let _ = writeln!(out, "END {} {}", parts[0], verdict);
        let _ = out.flush();
    }
}

// ---------------------------------------------------------------------------------------------
// order-preserving JSON tree (the STAM JSON loader streams documents: member order matters)

#[derive(Clone, Debug, PartialEq)]
pub enum J {
    Null,
    Bool(bool),
    Num(String),
    Str(String),
    Arr(Vec<J>),
    Obj(Vec<(String, J)>),
}

struct P<'a> {
    s: &'a [u8],
    i: usize,
}

impl<'a> P<'a> {
    fn ws(&mut self) {
        while self.i < self.s.len() && (self.s[self.i] as char).is_whitespace() {
            self.i += 1;
        }
    }
    fn val(&mut self) -> Option<J> {
        self.ws();
        match *self.s.get(self.i)? {
            b'{' => {
                self.i += 1;
                let mut m = Vec::new();
                loop {
                    self.ws();
                    if *self.s.get(self.i)? == b'}' {
                        self.i += 1;
                        return Some(J::Obj(m));
                    }
                    let k = match self.val()? {
                        J::Str(k) => k,
                        _ => return None,
                    };
                    self.ws();
                    if *self.s.get(self.i)? != b':' {
                        return None;
                    }
                    self.i += 1;
                    let v = self.val()?;
                    m.push((k, v));
                    self.ws();
                    if *self.s.get(self.i)? == b',' {
                        self.i += 1;
                    }
                }
            }
            b'[' => {
                self.i += 1;
                let mut a = Vec::new();
                loop {
                    self.ws();
                    if *self.s.get(self.i)? == b']' {
                        self.i += 1;
                        return Some(J::Arr(a));
                    }
                    a.push(self.val()?);
                    self.ws();
                    if *self.s.get(self.i)? == b',' {
                        self.i += 1;
                    }
                }
            }
            b'"' => {
                let start = self.i;
                self.i += 1;
                while self.i < self.s.len() {
                    match self.s[self.i] {
                        b'\\' => self.i += 2,
                        b'"' => {
                            self.i += 1;
                            let raw = std::str::from_utf8(&self.s[start..self.i]).ok()?;
                            return serde_json::from_str::<String>(raw).ok().map(J::Str);
                        }
                        _ => self.i += 1,
                    }
                }
                None
            }
            _ => {
                let start = self.i;
                while self.i < self.s.len() && !matches!(self.s[self.i], b',' | b'}' | b']') && !(self.s[self.i] as char).is_whitespace() {
                    self.i += 1;
                }
                let t = std::str::from_utf8(&self.s[start..self.i]).ok()?;
                Some(match t {
                    "null" => J::Null,
                    "true" => J::Bool(true),
                    "false" => J::Bool(false),
                    n => J::Num(n.to_string()),
                })
            }
        }
    }
}

impl J {
    pub fn parse(s: &str) -> Option<J> {
        let mut p = P { s: s.as_bytes(), i: 0 };
        p.val()
    }
    pub fn render(&self, out: &mut String) {
        match self {
            J::Null => out.push_str("null"),
            J::Bool(b) => out.push_str(if *b { "true" } else { "false" }),
            J::Num(n) => out.push_str(n),
            J::Str(s) => out.push_str(&serde_json::to_string(s).unwrap()),
            J::Arr(a) => {
                out.push('[');
                for (i, x) in a.iter().enumerate() {
                    if i > 0 {
                        out.push(',');
                    }
                    x.render(out);
                }
                out.push(']');
            }
            J::Obj(m) => {
                out.push('{');
                for (i, (k, v)) in m.iter().enumerate() {
                    if i > 0 {
                        out.push(',');
                    }
                    out.push_str(&serde_json::to_string(k).unwrap());
                    out.push(':');
                    v.render(out);
                }
                out.push('}');
            }
        }
    }
    pub fn to_string(&self) -> String {
        let mut s = String::new();
        self.render(&mut s);
        s
    }
    /// all node paths (pre-order): each path is a list of child indices
    fn paths(&self, cur: &mut Vec<usize>, out: &mut Vec<Vec<usize>>) {
        out.push(cur.clone());
        match self {
            J::Arr(a) => {
                for (i, x) in a.iter().enumerate() {
                    cur.push(i);
                    x.paths(cur, out);
                    cur.pop();
                }
            }
            J::Obj(m) => {
                for (i, (_, x)) in m.iter().enumerate() {
                    cur.push(i);
                    x.paths(cur, out);
                    cur.pop();
                }
            }
            _ => {}
        }
    }
    fn get_mut(&mut self, path: &[usize]) -> Option<&mut J> {
        let mut n = self;
        for i in path {
            n = match n {
                J::Arr(a) => a.get_mut(*i)?,
                J::Obj(m) => &mut m.get_mut(*i)?.1,
                _ => return None,
            };
        }
        Some(n)
    }
    fn get(&self, path: &[usize]) -> Option<&J> {
        let mut n = self;
        for i in path {
            n = match n {
                J::Arr(a) => a.get(*i)?,
                J::Obj(m) => &m.get(*i)?.1,
                _ => return None,
            };
        }
        Some(n)
    }
    /// path rendered with member names and `[]` for array positions (class for signatures)
    fn path_class(&self, path: &[usize]) -> String {
        let mut n = self;
        let mut out = String::new();
        for i in path {
            match n {
                J::Arr(a) => {
                    out.push_str("[]");
                    n = &a[*i];
                }
                J::Obj(m) => {
                    out.push('.');
                    out.push_str(&m[*i].0);
                    n = &m[*i].1;
                }
                _ => break,
            }
        }
        // the @type of the nearest enclosing object makes the class more telling
        out
    }
}

#[derive(Clone, Debug)]
pub struct Mutation {
    pub op: String,
    pub path: Vec<usize>,
}

fn retype_menu() -> Vec<(&'static str, J)> {
    vec![
        ("null", J::Null),
        ("true", J::Bool(true)),
        ("0", J::Num("0".into())),
        ("-1", J::Num("-1".into())),
        ("2^63", J::Num("9223372036854775808".into())),
        ("1e308", J::Num("1e308".into())),
        ("empty-string", J::Str(String::new())),
        ("tempid-max", J::Str("!A18446744073709551615".into())),
        ("tempid-4e9", J::Str("!A4000000000".into())),
        ("tempid-D-huge", J::Str("!D999999999".into())),
        ("tempid-A3", J::Str("!A3".into())),
        // small temporary ids next to the ones a serialisation already contains (the slots they skip stay empty; a later
        // item may carry the temporary id of such an empty slot)
        ("tempid-A1", J::Str("!A1".into())),
        ("tempid-D2", J::Str("!D2".into())),
        ("empty-array", J::Arr(vec![])),
        ("empty-object", J::Obj(vec![])),
        ("unknown-id", J::Str("nope".into())),
        ("long-multibyte", J::Str(long_multibyte_strings()[1].clone())),
    ]
}

const TYPE_NAMES: [&str; 12] = [
    "AnnotationStore", "Annotation", "TextResource", "AnnotationDataSet", "TextSelector", "AnnotationSelector", "ResourceSelector", "DataSetSelector", "DataKeySelector",
    "AnnotationDataSelector", "MultiSelector", "DirectionalSelector",
];

/// every single-step mutation of a JSON document
fn json_mutations(doc: &J, ids: &[String]) -> Vec<(Mutation, J)> {
    let mut paths = Vec::new();
    doc.paths(&mut Vec::new(), &mut paths);
    let mut out: Vec<(Mutation, J)> = Vec::new();
    for path in &paths {
        if path.is_empty() {
            for (name, v) in retype_menu() {
                out.push((Mutation { op: format!("retype:{}", name), path: path.clone() }, v));
            }
            continue;
        }
        let (parent_path, last) = (&path[..path.len() - 1], *path.last().unwrap());
        // delete
        {
            let mut d = doc.clone();
            match d.get_mut(parent_path) {
                Some(J::Arr(a)) => {
                    a.remove(last);
                }
                Some(J::Obj(m)) => {
                    m.remove(last);
                }
                _ => {}
            }
            out.push((Mutation { op: "delete".into(), path: path.clone() }, d));
        }
        // duplicate
        {
            let mut d = doc.clone();
            match d.get_mut(parent_path) {
                Some(J::Arr(a)) => {
                    let x = a[last].clone();
                    a.insert(last, x);
                }
                Some(J::Obj(m)) => {
                    let x = m[last].clone();
                    m.insert(last, x);
                }
                _ => {}
            }
            out.push((Mutation { op: "duplicate".into(), path: path.clone() }, d));
        }
        // swap with next sibling
        {
            let mut d = doc.clone();
            let mut did = false;
            match d.get_mut(parent_path) {
                Some(J::Arr(a)) => {
                    if last + 1 < a.len() {
                        a.swap(last, last + 1);
                        did = true;
                    }
                }
                Some(J::Obj(m)) => {
                    if last + 1 < m.len() {
                        m.swap(last, last + 1);
                        did = true;
                    }
                }
                _ => {}
            }
            if did {
                out.push((Mutation { op: "swap-with-next".into(), path: path.clone() }, d));
            }
        }
        // numbers: every small integer (cursor values just inside / outside a selection, signs)
        if let Some(J::Num(cur)) = doc.get(path) {
            for k in -8i64..=8 {
                let v = J::Num(k.to_string());
                if *cur == k.to_string() {
                    continue;
                }
                let mut d = doc.clone();
                if let Some(n) = d.get_mut(path) {
                    *n = v;
                }
                out.push((Mutation { op: "number:=small".into(), path: path.clone() }, d));
            }
        }
        // retype
        for (name, v) in retype_menu() {
            if doc.get(path) == Some(&v) {
                continue;
            }
            let mut d = doc.clone();
            if let Some(n) = d.get_mut(path) {
                *n = v;
            }
            out.push((Mutation { op: format!("retype:{}", name), path: path.clone() }, d));
        }
        // string-specific: rename @type, redirect references
        if let Some(J::Str(s)) = doc.get(path) {
            let key = match doc.get(parent_path) {
                Some(J::Obj(m)) => m[last].0.clone(),
                _ => String::new(),
            };
            if key == "@type" {
                for t in TYPE_NAMES {
                    if t != s {
                        let mut d = doc.clone();
                        *d.get_mut(path).unwrap() = J::Str(t.to_string());
                        out.push((Mutation { op: format!("retype-to:{}", t), path: path.clone() }, d));
                    }
                }
            } else if key != "text" && key != "value" {
                for id in ids {
                    if id != s {
                        let mut d = doc.clone();
                        *d.get_mut(path).unwrap() = J::Str(id.clone());
                        out.push((Mutation { op: "redirect-reference".into(), path: path.clone() }, d));
                    }
                }
            }
        }
        // wrap a selector in itself
        if let Some(J::Obj(m)) = doc.get(path) {
            if m.iter().any(|(k, v)| k == "@type" && matches!(v, J::Str(t) if t.ends_with("Selector"))) {
                let inner = doc.get(path).unwrap().clone();
                let mut d = doc.clone();
                *d.get_mut(path).unwrap() = J::Obj(vec![("@type".into(), J::Str("CompositeSelector".into())), ("selectors".into(), J::Arr(vec![inner.clone(), inner]))]);
                out.push((Mutation { op: "wrap-selector-in-complex".into(), path: path.clone() }, d));
            }
        }
    }
    out
}

// ---------------------------------------------------------------------------------------------
// seeds

pub struct Seed {
    pub name: String,
    pub loader: Loader,
    /// main document bytes
    pub doc: Vec<u8>,
    /// auxiliary files that must exist next to the document (name, content)
    pub aux: Vec<(String, Vec<u8>)>,
    /// file name of the main document
    pub filename: String,
}

fn seed_histories() -> Vec<(&'static str, Vec<Op>)> {
    let t = |b, e| TSimple::Text { res: "r0".into(), off: Off::simple(b, e) };
    let d = |k: &str, v: &str, id: Option<&str>| DataT::New { set: "s0".into(), key: k.into(), val: Val::S(v.into()), id: id.map(|s| s.to_string()) };
    let ann = |id: Option<&str>, target: Target, data: Vec<DataT>| Op::Annotate { id: id.map(|s| s.to_string()), target, data };
    let base = vec![Op::AddRes { id: "r0".into(), text: "a\u{e9} \u{1d11e}d".into() }, Op::AddSet { id: "s0".into() }];
    let mut v = Vec::new();
    let mut h = base.clone();
    h.push(ann(Some("a0"), Target::simple(t(0, 3)), vec![d("k0", "v", Some("D0"))]));
    h.push(ann(Some("a1"), Target::simple(TSimple::Text { res: "r0".into(), off: Off { b: Cur::E(-2), e: Cur::E(0) } }), vec![d("k1", "w", None)]));
    v.push(("text", h.clone()));
    let mut h2 = h.clone();
    h2.push(ann(Some("a2"), Target::simple(TSimple::Ann { ann: "a0".into(), off: Some(Off::simple(0, 1)) }), vec![]));
    h2.push(ann(None, Target::simple(TSimple::Ann { ann: "a1".into(), off: None }), vec![DataT::Existing { set: "s0".into(), id: "D0".into() }]));
    h2.push(Op::RemoveAnn("a1".into()));
    v.push(("annotation-selectors-gaps-tempids", h2));
    let mut h3 = h.clone();
    h3.push(ann(Some("m0"), Target::simple(TSimple::Res("r0".into())), vec![d("k0", "v", None)]));
    h3.push(ann(Some("m1"), Target::simple(TSimple::Set("s0".into())), vec![]));
    h3.push(ann(Some("m2"), Target::simple(TSimple::Key("s0".into(), "k0".into())), vec![]));
    h3.push(ann(Some("m3"), Target::simple(TSimple::Data("s0".into(), DRef::Id("D0".into()))), vec![]));
    v.push(("metadata-selectors", h3));
    let mut h4 = h.clone();
    h4.push(ann(Some("c0"), Target { kind: TKind::Multi, parts: vec![t(0, 1), t(1, 2), t(3, 5)] }, vec![]));
    h4.push(ann(Some("c1"), Target { kind: TKind::Directional, parts: vec![TSimple::Ann { ann: "a1".into(), off: Some(Off::whole()) }, TSimple::Ann { ann: "a0".into(), off: Some(Off::whole()) }] }, vec![]));
    h4.push(ann(Some("c2"), Target { kind: TKind::Composite, parts: vec![TSimple::Ann { ann: "a0".into(), off: None }, TSimple::Ann { ann: "a1".into(), off: None }] }, vec![]));
    v.push(("complex-selectors", h4));
    // complex selectors whose parts point at keys and data (the CSV columns TargetKey and TargetData hold one entry per part)
    let mut h5 = base.clone();
    h5.push(ann(Some("a0"), Target::simple(t(0, 3)), vec![d("k0", "v", Some("D0")), d("k1", "w", Some("D1"))]));
    h5.push(ann(Some("k0"), Target { kind: TKind::Directional, parts: vec![TSimple::Key("s0".into(), "k0".into()), TSimple::Key("s0".into(), "k1".into())] }, vec![]));
    h5.push(ann(Some("k1"), Target { kind: TKind::Composite, parts: vec![TSimple::Data("s0".into(), DRef::Id("D0".into())), TSimple::Data("s0".into(), DRef::Id("D1".into()))] }, vec![]));
    v.push(("complex-metadata-selectors", h5));
    v
}

fn build_seeds(dir: &str, tier: Tier) -> Vec<Seed> {
    let mut seeds = Vec::new();
    let cfgc = Config::default().with_dataformat(DataFormat::Json { compact: true });
    for (name, hist) in seed_histories() {
        let (mut store, outs) = replay_real(&hist);
        assert!(outs.iter().all(|o| o.is_ok()), "seed history {} must build: {:?}", name, outs);
        // JSON store
        let json = store.to_json_string(&cfgc).expect("seed json");
        seeds.push(Seed { name: format!("json:{}", name), loader: Loader::StoreJson, doc: json.clone().into_bytes(), aux: vec![], filename: "doc.store.stam.json".into() });
        // the same store with every data reference of an annotation replaced by the full definition (id, set, key, value): the
        // form hand-written and generated documents use; the dataset still lists its data
        if name == "text" {
            if let Some(J::Obj(m)) = J::parse(&json) {
                let mut defs: Vec<(String, String, J, J)> = Vec::new(); // (set, id, key, value)
                if let Some((_, J::Arr(sets))) = m.iter().find(|(k, _)| k == "annotationsets") {
                    for set in sets {
                        if let J::Obj(sm) = set {
                            let sid = sm.iter().find(|(k, _)| k == "@id").and_then(|(_, v)| if let J::Str(x) = v { Some(x.clone()) } else { None }).unwrap_or_default();
                            if let Some((_, J::Arr(data))) = sm.iter().find(|(k, _)| k == "data") {
                                for d in data {
                                    if let J::Obj(dm) = d {
                                        let get = |f: &str| dm.iter().find(|(k, _)| k == f).map(|(_, v)| v.clone());
                                        if let (Some(J::Str(id)), Some(key), Some(value)) = (get("@id"), get("key"), get("value")) {
                                            defs.push((sid.clone(), id, key, value));
                                        }
                                    }
                                }
                            }
                        }
                    }
                }
                let mut m2 = m.clone();
                if let Some((_, J::Arr(anns))) = m2.iter_mut().find(|(k, _)| k == "annotations") {
                    for a in anns.iter_mut() {
                        if let J::Obj(am) = a {
                            if let Some((_, J::Arr(refs))) = am.iter_mut().find(|(k, _)| k == "data") {
                                for r in refs.iter_mut() {
                                    if let J::Obj(rm) = r {
                                        let get = |f: &str| rm.iter().find(|(k, _)| k == f).and_then(|(_, v)| if let J::Str(x) = v { Some(x.clone()) } else { None });
                                        if let (Some(id), Some(set)) = (get("@id"), get("set")) {
                                            if let Some(def) = defs.iter().find(|d| d.0 == set && d.1 == id) {
                                                rm.push(("key".to_string(), def.2.clone()));
                                                rm.push(("value".to_string(), def.3.clone()));
                                            }
                                        }
                                    }
                                }
                            }
                        }
                    }
                }
                seeds.push(Seed { name: format!("json:{}+inline-data", name), loader: Loader::StoreJson, doc: J::Obj(m2).to_string().into_bytes(), aux: vec![], filename: "doc.store.stam.json".into() });
            }
        }
        // annotation array for annotate_from_file (base store = resources + datasets only)
        if name == "annotation-selectors-gaps-tempids" || name == "complex-selectors" {
            if let Some(J::Obj(m)) = J::parse(&json) {
                let anns = m.iter().find(|(k, _)| k == "annotations").map(|(_, v)| v.clone()).unwrap_or(J::Arr(vec![]));
                let basedoc = J::Obj(m.iter().filter(|(k, _)| k != "annotations").cloned().chain(std::iter::once(("annotations".to_string(), J::Arr(vec![])))).collect());
                seeds.push(Seed {
                    name: format!("annotations:{}", name),
                    loader: Loader::AnnotateFromFile,
                    doc: anns.to_string().into_bytes(),
                    aux: vec![("base.store.stam.json".into(), basedoc.to_string().into_bytes())],
                    filename: "doc.annotations.json".into(),
                });
            }
        }
        // dataset file
        if name == "text" || name == "metadata-selectors" {
            if let Some(J::Obj(m)) = J::parse(&json) {
                if let Some((_, J::Arr(sets))) = m.iter().find(|(k, _)| k == "annotationsets") {
                    if let Some(set) = sets.first() {
                        seeds.push(Seed { name: format!("dataset:{}", name), loader: Loader::DatasetJson, doc: set.to_string().into_bytes(), aux: vec![], filename: "doc.annotationset.stam.json".into() });
                    }
                }
            }
        }
        // CSV triple and CBOR
        if name != "metadata-selectors" || tier == Tier::Thorough {
            let d = format!("{}/seed-{}", dir, name);
            let _ = std::fs::create_dir_all(&d);
            if store.to_file(&format!("{}/doc.store.stam.csv", d)).is_ok() {
                let mut aux = Vec::new();
                let mut main = Vec::new();
                for e in std::fs::read_dir(&d).unwrap().flatten() {
                    let fname = e.file_name().to_string_lossy().to_string();
                    let content = std::fs::read(e.path()).unwrap_or_default();
                    if fname == "doc.store.stam.csv" {
                        main = content;
                    } else {
                        aux.push((fname, content));
                    }
                }
                // each CSV file of the triple is mutated in turn
                let mut files = vec![("doc.store.stam.csv".to_string(), main.clone())];
                files.extend(aux.iter().filter(|(n, _)| n.ends_with(".csv")).cloned());
                for (fname, content) in &files {
                    let mut others: Vec<(String, Vec<u8>)> = vec![("doc.store.stam.csv".to_string(), main.clone())];
                    others.extend(aux.iter().cloned());
                    others.retain(|(n, _)| n != fname);
                    seeds.push(Seed { name: format!("csv:{}:{}", name, fname.replace("doc.", "")), loader: Loader::StoreCsv, doc: content.clone(), aux: others, filename: fname.clone() });
                }
            }
            let _ = std::fs::remove_dir_all(&d);
        }
        let (mut store2, _) = replay_real(&hist);
        let d = format!("{}/seedc-{}", dir, name);
        let _ = std::fs::create_dir_all(&d);
        if store2.to_file(&format!("{}/doc.store.stam.cbor", d)).is_ok() {
            if let Ok(bytes) = std::fs::read(format!("{}/doc.store.stam.cbor", d)) {
                if name == "text" || name == "annotation-selectors-gaps-tempids" || tier == Tier::Thorough {
                    seeds.push(Seed { name: format!("cbor:{}", name), loader: Loader::StoreCbor, doc: bytes, aux: vec![], filename: "doc.store.stam.cbor".into() });
                }
            }
        }
        let _ = std::fs::remove_dir_all(&d);
    }
    // cyclic / dangling store-level @include references (hand-written: the writer never produces them)
    let inc = |name: &str, include: &str| -> Vec<u8> {
        format!("{{\"@type\":\"AnnotationStore\",\"@id\":\"{}\",\"@include\":\"{}\",\"resources\":[],\"annotationsets\":[],\"annotations\":[]}}", name, include).into_bytes()
    };
    seeds.push(Seed { name: "include:self".into(), loader: Loader::StoreJson, doc: inc("a", "doc.store.stam.json"), aux: vec![], filename: "doc.store.stam.json".into() });
    seeds.push(Seed {
        name: "include:mutual".into(),
        loader: Loader::StoreJson,
        doc: inc("a", "b.store.stam.json"),
        aux: vec![("b.store.stam.json".into(), inc("b", "doc.store.stam.json"))],
        filename: "doc.store.stam.json".into(),
    });
    seeds.push(Seed {
        name: "include:deep-cycle".into(),
        loader: Loader::StoreJson,
        doc: inc("a", "b.store.stam.json"),
        aux: vec![("b.store.stam.json".into(), inc("b", "c.store.stam.json")), ("c.store.stam.json".into(), inc("c", "b.store.stam.json"))],
        filename: "doc.store.stam.json".into(),
    });
    seeds.push(Seed { name: "include:dangling".into(), loader: Loader::StoreJson, doc: inc("a", "missing.store.stam.json"), aux: vec![], filename: "doc.store.stam.json".into() });
    // a root document and a sub-store that both carry an inline copy of the same dataset / resource, edited independently:
    // every way the sub-store's copy can differ x whether the root reads its own copy before or after the include
    let dataset = |keys: &[&str], data: &[(&str, &str, &str)]| -> String {
        let ks: Vec<String> = keys.iter().map(|k| format!("{{\"@type\":\"DataKey\",\"@id\":\"{}\"}}", k)).collect();
        let ds: Vec<String> = data.iter().map(|(id, k, v)| format!("{{\"@type\":\"AnnotationData\",\"@id\":\"{}\",\"key\":\"{}\",\"value\":{{\"@type\":\"String\",\"value\":\"{}\"}}}}", id, k, v)).collect();
        format!("{{\"@type\":\"AnnotationDataSet\",\"@id\":\"S\",\"keys\":[{}],\"data\":[{}]}}", ks.join(","), ds.join(","))
    };
    let ann = |id: &str, b: usize, e: usize, data: &str| -> String {
        format!(
            "{{\"@type\":\"Annotation\",\"@id\":\"{}\",\"target\":{{\"@type\":\"TextSelector\",\"resource\":\"r\",\"offset\":{{\"@type\":\"Offset\",\"begin\":{{\"@type\":\"BeginAlignedCursor\",\"value\":{}}},\"end\":{{\"@type\":\"BeginAlignedCursor\",\"value\":{}}}}}}},\"data\":[{{\"@type\":\"AnnotationData\",\"@id\":\"{}\",\"set\":\"S\"}}]}}",
            id, b, e, data
        )
    };
    let resource = |text: &str| format!("{{\"@type\":\"TextResource\",\"@id\":\"r\",\"text\":\"{}\"}}", text);
    let root_set = dataset(&["k0", "k1"], &[("D0", "k0", "v"), ("D1", "k1", "w")]);
    let sub_sets: Vec<(&str, String)> = vec![
        ("same", root_set.clone()),
        ("key-appended", dataset(&["k0", "k1", "k2"], &[("D0", "k0", "v"), ("D1", "k1", "w"), ("D2", "k2", "x")])),
        ("key-replaced", dataset(&["k0", "k2"], &[("D0", "k0", "v"), ("D2", "k2", "x")])),
        ("key-dropped", dataset(&["k1"], &[("D1", "k1", "w")])),
        ("keys-reordered", dataset(&["k1", "k0"], &[("D1", "k1", "w"), ("D0", "k0", "v")])),
        ("new-key-first", dataset(&["k2", "k0", "k1"], &[("D2", "k2", "x"), ("D0", "k0", "v")])),
        ("data-id-other-value", dataset(&["k0", "k1"], &[("D0", "k0", "OTHER"), ("D1", "k1", "w")])),
        ("data-id-other-key", dataset(&["k0", "k1"], &[("D0", "k1", "v")])),
    ];
    for (variant, sub_set) in &sub_sets {
        for (rname, sub_res) in [("res-absent", String::new()), ("res-same", resource("a\u{e9} \u{1d11e}d")), ("res-other-text", resource("other"))] {
            for root_first in [true, false] {
                let sub = format!("{{\"@type\":\"AnnotationStore\",\"@id\":\"sub\",\"resources\":[{}],\"annotationsets\":[{}],\"annotations\":[{}]}}", sub_res, sub_set, ann("A1", 3, 5, if sub_set.contains("\"D0\"") { "D0" } else { "D1" }));
                let own = format!("\"resources\":[{}],\"annotationsets\":[{}]", resource("a\u{e9} \u{1d11e}d"), root_set);
                let include = "\"@include\":\"sub.store.stam.json\"";
                let root = if root_first {
                    format!("{{\"@type\":\"AnnotationStore\",\"@id\":\"root\",{},{},\"annotations\":[{}]}}", own, include, ann("A0", 0, 3, "D0"))
                } else {
                    format!("{{\"@type\":\"AnnotationStore\",\"@id\":\"root\",{},{},\"annotations\":[{}]}}", include, own, ann("A0", 0, 3, "D0"))
                };
                seeds.push(Seed {
                    name: format!("include:overlap:{}|{}|{}", variant, rname, if root_first { "root-copy-first" } else { "include-first" }),
                    loader: Loader::StoreJson,
                    doc: root.into_bytes(),
                    aux: vec![("sub.store.stam.json".into(), sub.into_bytes())],
                    filename: "doc.store.stam.json".into(),
                });
            }
        }
    }
    seeds
}

// ---------------------------------------------------------------------------------------------
// documents to load

pub struct Doc {
    pub seed: usize,
    pub op: String,
    pub class: String,
    pub bytes: Vec<u8>,
    pub deviations: usize,
    /// two deviations: the second deviation alone (operator, path class) and the position of the document with only the first
    pub second: Option<(String, String)>,
    pub parent: Option<usize>,
}

/// Long strings of multi-byte characters, shifted by 0..width ASCII letters: every byte offset below 40 falls inside a
/// character in at least one of them (for code that cuts or indexes input strings at byte positions).
pub fn long_multibyte_strings() -> Vec<String> {
    let mut v = Vec::new();
    for (ch, w) in [('\u{e9}', 2usize), ('\u{20ac}', 3), ('\u{1d11e}', 4)] {
        for k in 0..w {
            v.push(format!("{}{}", "a".repeat(k), ch.to_string().repeat(14)));
        }
    }
    v
}

fn csv_mutations(content: &[u8]) -> Vec<(String, String, Vec<u8>)> {
    let text = String::from_utf8_lossy(content).to_string();
    let rows: Vec<Vec<String>> = text.lines().map(|l| l.split(',').map(|c| c.to_string()).collect()).collect();
    let render = |rows: &Vec<Vec<String>>| -> Vec<u8> { (rows.iter().map(|r| r.join(",")).collect::<Vec<_>>().join("\n") + "\n").into_bytes() };
    let header: Vec<String> = rows.first().cloned().unwrap_or_default();
    let longs = long_multibyte_strings();
    let mut menu = vec!["", "nope", "!A4000000000", "!D999999999", "-1", "99999999999999999999", "0", "-0", "TextSelector", "MultiSelector;TextSelector", "AnnotationDataSelector", ";", "a;b;c", "\"", "-9223372036854775808"];
    // shifted by one letter, one per character width (a shifted row puts free text into any column)
    menu.extend([longs[1].as_str(), longs[3].as_str(), longs[6].as_str()]);
    // every name the library itself uses for a kind of selector (also the internal one it writes for compressed sub-selectors)
    menu.extend(["ResourceSelector", "AnnotationSelector", "DataSetSelector", "MultiSelector", "CompositeSelector", "DirectionalSelector", "InternalRangedSelector", "DataKeySelector", "internalrangedselector"]);
    let mut out = Vec::new();
    for (ri, row) in rows.iter().enumerate() {
        for (ci, _) in row.iter().enumerate() {
            let col = header.get(ci).cloned().unwrap_or_else(|| format!("col{}", ci));
            let rowclass = if ri == 0 { "header" } else { "row" };
            for m in menu.iter().copied() {
                if rows[ri][ci] == m {
                    continue;
                }
                let mut r = rows.clone();
                r[ri][ci] = m.to_string();
                let mname = if m.is_empty() { "<empty>".to_string() } else if m.len() > 24 { format!("long-multibyte-w{}", m.chars().last().map(|c| c.len_utf8()).unwrap_or(0)) } else { m.to_string() };
                out.push((format!("cell:={}", mname), format!("{}.{}", rowclass, col), render(&r)));
            }
        }
        let mut r = rows.clone();
        r.remove(ri);
        out.push(("row-delete".into(), if ri == 0 { "header".into() } else { "row".into() }, render(&r)));
        let mut r = rows.clone();
        let dup = r[ri].clone();
        r.insert(ri, dup);
        out.push(("row-duplicate".into(), if ri == 0 { "header".into() } else { "row".into() }, render(&r)));
    }
    for ci in 0..header.len() {
        let mut r = rows.clone();
        for row in r.iter_mut() {
            if ci < row.len() {
                row.remove(ci);
            }
        }
        out.push(("column-drop".into(), header[ci].clone(), render(&r)));
    }
    out
}

fn cbor_mutations(content: &[u8]) -> Vec<(String, String, Vec<u8>)> {
    let mut out = Vec::new();
    let region = |i: usize| -> String {
        // coarse position class: tenth of the file
        format!("tenth{}", i * 10 / content.len().max(1))
    };
    for n in 0..content.len() {
        out.push(("truncate".into(), region(n), content[..n].to_vec()));
    }
    for i in 0..content.len() {
        for bit in 0..8 {
            let mut c = content.to_vec();
            c[i] ^= 1 << bit;
            out.push((format!("bitflip{}", bit), region(i), c));
        }
        for v in [0x00u8, 0x1b, 0x5b, 0x9b, 0xff] {
            if content[i] != v {
                let mut c = content.to_vec();
                c[i] = v;
                out.push((format!("byte:={:#04x}", v), region(i), c));
            }
        }
    }
    out
}

fn docs_for_seed(si: usize, seed: &Seed, two: bool) -> Vec<Doc> {
    let mut docs = vec![Doc { seed: si, op: "none".into(), class: "unchanged".into(), bytes: seed.doc.clone(), deviations: 0, second: None, parent: None }];
    if seed.name.starts_with("include:") {
        if let Some(variant) = seed.name.strip_prefix("include:overlap:") {
            docs[0].class = variant.to_string();
        }
        return docs;
    }
    match seed.loader {
        Loader::StoreJson | Loader::AnnotateFromFile | Loader::DatasetJson => {
            let text = String::from_utf8_lossy(&seed.doc).to_string();
            if let Some(j) = J::parse(&text) {
                let ids: Vec<String> = vec!["a0".into(), "a1".into(), "r0".into(), "s0".into(), "D0".into(), "k0".into(), "!A0".into(), "!A1".into(), "!D1".into()];
                let first = json_mutations(&j, &ids);
                let first_at = docs.len();
                for (m, d) in &first {
                    docs.push(Doc { seed: si, op: m.op.clone(), class: j.path_class(&m.path), bytes: d.to_string().into_bytes(), deviations: 1, second: None, parent: None });
                }
                if two {
                    // second deviation: structural operators only (delete / duplicate / swap / a small retype menu), applied to every first-level mutant
                    for (k1, (m1, d1)) in first.iter().enumerate() {
                        if !(m1.op == "delete" || m1.op == "duplicate" || m1.op.starts_with("retype:tempid") || m1.op == "redirect-reference") {
                            continue;
                        }
                        for (m2, d2) in json_mutations(d1, &ids) {
                            if m2.op == "delete" || m2.op == "swap-with-next" || m2.op.starts_with("retype:tempid") || m2.op == "redirect-reference" || m2.op == "retype:null" {
                                docs.push(Doc { seed: si, op: format!("{}+{}", m1.op, m2.op), class: format!("{}+{}", j.path_class(&m1.path), d1.path_class(&m2.path)), bytes: d2.to_string().into_bytes(), deviations: 2, second: Some((m2.op.clone(), d1.path_class(&m2.path))), parent: Some(first_at + k1) });
                            }
                        }
                    }
                }
            }
        }
        Loader::StoreCsv => {
            for (op, class, bytes) in csv_mutations(&seed.doc) {
                docs.push(Doc { seed: si, op, class, bytes, deviations: 1, second: None, parent: None });
            }
        }
        Loader::StoreCbor => {
            for (op, class, bytes) in cbor_mutations(&seed.doc) {
                docs.push(Doc { seed: si, op, class, bytes, deviations: 1, second: None, parent: None });
            }
        }
    }
    docs
}

// ---------------------------------------------------------------------------------------------
// parent side: worker pool

struct Worker {
    child: Child,
    rx: mpsc::Receiver<String>,
}

fn spawn_worker() -> Worker {
    let exe = std::env::current_exe().expect("current exe");
    let mut child = Command::new(exe).arg("worker").stdin(Stdio::piped()).stdout(Stdio::piped()).stderr(Stdio::null()).spawn().expect("spawn worker");
    let stdout = child.stdout.take().unwrap();
    let (tx, rx) = mpsc::channel();
    std::thread::spawn(move || {
        let reader = BufReader::new(stdout);
        for line in reader.lines() {
            match line {
                Ok(l) => {
                    if tx.send(l).is_err() {
                        break;
                    }
                }
                Err(_) => break,
            }
        }
    });
    Worker { child, rx }
}

/// send one request, wait for the verdict; restarts the worker when it dies or exceeds the time limit
fn ask(w: &mut Worker, id: u64, loader: Loader, path: &str, base: &str, limit: Duration) -> String {
    let req = format!("{} {} {} {}\n", id, loader.name(), path, base);
    let ok = w.child.stdin.as_mut().map(|s| s.write_all(req.as_bytes()).and_then(|_| s.flush()).is_ok()).unwrap_or(false);
    if !ok {
        *w = spawn_worker();
        return "worker-lost-before-request".into();
    }
    let mut alloc_marker = false;
    loop {
        match w.rx.recv_timeout(limit) {
            Ok(line) => {
                if line.starts_with("ABORT alloc-cap") {
                    alloc_marker = true;
                    continue;
                }
                if let Some(rest) = line.strip_prefix(&format!("END {} ", id)) {
                    return rest.to_string();
                }
                // stray output of the library on stdout: ignore
            }
            Err(mpsc::RecvTimeoutError::Timeout) => {
                let _ = w.child.kill();
                let _ = w.child.wait();
                *w = spawn_worker();
                return "timeout".into();
            }
            Err(mpsc::RecvTimeoutError::Disconnected) => {
                let status = w.child.wait().ok();
                *w = spawn_worker();
                if alloc_marker {
                    return "alloc-cap".into();
                }
                return format!("abort:{}", status.map(|s| format!("{}", s)).unwrap_or_default());
            }
        }
    }
}

// ---------------------------------------------------------------------------------------------

fn string_parsers(rep: &Reporter) -> u64 {
    let syms = ['0', '9', '-', '+', 'a', 'T', 'A', 'j', 's', 'o', 'n', '\u{e9}', ' ', '.'];
    let mut strings: Vec<String> = vec![String::new()];
    let mut level = vec![String::new()];
    for _ in 0..3 {
        let mut next = Vec::new();
        for s in &level {
            for c in syms {
                next.push(format!("{}{}", s, c));
            }
        }
        strings.extend(next.iter().cloned());
        level = next;
    }
    for s in ["-9223372036854775808", "-9223372036854775809", "18446744073709551616", "99999999999999999999", "-0", "TextSelector", "annotationstore", "json", "csv", "cbor"] {
        strings.push(s.to_string());
    }
    strings.extend(long_multibyte_strings());
    strings.push("x".repeat(100));
    strings.push("7".repeat(100));
    let mut n = 0;
    for s in &strings {
        let class = crate::c03::str_class(s);
        let mut one = |name: &str, r: Result<(), String>| {
            n += 1;
            if let Err(p) = r {
                rep.fail(&format!("string-parser|{}|panic:{}|str={}", name, msg_class(&p), class), s.len() as u64, || format!("{}({:?}) panicked", name, s), || json!({"parser": name, "string": s}));
            }
        };
        one("Cursor", catch(|| {
            let _ = Cursor::try_from(s.as_str());
        }));
        one("Type", catch(|| {
            let _ = Type::try_from(s.as_str());
        }));
        one("DataFormat", catch(|| {
            let _ = DataFormat::try_from(s.as_str());
        }));
        one("SelectorKind", catch(|| {
            let _ = SelectorKind::try_from(s.as_str());
        }));
        one("Offset-json", catch(|| {
            let doc = format!("{{\"@type\":\"Offset\",\"begin\":{{\"@type\":\"BeginAlignedCursor\",\"value\":{}}},\"end\":{{\"@type\":\"EndAlignedCursor\",\"value\":{}}}}}", s, s);
            let _ = serde_json::from_str::<Offset>(&doc);
        }));
    }
    n
}

/// Failure class of a document: loader | seed class | deviation | path class | verdict.
fn doc_signature(loader: Loader, seedname: &str, op: &str, class: &str, second: Option<&(String, String)>, symptom: &str) -> String {
    let seedclass = seedname.split(':').next().unwrap_or("");
    if loader == Loader::StoreCbor {
        // binary input: neither the bit nor the position within the file is part of the failure class (the position
        // moves with every path embedded in the file); both are in the detail and in the replay file
        let kind = if op.starts_with("bitflip") { "bitflip" } else if op.starts_with("byte:=") { "byte-set" } else { op };
        format!("{}|{}|{}|{}", loader.name(), seedclass, kind, symptom)
    } else if let Some((op2, class2)) = second {
        // judged as a failure of the second deviation (same class as when that deviation is the only one)
        format!("{}|{}|{}|{}|{}", loader.name(), seedclass, op2, class2, symptom)
    } else {
        format!("{}|{}|{}|{}|{}", loader.name(), seedclass, op, class, symptom)
    }
}

pub fn run(rep: &Reporter) -> Coverage {
    let dir = crate::util::work_dir("c19");
    let _ = std::fs::remove_dir_all(&dir);
    std::fs::create_dir_all(&dir).expect("workdir");
    let seeds = build_seeds(&dir, rep.tier);
    // documents
    let mut docs: Vec<Doc> = Vec::new();
    let mut smallest: Vec<(usize, usize)> = seeds.iter().enumerate().filter(|(_, s)| matches!(s.loader, Loader::StoreJson | Loader::AnnotateFromFile) && !s.name.starts_with("include:")).map(|(i, s)| (s.doc.len(), i)).collect();
    smallest.sort();
    // two deviations: quick on the smallest JSON seed, thorough on every JSON seed
    let two_dev: Vec<usize> = smallest.iter().take(rep.tier.pick(1, usize::MAX)).map(|x| x.1).collect();
    for (si, seed) in seeds.iter().enumerate() {
        let at = docs.len();
        let mut more = docs_for_seed(si, seed, two_dev.contains(&si));
        for d in more.iter_mut() {
            d.parent = d.parent.map(|p| p + at);
        }
        docs.extend(more);
    }
    let ndocs = docs.len();
    // verdict of every document with at most one deviation (two-deviation documents are judged against their parent)
    let first_verdicts: Vec<std::sync::OnceLock<String>> = (0..ndocs).map(|_| std::sync::OnceLock::new()).collect();
    let explained = AtomicU64::new(0);
    // worker pool
    let nworkers = 16usize;
    let (phase2, phase1): (Vec<(usize, Doc)>, Vec<(usize, Doc)>) = docs.into_iter().enumerate().partition(|(_, d)| d.deviations >= 2);
    let queues = [Mutex::new(phase1), Mutex::new(phase2)];
    let barrier = std::sync::Barrier::new(nworkers);
    let verdict_counts: Mutex<std::collections::BTreeMap<String, u64>> = Mutex::new(Default::default());
    let done = AtomicU64::new(0);
    let limit = Duration::from_secs(5);
    std::thread::scope(|scope| {
        for wi in 0..nworkers {
            let queues = &queues;
            let barrier = &barrier;
            let first_verdicts = &first_verdicts;
            let explained = &explained;
            let seeds = &seeds;
            let dir = &dir;
            let verdict_counts = &verdict_counts;
            let done = &done;
            scope.spawn(move || {
                let mut w = spawn_worker();
                let wdir = format!("{}/w{}", dir, wi);
                for phase in 0..2 {
                if phase == 1 {
                    barrier.wait();
                }
                loop {
                    let item = queues[phase].lock().unwrap().pop();
                    let (idx, doc) = match item {
                        Some(x) => x,
                        None => break,
                    };
                    let seed = &seeds[doc.seed];
                    let _ = std::fs::remove_dir_all(&wdir);
                    std::fs::create_dir_all(&wdir).unwrap();
                    for (n, c) in &seed.aux {
                        std::fs::write(format!("{}/{}", wdir, n), c).unwrap();
                    }
                    let path = format!("{}/{}", wdir, seed.filename);
                    std::fs::write(&path, &doc.bytes).unwrap();
                    // for CSV the entry point is always the store file
                    let entry = if seed.loader == Loader::StoreCsv { format!("{}/doc.store.stam.csv", wdir) } else { path.clone() };
                    let base = format!("{}/base.store.stam.json", wdir);
                    let verdict = ask(&mut w, idx as u64, seed.loader, &entry, &base, limit);
                    done.fetch_add(1, Ordering::Relaxed);
                    let vclass = verdict.split(':').next().unwrap_or("").to_string();
                    *verdict_counts.lock().unwrap().entry(vclass.clone()).or_insert(0) += 1;
                    let bad = !(verdict == "ok" || verdict == "err");
                    if doc.deviations < 2 {
                        let _ = first_verdicts[idx].set(verdict.clone());
                    } else if bad && doc.parent.and_then(|p| first_verdicts[p].get()) == Some(&verdict) {
                        // the first deviation alone already gives this verdict: reported there
                        explained.fetch_add(1, Ordering::Relaxed);
                        continue;
                    }
                    // the unchanged seed must load
                    let seed_broken = doc.deviations == 0 && verdict != "ok" && !seed.name.starts_with("include:");
                    if bad || seed_broken {
                        let symptom = if seed_broken && !bad { "unchanged-seed-rejected".to_string() } else { verdict.clone() };
                        let sig = doc_signature(seed.loader, &seed.name, &doc.op, &doc.class, doc.second.as_ref(), &symptom);
                        let preview: String = if seed.loader == Loader::StoreCbor {
                            format!("<{} bytes of CBOR, see document_hex in the replay file>", doc.bytes.len())
                        } else {
                            String::from_utf8_lossy(&doc.bytes).chars().map(|c| if c.is_control() { ' ' } else { c }).take(700).collect()
                        };
                        rep.fail(
                            &sig,
                            (doc.deviations as u64) << 40 | doc.bytes.len() as u64,
                            || format!("seed {} mutation {} at {}: loader verdict {} -- document: {}", seed.name, doc.op, doc.class, verdict, preview),
                            || {
                                json!({"loader": seed.loader.name(), "seed": seed.name, "mutation": doc.op, "path": doc.class,
                                    "second": doc.second.as_ref().map(|(o, c)| json!([o, c])),
                                    "document_hex": doc.bytes.iter().map(|b| format!("{:02x}", b)).collect::<String>(),
                                    "filename": seed.filename,
                                    "aux": seed.aux.iter().map(|(n, c)| json!({"name": n, "hex": c.iter().map(|b| format!("{:02x}", b)).collect::<String>()})).collect::<Vec<_>>()})
                            },
                        );
                    }
                }
                }
                let _ = w.child.kill();
                let _ = w.child.wait();
            });
        }
    });
    let nstr = string_parsers(rep);
    let _ = std::fs::remove_dir_all(&dir);
    let counts = verdict_counts.into_inner().unwrap();
    let mut cov = Coverage::default();
    cov.states = ndocs as u64 + nstr;
    cov.transitions = done.load(Ordering::Relaxed) + nstr;
    cov.evaluations = cov.transitions;
    cov.traces_validated = cov.transitions;
    cov.extra.insert("two_deviation_failures_already_given_by_the_first_deviation_alone".into(), json!(explained.load(Ordering::Relaxed)));
    cov.distinct_nontrivial = counts.get("ok").copied().unwrap_or(0) + counts.get("inconsistent").copied().unwrap_or(0);
    cov.rule = "seed documents are produced by the library itself (plus hand-written store-level @include documents: cyclic, dangling, and 48 root + sub-store pairs that carry independently edited inline copies of one dataset / resource) from 4 histories (text, annotation selectors with gaps and temporary ids, metadata selectors, complex selectors) as STAM JSON store, annotation array (annotate_from_file), dataset file, STAM CSV files and CBOR; every single deviation is generated, and every pair of a structural first deviation (delete / duplicate / temporary-id retype / redirected reference) with a second one (delete / swap / temporary-id retype / redirect / null) on the smallest JSON seed (thorough: on every JSON seed): JSON on an order-preserving tree: delete / duplicate / swap-with-next of every node, every number := each integer in -8..8, retype of every node to each of 15 values (null, true, numbers incl. 2^63 and 1e308, empty string/array/object, temporary ids up to 2^64-1), @type renamed to each other type, every string redirected to every other id, every selector wrapped in a complex selector; CSV: every cell := each of 27 values (incl. every selector kind name, also the internal one) (incl. three long strings of 2-, 3- and 4-byte characters shifted by one letter), row delete/duplicate, column drop; CBOR: every truncation, every single bit flip, every byte := 5 values; a two-deviation document that fails exactly like its first deviation alone is counted there, otherwise it is classed by its second deviation; each document is loaded by the real loader in a worker process (allocation cap 1 GiB live / 256 MiB per request, 5 s wall limit); verdict must be Err or a store that passes the C01-C03 consistency checks; plus all strings of length <= 3 over 14 symbols, nine long multi-byte strings (every byte offset below 40 inside a character in one of them) and two 100-character strings through Cursor/Type/DataFormat/SelectorKind/Offset parsers; non-trivial = documents that loaded".into();
    cov.samples = vec![
        json!({"seed": "json:text", "mutation": "retype:tempid-4e9", "path": ".annotations[].@id"}),
        json!({"seed": "cbor:text", "mutation": "bitflip3", "path": "tenth4"}),
        json!({"seed": "csv:complex-selectors:annotations.stam.csv", "mutation": "cell:=MultiSelector;TextSelector", "path": "row.SelectorType"}),
    ];
    cov.exhaustive = true;
    cov.extra.insert("seeds".into(), json!(seeds.iter().map(|s| json!({"name": s.name, "bytes": s.doc.len()})).collect::<Vec<_>>()));
    cov.extra.insert("documents".into(), json!(ndocs));
    cov.extra.insert("verdicts".into(), json!(counts));
    cov.extra.insert("strings_through_parsers".into(), json!(nstr));
    cov.extra.insert("two_deviation_seeds".into(), json!(two_dev.iter().map(|i| seeds[*i].name.clone()).collect::<Vec<_>>()));
    cov.assumptions = vec![
        "'time proportional to the input' is approximated by a 5 s wall limit on documents below 4 KiB".into(),
        "'never exhausts memory' is decided by the allocation cap of the worker (1 GiB live, 256 MiB per request)".into(),
    ];
    let _ = fnv64;
    cov
}

pub fn replay(rep: &Reporter, case: &Value) {
    if let Some(p) = case["parser"].as_str() {
        println!("replay C19 string parser {} on {:?}", p, case["string"]);
        string_parsers(rep);
        return;
    }
    let unhex = |s: &str| -> Vec<u8> { (0..s.len() / 2).filter_map(|i| u8::from_str_radix(&s[2 * i..2 * i + 2], 16).ok()).collect() };
    let loader = Loader::from_name(case["loader"].as_str().unwrap_or("")).unwrap_or(Loader::StoreJson);
    let dir = crate::util::work_dir("c19-replay");
    let _ = std::fs::remove_dir_all(&dir);
    std::fs::create_dir_all(&dir).unwrap();
    for a in case["aux"].as_array().cloned().unwrap_or_default() {
        std::fs::write(format!("{}/{}", dir, a["name"].as_str().unwrap_or("aux")), unhex(a["hex"].as_str().unwrap_or(""))).unwrap();
    }
    let fname = case["filename"].as_str().unwrap_or("doc");
    std::fs::write(format!("{}/{}", dir, fname), unhex(case["document_hex"].as_str().unwrap_or(""))).unwrap();
    let entry = if loader == Loader::StoreCsv { format!("{}/doc.store.stam.csv", dir) } else { format!("{}/{}", dir, fname) };
    let mut w = spawn_worker();
    let verdict = ask(&mut w, 0, loader, &entry, &format!("{}/base.store.stam.json", dir), Duration::from_secs(5));
    let _ = w.child.kill();
    println!("replay C19: loader={} seed={} mutation={} at {} -> verdict {}", loader.name(), case["seed"], case["mutation"], case["path"], verdict);
    if !(verdict == "ok" || verdict == "err") {
        let second: Option<(String, String)> = case["second"].as_array().and_then(|a| Some((a.first()?.as_str()?.to_string(), a.get(1)?.as_str()?.to_string())));
        let sig = doc_signature(loader, case["seed"].as_str().unwrap_or(""), case["mutation"].as_str().unwrap_or(""), case["path"].as_str().unwrap_or(""), second.as_ref(), &verdict);
        rep.fail(&sig, 0, || verdict.clone(), || case.clone());
    }
    let _ = std::fs::remove_dir_all(&dir);
}
