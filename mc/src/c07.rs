//! C07 — text search and partition operations agree with plain string operations.
//!
//! Bounded-exhaustive enumeration (no sampling): every text over a 7-letter alphabet of 1-4 byte
//! codepoints (two of which change their UTF-8 length when lower-cased) up to a length, searched as a
//! whole resource and inside **every** sub-selection `[b,e)`, with every needle / delimiter of length
//! 0-2, every trim set over three letters, every fragment sequence from a small menu, a fixed menu of
//! regular expressions (alone, in ordered pairs and in ordered triples, with and without overlap), and
//! — for segmentation — every set of known selections up to a size, in every sub-range.
//!
//! Oracles are the plain string operations of `std` (`match_indices`, `to_lowercase`, `split`,
//! `trim_matches`-style counting) and the `regex` crate run directly on the searched slice, with
//! byte -> codepoint conversion done by counting `chars()`.

use crate::report::{Coverage, Reporter, Tier};
use crate::util::{all_ranges, catch, msg_class};
use rayon::prelude::*;
use regex::{Regex, RegexSet};
use serde_json::{json, Value};
use stam::{
    AnnotationBuilder, AnnotationStore, Config, FindText, Offset, ResultTextSelection, SelectorBuilder, Text,
    TextResourceBuilder,
};
use std::cell::RefCell;
use std::collections::HashMap;
use std::sync::atomic::{AtomicU64, Ordering};

type R = (usize, usize);

/// a (1 byte, lower), A (1 byte, upper), space, é (2 bytes), 𝄞 (4 bytes), İ (2 bytes, lower-cases to the 3 bytes
/// / 2 codepoints "i̇"), ẞ (3 bytes, lower-cases to the 2 bytes "ß")
const SIGMA: [char; 7] = ['a', 'A', ' ', '\u{e9}', '\u{1d11e}', '\u{130}', '\u{1e9e}'];
/// extra single-codepoint needles that differ from the text only by case: É, ß
const NEEDLE_EXTRA: [char; 2] = ['\u{c9}', '\u{df}'];
const TRIM_LETTERS: [char; 3] = ['a', ' ', '\u{e9}'];
const SEQ_FRAGS: [&str; 6] = ["a", "A", " ", "\u{130}", "\u{1e9e}", "aA"];
const SEQ_FRAGS3: [&str; 3] = ["a", "A", " "];
/// hard cap on the number of items drawn from any library iterator
const CAP: usize = 64;
/// the second resource of the two-resource store used for the `AnnotationStore::find_text*` entry points
const R2_TEXT: &str = "aA \u{130}";

const RX: [&str; 16] = [
    "a",           // 0
    "a|A",         // 1
    "(a)(A)?",     // 2  capture groups, second optional
    ".",           // 3
    r"\s+",        // 4
    "(?i)a",       // 5
    "(a)|(A)",     // 6  alternative capture groups
    "^",           // 7  zero-width
    "$",           // 8  zero-width
    r"\b",         // 9  zero-width
    r"(.)\s(.)",   // 10 two groups with context in between
    "a*",          // 11 may match the empty string
    "[^a ]+",      // 12 runs of (mostly) multi-byte codepoints
    "(?:a)(.)",    // 13 context before the group: group starts after the overall match
    "(a)?A",       // 14 group may not participate at all
    r"\w(\w)",     // 15
];
const RX_PAIR: [usize; 6] = [0, 1, 2, 3, 4, 10];
const RX_TRIPLE: [usize; 4] = [0, 3, 2, 4];

// ------------------------------------------------------------------------------------------------
// cases

#[derive(Clone, Copy, PartialEq, Eq, Debug)]
enum Scope {
    Res,
    Sel(usize, usize),
}

/// Which store / receiver type is used.
/// `Plain`: store without annotations; sub-selections are `ResultTextSelection::Unbound`.
/// `Bound`: every range of the text carries an annotation; sub-selections are `ResultTextSelection::Bound`.
/// `Item`: as `Bound`, but the call goes through the separate `impl FindText for ResultItem<TextSelection>`.
/// `Sparse`: only the first codepoint carries an annotation and there are no milestones: the byte<->codepoint index has
/// entries at positions 0 and 1 only, so every later position is converted by counting on from an entry that is not the
/// start of the text (in `Plain` there is no entry at all, in `Bound` every position has its own).
#[derive(Clone, Copy, PartialEq, Eq, Debug)]
enum Recv {
    Plain,
    Bound,
    Item,
    Sparse,
}

impl Recv {
    fn name(&self) -> &'static str {
        match self {
            Recv::Plain => "plain",
            Recv::Bound => "bound",
            Recv::Item => "item",
            Recv::Sparse => "sparse",
        }
    }
    fn from_name(s: &str) -> Recv {
        match s {
            "bound" => Recv::Bound,
            "item" => Recv::Item,
            "sparse" => Recv::Sparse,
            _ => Recv::Plain,
        }
    }
}

#[derive(Clone, Debug, PartialEq, Eq)]
enum Op {
    Find { needle: String, nocase: bool },
    Split { delim: String },
    Trim { set: Vec<char>, with_fn: bool },
    Seq { frags: Vec<String>, skip: u8, cs: bool },
    Regex { exprs: Vec<usize>, overlap: bool, preset: bool },
    StoreFind { needle: String, nocase: bool },
    StoreRegex { exprs: Vec<usize>, overlap: bool },
}

const SKIP_NAMES: [&str; 3] = ["never", "space", "nonalphabetic"];

fn skip_fn(kind: u8, c: char) -> bool {
    match kind {
        0 => false,
        1 => c == ' ',
        _ => !c.is_alphabetic(),
    }
}

impl Op {
    fn name(&self) -> &'static str {
        match self {
            Op::Find { nocase: false, .. } => "find_text",
            Op::Find { nocase: true, .. } => "find_text_nocase",
            Op::Split { .. } => "split_text",
            Op::Trim { with_fn: false, .. } => "trim_text",
            Op::Trim { with_fn: true, .. } => "trim_text_with",
            Op::Seq { .. } => "find_text_sequence",
            Op::Regex { .. } => "find_text_regex",
            Op::StoreFind { nocase: false, .. } => "store.find_text",
            Op::StoreFind { nocase: true, .. } => "store.find_text_nocase",
            Op::StoreRegex { .. } => "store.find_text_regex",
        }
    }
    fn to_json(&self) -> Value {
        match self {
            Op::Find { needle, .. } | Op::StoreFind { needle, .. } => json!({"op": self.name(), "needle": needle}),
            Op::Split { delim } => json!({"op": self.name(), "delim": delim}),
            Op::Trim { set, .. } => json!({"op": self.name(), "set": set.iter().collect::<String>()}),
            Op::Seq { frags, skip, cs } => {
                json!({"op": self.name(), "frags": frags, "skip": SKIP_NAMES[*skip as usize], "case_sensitive": cs})
            }
            Op::Regex { exprs, overlap, preset } => json!({"op": self.name(),
                "exprs": exprs.iter().map(|i| RX[*i]).collect::<Vec<_>>(), "allow_overlap": overlap, "precompiled_set": preset}),
            Op::StoreRegex { exprs, overlap } => json!({"op": self.name(),
                "exprs": exprs.iter().map(|i| RX[*i]).collect::<Vec<_>>(), "allow_overlap": overlap}),
        }
    }
    fn from_json(v: &Value) -> Option<Op> {
        let name = v["op"].as_str()?;
        let s = |k: &str| v[k].as_str().map(|x| x.to_string());
        let exprs = || -> Option<Vec<usize>> {
            v["exprs"].as_array()?.iter().map(|e| RX.iter().position(|r| Some(*r) == e.as_str())).collect()
        };
        Some(match name {
            "find_text" => Op::Find { needle: s("needle")?, nocase: false },
            "find_text_nocase" => Op::Find { needle: s("needle")?, nocase: true },
            "store.find_text" => Op::StoreFind { needle: s("needle")?, nocase: false },
            "store.find_text_nocase" => Op::StoreFind { needle: s("needle")?, nocase: true },
            "split_text" => Op::Split { delim: s("delim")? },
            "trim_text" => Op::Trim { set: s("set")?.chars().collect(), with_fn: false },
            "trim_text_with" => Op::Trim { set: s("set")?.chars().collect(), with_fn: true },
            "find_text_sequence" => Op::Seq {
                frags: v["frags"].as_array()?.iter().filter_map(|x| x.as_str().map(|y| y.to_string())).collect(),
                skip: SKIP_NAMES.iter().position(|n| Some(*n) == v["skip"].as_str())? as u8,
                cs: v["case_sensitive"].as_bool()?,
            },
            "find_text_regex" => Op::Regex {
                exprs: exprs()?,
                overlap: v["allow_overlap"].as_bool()?,
                preset: v["precompiled_set"].as_bool()?,
            },
            "store.find_text_regex" => Op::StoreRegex { exprs: exprs()?, overlap: v["allow_overlap"].as_bool()? },
            _ => return None,
        })
    }
}

fn scope_json(s: Scope) -> Value {
    match s {
        Scope::Res => Value::Null,
        Scope::Sel(b, e) => json!([b, e]),
    }
}

fn case_json(text: &str, scope: Scope, recv: Recv, op: &Op) -> Value {
    json!({"kind": "text", "text": text, "scope": scope_json(scope), "recv": recv.name(), "op": op.to_json()})
}

// ------------------------------------------------------------------------------------------------
// regular expressions: one compiled menu per thread (no shared cache pools between workers)

struct Menu {
    single: Vec<Regex>,
    sets: HashMap<Vec<usize>, (Vec<Regex>, RegexSet)>,
}

impl Menu {
    fn new() -> Menu {
        Menu {
            single: RX.iter().map(|s| Regex::new(s).expect("menu regex")).collect(),
            sets: HashMap::new(),
        }
    }
    fn ensure(&mut self, exprs: &[usize]) {
        if !self.sets.contains_key(exprs) {
            let v: Vec<Regex> = exprs.iter().map(|i| self.single[*i].clone()).collect();
            let set = RegexSet::new(exprs.iter().map(|i| RX[*i])).expect("regex set");
            self.sets.insert(exprs.to_vec(), (v, set));
        }
    }
}

thread_local! {
    static MENU: RefCell<Menu> = RefCell::new(Menu::new());
}

/// one match of one expression on the searched slice, in absolute codepoint offsets
#[derive(Clone, Debug, PartialEq, Eq, PartialOrd, Ord)]
struct M {
    overall: R,
    /// (capture group number, begin, end); group number 0 = the whole match of an expression without groups
    groups: Vec<(usize, usize, usize)>,
}

fn b2c(slice: &str, byte: usize) -> usize {
    slice[..byte].chars().count()
}

fn expected_matches(re: &Regex, slice: &str, b0: usize) -> Vec<M> {
    let mut out = Vec::new();
    if re.captures_len() > 1 {
        for caps in re.captures_iter(slice) {
            let m0 = caps.get(0).unwrap();
            let mut groups = Vec::new();
            for gi in 1..caps.len() {
                if let Some(g) = caps.get(gi) {
                    groups.push((gi, b0 + b2c(slice, g.start()), b0 + b2c(slice, g.end())));
                }
            }
            out.push(M { overall: (b0 + b2c(slice, m0.start()), b0 + b2c(slice, m0.end())), groups });
        }
    } else {
        for m in re.find_iter(slice) {
            let r = (b0 + b2c(slice, m.start()), b0 + b2c(slice, m.end()));
            out.push(M { overall: r, groups: vec![(0, r.0, r.1)] });
        }
    }
    out
}

// ------------------------------------------------------------------------------------------------
// running the library

#[derive(Clone, Debug, PartialEq, Eq)]
struct Got {
    b: usize,
    e: usize,
    t: String,
}

type RGot = (usize, Vec<Got>, Vec<usize>);

enum LibOut {
    List(Vec<Got>, bool),
    Trim(Result<Got, String>),
    Seq(Option<Vec<Got>>),
    Regex(Vec<RGot>, bool),
    RegexErr(String),
    StoreList(Vec<(String, Got)>, bool),
    StoreRegex(Vec<(String, RGot)>, bool),
}

fn got(ts: &ResultTextSelection) -> Got {
    Got { b: ts.begin(), e: ts.end(), t: ts.text().to_string() }
}

fn drain<'a>(mut it: impl Iterator<Item = ResultTextSelection<'a>>) -> (Vec<Got>, bool) {
    let mut v = Vec::new();
    loop {
        if v.len() >= CAP {
            return (v, true);
        }
        match it.next() {
            Some(ts) => v.push(got(&ts)),
            None => return (v, false),
        }
    }
}

fn rgot(m: &stam::FindRegexMatch) -> RGot {
    (m.expression_index(), m.textselections().iter().map(got).collect(), m.capturegroups().to_vec())
}

macro_rules! exec_on {
    ($r:expr, $op:expr) => {{
        let r = $r;
        match $op {
            Op::Find { needle, nocase } => {
                let (v, c) = if *nocase { drain(r.find_text_nocase(needle)) } else { drain(r.find_text(needle)) };
                LibOut::List(v, c)
            }
            Op::Split { delim } => {
                let (v, c) = drain(r.split_text(delim));
                LibOut::List(v, c)
            }
            Op::Trim { set, with_fn } => {
                let x = if *with_fn { r.trim_text_with(|c| set.contains(&c)) } else { r.trim_text(set) };
                LibOut::Trim(x.map(|ts| got(&ts)).map_err(|e| format!("{}", e)))
            }
            Op::Seq { frags, skip, cs } => {
                let fr: Vec<&str> = frags.iter().map(|s| s.as_str()).collect();
                let sk = *skip;
                let x = r.find_text_sequence(&fr, |c| skip_fn(sk, c), *cs);
                LibOut::Seq(x.map(|v| v.iter().map(got).collect()))
            }
            Op::Regex { exprs, overlap, preset } => MENU.with(|m| {
                let mut m = m.borrow_mut();
                m.ensure(exprs);
                let (res, set) = m.sets.get(exprs.as_slice()).unwrap();
                let set = if *preset { Some(set) } else { None };
                let found = r.find_text_regex(res, set, *overlap);
                let out = match found {
                    Ok(mut it) => {
                        let mut v = Vec::new();
                        let mut capped = false;
                        loop {
                            if v.len() >= CAP {
                                capped = true;
                                break;
                            }
                            match it.next() {
                                Some(x) => v.push(rgot(&x)),
                                None => break,
                            }
                        }
                        LibOut::Regex(v, capped)
                    }
                    Err(e) => LibOut::RegexErr(format!("{}", e)),
                };
                out
            }),
            _ => unreachable!("store-level operation on a text receiver"),
        }
    }};
}

struct Ctx<'s> {
    text: &'s str,
    chars: Vec<char>,
    plain: &'s AnnotationStore,
    bound: Option<&'s AnnotationStore>,
    sparse: Option<&'s AnnotationStore>,
    two: Option<&'s AnnotationStore>,
}

fn build_store(text: &str, annotate: &[R], second: Option<&str>, config: Option<Config>) -> AnnotationStore {
    let mut store = match config {
        Some(c) => AnnotationStore::new(c),
        None => AnnotationStore::default(),
    };
    store
        .add_resource(TextResourceBuilder::new().with_id("r").with_text(text))
        .expect("add_resource r");
    if let Some(t2) = second {
        store
            .add_resource(TextResourceBuilder::new().with_id("r2").with_text(t2))
            .expect("add_resource r2");
    }
    for (i, r) in annotate.iter().enumerate() {
        store
            .annotate(
                AnnotationBuilder::new()
                    .with_id(format!("k{}", i))
                    .with_target(SelectorBuilder::textselector("r", Offset::simple(r.0, r.1))),
            )
            .expect("annotate known selection");
    }
    store
}

fn exec(ctx: &Ctx, scope: Scope, recv: Recv, op: &Op) -> Result<LibOut, String> {
    catch(|| {
        match op {
            Op::StoreFind { needle, nocase } => {
                let store = ctx.two.expect("two-resource store");
                fn drain_res<'a>(mut it: impl Iterator<Item = ResultTextSelection<'a>>) -> LibOut {
                    let mut v = Vec::new();
                    for _ in 0..CAP {
                        match it.next() {
                            Some(ts) => v.push((ts.resource().id().unwrap_or("?").to_string(), got(&ts))),
                            None => return LibOut::StoreList(v, false),
                        }
                    }
                    LibOut::StoreList(v, true)
                }
                return if *nocase { drain_res(store.find_text_nocase(needle)) } else { drain_res(store.find_text(needle)) };
            }
            Op::StoreRegex { exprs, overlap } => {
                let store = ctx.two.expect("two-resource store");
                return MENU.with(|m| {
                    let mut m = m.borrow_mut();
                    m.ensure(exprs);
                    let (res, _) = m.sets.get(exprs.as_slice()).unwrap();
                    let none: Option<RegexSet> = None;
                    let mut v = Vec::new();
                    let mut it = store.find_text_regex(res, &none, *overlap);
                    for _ in 0..CAP {
                        match it.next() {
                            Some(x) => v.push((x.resource().id().unwrap_or("?").to_string(), rgot(&x))),
                            None => return LibOut::StoreRegex(v, false),
                        }
                    }
                    LibOut::StoreRegex(v, true)
                });
            }
            _ => {}
        }
        let store = match recv {
            Recv::Plain => ctx.plain,
            Recv::Sparse => ctx.sparse.expect("sparsely annotated store"),
            _ => ctx.bound.expect("annotated store"),
        };
        let res = store.resource("r").expect("resource r");
        match scope {
            Scope::Res => exec_on!(&res, op),
            Scope::Sel(b, e) => {
                let sel = res
                    .textselection(&Offset::simple(b, e))
                    .expect("harness: scope selection must be valid");
                match recv {
                    Recv::Item => {
                        let item = sel.as_resultitem().expect("harness: scope selection must be bound");
                        exec_on!(item, op)
                    }
                    Recv::Bound => {
                        assert!(sel.as_resultitem().is_some(), "harness: scope selection must be bound");
                        exec_on!(&sel, op)
                    }
                    Recv::Plain | Recv::Sparse => exec_on!(&sel, op),
                }
            }
        }
    })
}

// ------------------------------------------------------------------------------------------------
// oracles on plain strings

fn lower_len_changes(c: char) -> bool {
    c.to_lowercase().map(|x| x.len_utf8()).sum::<usize>() != c.len_utf8()
}
fn has_lc(s: &str) -> bool {
    s.chars().any(lower_len_changes)
}

/// text class used in signatures: `lc` when case folding is part of the operation and the searched text or
/// the needle contains a codepoint whose lower-case form has a different UTF-8 length, otherwise `plain`
fn tclass(slice: &str, needle: &str, folding: bool) -> &'static str {
    if folding && (has_lc(slice) || has_lc(needle)) {
        "lc"
    } else {
        "plain"
    }
}

/// class of a panic message: the text before the first colon (the `expect` label) and the source file
fn panic_class(p: &str) -> String {
    let head = p.split(": ").next().unwrap_or(p);
    let head = head.split(" @").next().unwrap_or(head);
    let file = p.rsplit_once(" @").map(|x| x.1).unwrap_or("");
    format!("panic:{}@{}", msg_class(head), file)
}

fn exp_find(slice: &str, b0: usize, needle: &str) -> Vec<R> {
    let n = needle.chars().count();
    slice
        .match_indices(needle)
        .map(|(bp, _)| {
            let s = b0 + b2c(slice, bp);
            (s, s + n)
        })
        .collect()
}

/// case-insensitive occurrence starting exactly at codepoint `s`: the unique end `e` with
/// lowercase(chars[s..e]) == lowered needle
fn nocase_at(chars: &[char], s: usize, lneedle: &str) -> Option<usize> {
    let mut acc = String::new();
    for e in s..chars.len() {
        acc.extend(chars[e].to_lowercase());
        if acc == lneedle {
            return Some(e + 1);
        }
        if !lneedle.starts_with(acc.as_str()) {
            return None;
        }
    }
    None
}

fn exact_at(chars: &[char], s: usize, needle: &[char]) -> Option<usize> {
    if s + needle.len() <= chars.len() && &chars[s..s + needle.len()] == needle {
        Some(s + needle.len())
    } else {
        None
    }
}

/// leftmost, non-overlapping case-insensitive matches (needle non-empty), relative to `chars`
fn exp_find_nocase(chars: &[char], b0: usize, needle: &str) -> Vec<R> {
    let ln = needle.to_lowercase();
    let mut out = Vec::new();
    let mut p = 0;
    while p < chars.len() {
        match nocase_at(chars, p, &ln) {
            Some(e) => {
                out.push((b0 + p, b0 + e));
                p = e;
            }
            None => p += 1,
        }
    }
    out
}

fn exp_split(slice: &str, b0: usize, delim: &str) -> Vec<R> {
    let base = slice.as_ptr() as usize;
    slice
        .split(delim)
        .map(|piece| {
            let bp = piece.as_ptr() as usize - base;
            let s = b0 + b2c(slice, bp);
            (s, s + piece.chars().count())
        })
        .collect()
}

/// `None` = everything is trimmed away (the plain result is the empty string)
fn exp_trim(chars: &[char], b0: usize, set: &[char]) -> Option<R> {
    let lead = chars.iter().take_while(|c| set.contains(c)).count();
    if lead == chars.len() && !chars.is_empty() {
        return None;
    }
    let trail = chars.iter().rev().take_while(|c| set.contains(c)).count();
    Some((b0 + lead, b0 + chars.len() - trail))
}

/// Is there an assignment of the fragments to occurrences, in order, such that the text before the first
/// occurrence and between consecutive occurrences consists of skippable characters only (strictest reading)?
fn seq_exists(chars: &[char], frags: &[String], cs: bool, skip: u8, pos: usize, i: usize) -> bool {
    if i == frags.len() {
        return true;
    }
    let fchars: Vec<char> = frags[i].chars().collect();
    let lf = frags[i].to_lowercase();
    let mut s = pos;
    loop {
        let m = if cs { exact_at(chars, s, &fchars) } else { nocase_at(chars, s, &lf) };
        if let Some(e) = m {
            if seq_exists(chars, frags, cs, skip, e, i + 1) {
                return true;
            }
        }
        if s >= chars.len() || !skip_fn(skip, chars[s]) {
            return false;
        }
        s += 1;
    }
}

fn slice_of(chars: &[char], r: R) -> String {
    if r.0 <= r.1 && r.1 <= chars.len() {
        chars[r.0..r.1].iter().collect()
    } else {
        String::from("<out of bounds>")
    }
}

fn is_subseq(small: &[R], big: &[R]) -> bool {
    let mut it = big.iter();
    small.iter().all(|x| it.any(|y| y == x))
}

/// symptom of a difference between the expected and the returned list of ranges
fn classify(exp: &[R], got: &[R], scope: R) -> &'static str {
    if got.iter().any(|r| r.0 < scope.0 || r.1 > scope.1 || r.0 > r.1) {
        "outside-range"
    } else if got.windows(2).any(|w| w[1].0 < w[0].0) {
        "unordered"
    } else if got.len() < exp.len() && is_subseq(got, exp) {
        "missing"
    } else if got.len() > exp.len() && is_subseq(exp, got) {
        "extra"
    } else if got.len() == exp.len() {
        "wrong-offset"
    } else {
        "wrong-text"
    }
}

fn ranges(v: &[Got]) -> Vec<R> {
    v.iter().map(|g| (g.b, g.e)).collect()
}

// (the sparsely annotated store shares the classes of the store without annotations: what fails there fails in the same way
// here, and a failure that only occurs here shows as a new class or as more failing inputs than recorded)
fn scope_class(scope: Scope, recv: Recv) -> &'static str {
    match (scope, recv) {
        (Scope::Res, _) => "res",
        (Scope::Sel(0, _), Recv::Item) => "item:b=0",
        (Scope::Sel(_, _), Recv::Item) => "item:b>0",
        (Scope::Sel(0, _), _) => "sel:b=0",
        (Scope::Sel(_, _), _) => "sel:b>0",
    }
}

// ------------------------------------------------------------------------------------------------
// the check of one case

struct Outcome {
    calls: u64,
    nontrivial: bool,
}

fn check_op(rep: &Reporter, ctx: &Ctx, scope: Scope, recv: Recv, op: &Op, ord: u64, verbose: bool) -> Outcome {
    let n = ctx.chars.len();
    let sr: R = match scope {
        Scope::Res => (0, n),
        Scope::Sel(b, e) => (b, e),
    };
    let schars = &ctx.chars[sr.0..sr.1];
    let slice: String = schars.iter().collect();
    let sclass = scope_class(scope, recv);
    let fail = |opclass: &str, symptom: &str, tcl: &str, detail: String| {
        let mut sig = format!("{}|{}", op.name(), sclass);
        for part in [opclass, symptom, tcl] {
            if !part.is_empty() && part != "plain" {
                sig.push('|');
                sig.push_str(part);
            }
        }
        if verbose {
            println!("  FAIL {} :: {}", sig, detail);
        }
        rep.fail(
            &sig,
            ord,
            || {
                format!(
                    "text={:?} scope={:?} recv={} op={}: {}",
                    ctx.text,
                    scope,
                    recv.name(),
                    op.to_json(),
                    detail
                )
            },
            || case_json(ctx.text, scope, recv, op),
        );
    };
    // every returned selection must carry the text found at its reported absolute offsets
    let text_ok = |v: &[Got]| -> Option<String> {
        for g in v {
            if g.b <= g.e && g.e <= n && g.t != slice_of(&ctx.chars, (g.b, g.e)) {
                return Some(format!("selection {}..{} reports text {:?} but the resource has {:?} there", g.b, g.e, g.t, slice_of(&ctx.chars, (g.b, g.e))));
            }
        }
        None
    };
    let lib = exec(ctx, scope, recv, op);
    let mut out = Outcome { calls: 1, nontrivial: false };
    match op {
        Op::Find { needle, nocase } => {
            let oc = if needle.is_empty() { "needle=empty" } else { "needle=nonempty" };
            let tcl = if needle.is_empty() { "plain" } else { tclass(&slice, needle, *nocase) };
            let exp = if needle.is_empty() {
                Vec::new()
            } else if *nocase {
                exp_find_nocase(schars, sr.0, needle)
            } else {
                exp_find(&slice, sr.0, needle)
            };
            out.nontrivial = !exp.is_empty();
            if verbose {
                println!("  plain string operation: {:?}", exp);
            }
            match lib {
                Err(p) => fail(oc, &panic_class(&p), tcl, format!("panicked: {}", p)),
                Ok(LibOut::List(v, capped)) => {
                    if verbose {
                        println!("  library: {:?}{}", v, if capped { " (iteration cap hit)" } else { "" });
                    }
                    if capped {
                        fail(oc, "non-terminating", tcl, format!("iterator still yields after {} items (first: {:?})", CAP, &v[..2]));
                    } else if needle.is_empty() {
                        // result for the empty needle is not pinned down: only termination is required
                    } else if let Some(d) = text_ok(&v) {
                        fail(oc, "text-mismatch", tcl, d);
                    } else if ranges(&v) != exp {
                        fail(oc, classify(&exp, &ranges(&v), sr), tcl, format!("library {:?}, plain string search {:?}", ranges(&v), exp));
                    }
                }
                Ok(_) => unreachable!(),
            }
        }
        Op::Split { delim } => {
            let oc = if delim.is_empty() { "delim=empty" } else { "delim=nonempty" };
            let tcl = tclass(&slice, delim, false);
            let exp = exp_split(&slice, sr.0, delim);
            out.nontrivial = exp.len() > 1;
            if verbose {
                println!("  plain string operation: {:?}", exp);
            }
            match lib {
                Err(p) => fail(oc, &panic_class(&p), tcl, format!("panicked: {}", p)),
                Ok(LibOut::List(v, capped)) => {
                    if verbose {
                        println!("  library: {:?}", v);
                    }
                    if capped {
                        fail(oc, "non-terminating", tcl, format!("iterator still yields after {} items", CAP));
                    } else if let Some(d) = text_ok(&v) {
                        fail(oc, "text-mismatch", tcl, d);
                    } else if ranges(&v) != exp {
                        fail(oc, classify(&exp, &ranges(&v), sr), tcl, format!("library pieces {:?}, str::split pieces {:?}", ranges(&v), exp));
                    }
                }
                Ok(_) => unreachable!(),
            }
        }
        Op::Trim { set, .. } => {
            let oc = if set.is_empty() { "set=empty" } else { "set=nonempty" };
            let tcl = tclass(&slice, "", false);
            let exp = exp_trim(schars, sr.0, set);
            out.nontrivial = match exp {
                Some(r) => r != sr,
                None => true,
            };
            if verbose {
                println!("  plain string operation: {:?} (None = everything trimmed)", exp);
            }
            match lib {
                Err(p) => fail(oc, &panic_class(&p), tcl, format!("panicked: {}", p)),
                Ok(LibOut::Trim(x)) => {
                    if verbose {
                        println!("  library: {:?}", x);
                    }
                    match (exp, x) {
                        (Some(want), Ok(g)) => {
                            if let Some(d) = text_ok(std::slice::from_ref(&g)) {
                                fail(oc, "text-mismatch", tcl, d);
                            } else if (g.b, g.e) != want {
                                fail(oc, classify(&[want], &[(g.b, g.e)], sr), tcl, format!("library {:?}, trimmed plain string is at {:?}", (g.b, g.e), want));
                            }
                        }
                        (Some(want), Err(e)) => fail(oc, "err", tcl, format!("library returned Err({}), trimmed plain string is at {:?}", e, want)),
                        (None, Ok(g)) => {
                            // everything trimmed: a zero-width selection inside the range or an Err are both accepted
                            if g.b != g.e || g.b < sr.0 || g.e > sr.1 {
                                fail(oc, if g.b != g.e { "wrong-text" } else { "outside-range" }, tcl, format!("library {:?}, but the trimmed plain string is empty", (g.b, g.e)));
                            }
                        }
                        (None, Err(_)) => {}
                    }
                }
                Ok(_) => unreachable!(),
            }
        }
        Op::Seq { frags, skip, cs } => {
            let oc = if *cs { "cs" } else { "nocase" };
            let allfr: String = frags.concat();
            let tcl = tclass(&slice, &allfr, !*cs);
            let exists = seq_exists(schars, frags, *cs, *skip, 0, 0);
            out.nontrivial = exists;
            if verbose {
                println!("  an in-order assignment with skippable gaps (strict reading) exists: {}", exists);
            }
            match lib {
                Err(p) => fail(oc, &panic_class(&p), tcl, format!("panicked: {}", p)),
                Ok(LibOut::Seq(x)) => {
                    if verbose {
                        println!("  library: {:?}", x);
                    }
                    match x {
                        None => {
                            if exists {
                                fail(oc, "missing", tcl, "library returned None although the fragments occur in order with only skippable text before and between them".into());
                            }
                        }
                        Some(v) => {
                            let rs = ranges(&v);
                            let mut problem: Option<(&str, String)> = None;
                            if v.len() != frags.len() {
                                problem = Some(("wrong-count", format!("{} selections for {} fragments", v.len(), frags.len())));
                            } else if rs.iter().any(|r| r.0 < sr.0 || r.1 > sr.1 || r.0 > r.1) {
                                problem = Some(("outside-range", format!("selections {:?} leave the searched range {:?}", rs, sr)));
                            } else if let Some(d) = text_ok(&v) {
                                problem = Some(("text-mismatch", d));
                            } else {
                                for (i, g) in v.iter().enumerate() {
                                    let same = if *cs { g.t == frags[i] } else { g.t.to_lowercase() == frags[i].to_lowercase() };
                                    if !same {
                                        problem = Some(("wrong-text", format!("selection {} has text {:?}, fragment is {:?}", i, g.t, frags[i])));
                                        break;
                                    }
                                    if i > 0 {
                                        if g.b < v[i - 1].e {
                                            problem = Some(("unordered", format!("selections {:?} are not in order / overlap", rs)));
                                            break;
                                        }
                                        if ctx.chars[v[i - 1].e..g.b].iter().any(|c| !skip_fn(*skip, *c)) {
                                            problem = Some(("gap-not-skippable", format!("text between selections {:?} contains characters that may not be skipped", rs)));
                                            break;
                                        }
                                    }
                                }
                            }
                            if let Some((sym, d)) = problem {
                                fail(oc, sym, tcl, d);
                            }
                        }
                    }
                }
                Ok(_) => unreachable!(),
            }
        }
        Op::Regex { exprs, overlap, .. } => {
            let hascap = |k: usize| MENU.with(|m| m.borrow().single[exprs[k]].captures_len() > 1);
            let anycap = (0..exprs.len()).any(|k| hascap(k));
            // selection among several expressions: configuration class; offsets: class of the offending expression
            let oc = format!(
                "{}{}",
                if exprs.len() == 1 { "single" } else if *overlap { "multi:overlap" } else { "multi:nooverlap" },
                if anycap { "+cap" } else { "" }
            );
            let capclass = |k: Option<usize>| -> String {
                match k {
                    Some(k) => (if hascap(k) { "cap" } else { "nocap" }).to_string(),
                    None => oc.clone(),
                }
            };
            let tcl = tclass(&slice, "", false);
            let exp: Vec<Vec<M>> = exprs
                .iter()
                .map(|i| MENU.with(|m| expected_matches(&m.borrow().single[*i], &slice, sr.0)))
                .collect();
            out.nontrivial = exp.iter().any(|v| !v.is_empty());
            if verbose {
                println!("  regex crate on the slice {:?}: {:?}", slice, exp);
            }
            match lib {
                Err(p) => fail("", &panic_class(&p), tcl, format!("panicked: {}", p)),
                Ok(LibOut::RegexErr(e)) => fail(&oc, "err", tcl, format!("find_text_regex returned Err({})", e)),
                Ok(LibOut::Regex(v, capped)) => {
                    if verbose {
                        println!("  library: {:?}", v);
                    }
                    if capped {
                        fail(&oc, "non-terminating", tcl, format!("iterator still yields after {} items", CAP));
                    } else if let Some((sym, k, d)) = check_regex_result(&exp, &v, *overlap, sr, &ctx.chars) {
                        fail(&capclass(k), sym, tcl, d);
                    }
                }
                Ok(_) => unreachable!(),
            }
        }
        Op::StoreFind { needle, nocase } => {
            let oc = "needle=nonempty";
            let tcl = tclass(ctx.text, needle, *nocase);
            let r2chars: Vec<char> = R2_TEXT.chars().collect();
            let (e1, e2) = if *nocase {
                (exp_find_nocase(&ctx.chars, 0, needle), exp_find_nocase(&r2chars, 0, needle))
            } else {
                (exp_find(ctx.text, 0, needle), exp_find(R2_TEXT, 0, needle))
            };
            out.nontrivial = !e1.is_empty();
            match lib {
                Err(p) => fail(oc, &panic_class(&p), tcl, format!("panicked: {}", p)),
                Ok(LibOut::StoreList(v, capped)) => {
                    if verbose {
                        println!("  plain string operation: r={:?} r2={:?}\n  library: {:?}", e1, e2, v);
                    }
                    if capped {
                        fail(oc, "non-terminating", tcl, format!("iterator still yields after {} items", CAP));
                    } else {
                        let g1: Vec<R> = v.iter().filter(|x| x.0 == "r").map(|x| (x.1.b, x.1.e)).collect();
                        let g2: Vec<R> = v.iter().filter(|x| x.0 == "r2").map(|x| (x.1.b, x.1.e)).collect();
                        if g1.len() + g2.len() != v.len() {
                            fail(oc, "unknown-resource", tcl, format!("results {:?}", v));
                        } else if g1 != e1 {
                            fail(oc, classify(&e1, &g1, (0, n)), tcl, format!("resource r: library {:?}, plain string search {:?}", g1, e1));
                        } else if g2 != e2 {
                            fail(oc, &format!("second-resource:{}", classify(&e2, &g2, (0, r2chars.len()))), tcl, format!("resource r2 ({:?}): library {:?}, plain string search {:?}", R2_TEXT, g2, e2));
                        }
                    }
                }
                Ok(_) => unreachable!(),
            }
        }
        Op::StoreRegex { exprs, overlap } => {
            let anycap = exprs.iter().any(|i| MENU.with(|m| m.borrow().single[*i].captures_len() > 1));
            let oc = (if anycap { "cap" } else { "nocap" }).to_string();
            let tcl = tclass(ctx.text, "", false);
            let r2chars: Vec<char> = R2_TEXT.chars().collect();
            let e1: Vec<Vec<M>> = exprs.iter().map(|i| MENU.with(|m| expected_matches(&m.borrow().single[*i], ctx.text, 0))).collect();
            let e2: Vec<Vec<M>> = exprs.iter().map(|i| MENU.with(|m| expected_matches(&m.borrow().single[*i], R2_TEXT, 0))).collect();
            out.nontrivial = e1.iter().any(|v| !v.is_empty());
            match lib {
                Err(p) => fail(&oc, &panic_class(&p), tcl, format!("panicked: {}", p)),
                Ok(LibOut::StoreRegex(v, capped)) => {
                    if verbose {
                        println!("  regex crate: r={:?} r2={:?}\n  library: {:?}", e1, e2, v);
                    }
                    if capped {
                        fail(&oc, "non-terminating", tcl, format!("iterator still yields after {} items", CAP));
                    } else {
                        let g1: Vec<RGot> = v.iter().filter(|x| x.0 == "r").map(|x| x.1.clone()).collect();
                        let g2: Vec<RGot> = v.iter().filter(|x| x.0 == "r2").map(|x| x.1.clone()).collect();
                        if g1.len() + g2.len() != v.len() {
                            fail(&oc, "unknown-resource", tcl, format!("results {:?}", v));
                        } else if let Some((sym, _, d)) = check_regex_result(&e1, &g1, *overlap, (0, n), &ctx.chars) {
                            fail(&oc, sym, tcl, format!("resource r: {}", d));
                        } else if let Some((sym, _, d)) = check_regex_result(&e2, &g2, *overlap, (0, r2chars.len()), &r2chars) {
                            fail(&oc, &format!("second-resource:{}", sym), tcl, format!("resource r2 ({:?}): {}", R2_TEXT, d));
                        }
                    }
                }
                Ok(_) => unreachable!(),
            }
        }
    }
    out
}

/// Compare the library's regex results with the matches of the `regex` crate on the slice.
/// `exp[k]` = all matches of the k-th expression of the call. Returns (symptom, position of the expression a
/// wrong offset can be attributed to - `None` for symptoms that concern the selection among several
/// expressions -, detail).
fn check_regex_result(exp: &[Vec<M>], got: &[RGot], overlap: bool, sr: R, chars: &[char]) -> Option<(&'static str, Option<usize>, String)> {
    // normalise the library's results; matches without any participating group are ignored on both sides
    let mut g: Vec<(usize, Vec<(usize, usize, usize)>)> = Vec::new();
    for (k, sels, groups) in got {
        for s in sels {
            if s.b <= s.e && s.e <= chars.len() && s.t != slice_of(chars, (s.b, s.e)) {
                return Some(("text-mismatch", Some(*k), format!("selection {}..{} reports text {:?}", s.b, s.e, s.t)));
            }
        }
        if *k >= exp.len() {
            return Some(("wrong-expression", None, format!("expression index {} out of {}", k, exp.len())));
        }
        if sels.is_empty() {
            continue;
        }
        let triples: Vec<(usize, usize, usize)> = if groups.is_empty() {
            if sels.len() != 1 {
                return Some(("wrong-groups", Some(*k), format!("{} selections but no capture group numbers", sels.len())));
            }
            vec![(0, sels[0].b, sels[0].e)]
        } else {
            if groups.len() != sels.len() {
                return Some(("wrong-groups", Some(*k), format!("{} selections but {} capture group numbers", sels.len(), groups.len())));
            }
            groups.iter().zip(sels).map(|(gi, s)| (*gi, s.b, s.e)).collect()
        };
        g.push((*k, triples));
    }
    let flat = |v: &[(usize, Vec<(usize, usize, usize)>)]| -> Vec<R> { v.iter().flat_map(|x| x.1.iter().map(|t| (t.1, t.2))).collect() };
    let e: Vec<Vec<&M>> = exp.iter().map(|v| v.iter().filter(|m| !m.groups.is_empty()).collect()).collect();
    let gflat = flat(&g);
    if let Some((k, _)) = g.iter().find(|x| x.1.iter().any(|t| t.1 < sr.0 || t.2 > sr.1 || t.1 > t.2)) {
        return Some(("outside-range", Some(*k), format!("library selections {:?} leave the searched range {:?}", gflat, sr)));
    }
    if exp.len() == 1 {
        let want: Vec<(usize, Vec<(usize, usize, usize)>)> = e[0].iter().map(|m| (0, m.groups.clone())).collect();
        if g != want {
            let wflat = flat(&want);
            let sym = if gflat == wflat { "wrong-groups" } else { classify(&wflat, &gflat, sr) };
            return Some((sym, Some(0), format!("library {:?}, regex crate {:?} (group, begin, end)", g.iter().map(|x| &x.1).collect::<Vec<_>>(), want.iter().map(|x| &x.1).collect::<Vec<_>>())));
        }
        return None;
    }
    // several expressions: every result must be a genuine match of its expression
    let lookup = |k: usize, t: &Vec<(usize, usize, usize)>| -> Option<&M> { e[k].iter().find(|m| &m.groups == t).copied() };
    let mut resolved: Vec<(usize, &M)> = Vec::new();
    for (k, t) in &g {
        match lookup(*k, t) {
            Some(m) => resolved.push((*k, m)),
            None => return Some(("wrong-offset", Some(*k), format!("library reports {:?} for expression #{}, the regex crate finds {:?}", t, k, e[*k]))),
        }
    }
    // order: no result may come after one that lies entirely later under both readings of "position of a match"
    let keys = |m: &M| -> (usize, usize) {
        let k1 = m.groups.iter().map(|t| t.1).min().unwrap_or(m.overall.0);
        (m.overall.0.min(k1), m.overall.0.max(k1))
    };
    for i in 0..resolved.len() {
        for j in i + 1..resolved.len() {
            if keys(resolved[j].1).1 < keys(resolved[i].1).0 {
                return Some(("unordered", None, format!("result #{} {:?} is returned before result #{} {:?}", i, resolved[i].1, j, resolved[j].1)));
            }
        }
    }
    if overlap {
        let mut want: Vec<(usize, Vec<(usize, usize, usize)>)> = e.iter().enumerate().flat_map(|(k, v)| v.iter().map(move |m| (k, m.groups.clone()))).collect();
        let mut have = g.clone();
        want.sort();
        have.sort();
        if want != have {
            let sym = if have.len() < want.len() { "missing" } else if have.len() > want.len() { "extra" } else { "wrong-offset" };
            return Some((sym, None, format!("library (sorted) {:?}, all matches of all expressions {:?}", have, want)));
        }
    } else {
        // no two results of different expressions may overlap (hull of the returned selections, non-empty ones)
        let hull = |m: &M| -> R { (m.groups.iter().map(|t| t.1).min().unwrap(), m.groups.iter().map(|t| t.2).max().unwrap()) };
        for i in 0..resolved.len() {
            for j in i + 1..resolved.len() {
                if resolved[i].0 == resolved[j].0 && resolved[i].1 == resolved[j].1 {
                    return Some(("extra", None, format!("match {:?} returned twice", resolved[i].1)));
                }
                let (a, b) = (hull(resolved[i].1), hull(resolved[j].1));
                if resolved[i].0 != resolved[j].0 && a.0 < a.1 && b.0 < b.1 && a.0 < b.1 && b.0 < a.1 {
                    return Some(("overlap", None, format!("allow_overlap=false but results {:?} (expression #{}) and {:?} (expression #{}) overlap", resolved[i].1, resolved[i].0, resolved[j].1, resolved[j].0)));
                }
            }
        }
        // maximality: a match that touches no returned match at all must itself have been returned
        for (k, v) in e.iter().enumerate() {
            for m in v {
                if resolved.iter().any(|(k2, m2)| *k2 == k && *m2 == *m) {
                    continue;
                }
                let free = resolved.iter().all(|(_, r)| m.overall.1 < r.overall.0 || r.overall.1 < m.overall.0);
                if free {
                    return Some(("missing", None, format!("match {:?} of expression #{} touches none of the returned matches but is not returned", m, k)));
                }
            }
        }
    }
    None
}

// ------------------------------------------------------------------------------------------------
// segmentation

fn seg_case_json(text: &str, known: &[R], milestone: usize) -> Value {
    json!({"kind": "seg", "text": text, "known": known, "milestone_interval": milestone})
}

/// All segmentation checks for one set of known selections. Returns (cases, calls, nontrivial cases).
fn check_seg(rep: &Reporter, text: &str, known: &[R], milestone: usize, ord: u64, verbose: bool) -> (u64, u64, u64) {
    let chars: Vec<char> = text.chars().collect();
    let n = chars.len();
    let config = if milestone == 0 { None } else { Some(Config::default().with_milestone_interval(milestone)) };
    let store = match catch(|| build_store(text, known, None, config)) {
        Ok(s) => s,
        Err(p) => {
            rep.fail(
                &format!("segmentation|setup|panic:{}", msg_class(&p)),
                ord,
                || format!("text={:?} known={:?}: building the store panicked: {}", text, known, p),
                || seg_case_json(text, known, milestone),
            );
            return (1, 0, 0);
        }
    };
    let store = &store;
    let mut cuts_all: Vec<usize> = known.iter().flat_map(|r| [r.0, r.1]).collect();
    cuts_all.sort();
    cuts_all.dedup();
    let kind_of = |p: usize| -> &'static str {
        let zw = known.iter().any(|r| r.0 == p && r.1 == p);
        let b = known.iter().any(|r| r.0 == p && r.1 != p);
        let e = known.iter().any(|r| r.1 == p && r.0 != p);
        match (zw, b, e) {
            (_, true, true) => "begin+end",
            (_, true, false) => "begin",
            (_, false, true) => "end",
            (true, false, false) => "zerowidth",
            _ => "none",
        }
    };
    let (mut cases, mut calls, mut nontrivial) = (0u64, 0u64, 0u64);
    let mut scopes: Vec<(&'static str, R)> = vec![("resource.segmentation", (0, n))];
    for r in all_ranges(n) {
        scopes.push(("resource.segmentation_in_range", r));
        scopes.push(("textselection.segmentation", r));
    }
    for (si, (recv, sr)) in scopes.iter().enumerate() {
        let sr = *sr;
        cases += 1;
        calls += 1;
        let lib: Result<(Vec<Got>, bool), String> = catch(|| {
            let res = store.resource("r").expect("resource r");
            match *recv {
                "resource.segmentation" => drain(res.segmentation()),
                "resource.segmentation_in_range" => drain(res.segmentation_in_range(sr.0, sr.1)),
                _ => {
                    let sel = res.textselection(&Offset::simple(sr.0, sr.1)).expect("harness: range must be valid");
                    let v = drain(sel.segmentation());
                    v
                }
            }
        });
        let mut bounds: Vec<usize> = vec![sr.0];
        bounds.extend(cuts_all.iter().copied().filter(|p| *p > sr.0 && *p < sr.1));
        bounds.push(sr.1);
        let exp: Vec<R> = bounds.windows(2).map(|w| (w[0], w[1])).collect();
        if exp.len() > 1 {
            nontrivial += 1;
        }
        let ms = if milestone == 0 { String::new() } else { "|milestones".to_string() };
        let fail = |symptom: &str, detail: String| {
            let sig = format!("segmentation|{}{}|{}", recv, ms, symptom);
            if verbose {
                println!("  FAIL {} :: {}", sig, detail);
            }
            rep.fail(
                &sig,
                ord * 64 + si as u64,
                || format!("text={:?} known={:?} milestone_interval={} {} range={:?}: {}", text, known, milestone, recv, sr, detail),
                || seg_case_json(text, known, milestone),
            );
        };
        if verbose {
            println!("  {} {:?}: cuts at known begin/end positions give {:?}", recv, sr, exp);
        }
        match lib {
            Err(p) => fail(&panic_class(&p), format!("panicked: {}", p)),
            Ok((v, capped)) => {
                let rs = ranges(&v);
                if verbose {
                    println!("    library: {:?}", rs);
                }
                if capped {
                    fail("non-terminating", format!("iterator still yields after {} items", CAP));
                    continue;
                }
                if sr.0 == sr.1 {
                    // partition of an empty range: no piece or one zero-width piece are both accepted
                    if !(rs.is_empty() || rs == vec![sr]) {
                        fail("extra", format!("library {:?} for an empty range", rs));
                    }
                    continue;
                }
                if let Some(g) = v.iter().find(|g| g.b <= g.e && g.e <= n && g.t != slice_of(&chars, (g.b, g.e))) {
                    fail("text-mismatch", format!("piece {}..{} reports text {:?}", g.b, g.e, g.t));
                    continue;
                }
                if rs == exp {
                    continue;
                }
                // classify
                if rs.iter().any(|r| r.0 < sr.0 || r.1 > sr.1 || r.0 > r.1) {
                    fail("outside-range", format!("library {:?}, expected {:?}", rs, exp));
                } else if rs.is_empty() || rs[0].0 != sr.0 || rs[rs.len() - 1].1 != sr.1 || rs.windows(2).any(|w| w[0].1 != w[1].0) {
                    fail("not-a-partition", format!("library pieces {:?} are not consecutive pieces covering {:?}", rs, sr));
                } else {
                    let gotcuts: Vec<usize> = rs.iter().skip(1).map(|r| r.0).collect();
                    let expcuts: Vec<usize> = exp.iter().skip(1).map(|r| r.0).collect();
                    if let Some(p) = expcuts.iter().find(|p| !gotcuts.contains(p)) {
                        fail(&format!("missing-cut:{}", kind_of(*p)), format!("no cut at position {} where a known selection begins or ends; library {:?}, expected {:?}", p, rs, exp));
                    } else if let Some(p) = gotcuts.iter().find(|p| !expcuts.contains(p)) {
                        fail(&format!("extra-cut:{}", kind_of(*p)), format!("cut at position {} where no known selection begins or ends; library {:?}, expected {:?}", p, rs, exp));
                    } else {
                        fail("duplicate-piece", format!("library {:?}, expected {:?}", rs, exp));
                    }
                }
            }
        }
    }
    (cases, calls, nontrivial)
}

fn subsets_upto(pool: &[R], maxsize: usize) -> Vec<Vec<R>> {
    let mut out: Vec<Vec<R>> = vec![vec![]];
    let mut frontier: Vec<(usize, Vec<R>)> = vec![(0, vec![])];
    for _ in 0..maxsize {
        let mut next = Vec::new();
        for (start, s) in &frontier {
            for i in *start..pool.len() {
                let mut t = s.clone();
                t.push(pool[i]);
                out.push(t.clone());
                next.push((i + 1, t));
            }
        }
        frontier = next;
    }
    out
}

// ------------------------------------------------------------------------------------------------
// enumeration

fn texts_upto(maxlen: usize) -> Vec<String> {
    let mut out = vec![String::new()];
    let mut level = vec![String::new()];
    for _ in 0..maxlen {
        let mut next = Vec::with_capacity(level.len() * SIGMA.len());
        for t in &level {
            for c in SIGMA {
                let mut s = t.clone();
                s.push(c);
                next.push(s);
            }
        }
        out.extend(next.iter().cloned());
        level = next;
    }
    out
}

fn needles() -> Vec<String> {
    let mut v = vec![String::new()];
    for c in SIGMA.iter().chain(NEEDLE_EXTRA.iter()) {
        v.push(c.to_string());
    }
    for a in SIGMA {
        for b in SIGMA {
            v.push([a, b].iter().collect());
        }
    }
    v
}

struct OpSpec {
    op: Op,
    /// only applied to texts of at most this many codepoints
    maxlen: usize,
}

fn op_list(tier: Tier) -> Vec<OpSpec> {
    let mut v: Vec<OpSpec> = Vec::new();
    let all = usize::MAX;
    let nd = needles();
    for nocase in [false, true] {
        for n in &nd {
            v.push(OpSpec { op: Op::Find { needle: n.clone(), nocase }, maxlen: all });
        }
    }
    for n in &nd {
        v.push(OpSpec { op: Op::Split { delim: n.clone() }, maxlen: all });
    }
    for with_fn in [false, true] {
        for mask in 0..8u32 {
            let set: Vec<char> = (0..3).filter(|i| mask & (1 << i) != 0).map(|i| TRIM_LETTERS[i]).collect();
            v.push(OpSpec { op: Op::Trim { set, with_fn }, maxlen: all });
        }
    }
    let mut seqs: Vec<Vec<String>> = Vec::new();
    for a in SEQ_FRAGS {
        seqs.push(vec![a.to_string()]);
    }
    for a in SEQ_FRAGS {
        for b in SEQ_FRAGS {
            seqs.push(vec![a.to_string(), b.to_string()]);
        }
    }
    if tier == Tier::Thorough {
        for a in SEQ_FRAGS3 {
            for b in SEQ_FRAGS3 {
                for c in SEQ_FRAGS3 {
                    seqs.push(vec![a.to_string(), b.to_string(), c.to_string()]);
                }
            }
        }
    }
    for cs in [true, false] {
        for skip in 0..3u8 {
            for s in &seqs {
                v.push(OpSpec { op: Op::Seq { frags: s.clone(), skip, cs }, maxlen: all });
            }
        }
    }
    for overlap in [false, true] {
        for i in 0..RX.len() {
            v.push(OpSpec { op: Op::Regex { exprs: vec![i], overlap, preset: false }, maxlen: all });
        }
        for a in RX_PAIR {
            for b in RX_PAIR {
                if a != b {
                    v.push(OpSpec { op: Op::Regex { exprs: vec![a, b], overlap, preset: false }, maxlen: all });
                }
            }
        }
        for a in RX_TRIPLE {
            for b in RX_TRIPLE {
                for c in RX_TRIPLE {
                    if a != b && b != c && a != c {
                        v.push(OpSpec { op: Op::Regex { exprs: vec![a, b, c], overlap, preset: true }, maxlen: all });
                        // without a precompiled set the library compiles a RegexSet on every call: short texts only
                        v.push(OpSpec { op: Op::Regex { exprs: vec![a, b, c], overlap, preset: false }, maxlen: tier.pick(2, 3) });
                    }
                }
            }
        }
    }
    v
}

fn store_op_list() -> Vec<Op> {
    let mut v = Vec::new();
    for nocase in [false, true] {
        for n in needles() {
            if !n.is_empty() {
                v.push(Op::StoreFind { needle: n, nocase });
            }
        }
    }
    for i in 0..RX.len() {
        v.push(Op::StoreRegex { exprs: vec![i], overlap: false });
    }
    v
}

/// scopes of a text in simplest-first order, each with a stable index (< 64)
fn scopes(n: usize) -> Vec<Scope> {
    let mut v = vec![Scope::Res];
    for (b, e) in all_ranges(n) {
        v.push(Scope::Sel(b, e));
    }
    v
}

pub fn run(rep: &Reporter) -> Coverage {
    let tier = rep.tier;
    let maxlen = tier.pick(4, 5);
    let bound_maxlen = tier.pick(3, 4);
    let texts = texts_upto(maxlen);
    let ops = op_list(tier);
    let store_ops = store_op_list();
    let cases = AtomicU64::new(0);
    let calls = AtomicU64::new(0);
    let nontrivial = AtomicU64::new(0);
    let nops = ops.len() as u64 + store_ops.len() as u64;

    texts.par_iter().enumerate().for_each(|(ti, text)| {
        let chars: Vec<char> = text.chars().collect();
        let n = chars.len();
        let plain = build_store(text, &[], None, None);
        let two = build_store(text, &[], Some(R2_TEXT), None);
        // the annotated store also has a milestone every 2 codepoints (byte<->codepoint index entries the search results are converted through)
        let bound = if n <= bound_maxlen { Some(build_store(text, &all_ranges(n), None, Some(Config::default().with_milestone_interval(2)))) } else { None };
        let sparse = if n >= 2 { Some(build_store(text, &[(0, 1)], None, None)) } else { None };
        let ctx = Ctx { text, chars, plain: &plain, bound: bound.as_ref(), sparse: sparse.as_ref(), two: Some(&two) };
        let (mut c, mut k, mut nt) = (0u64, 0u64, 0u64);
        let sc = scopes(n);
        debug_assert!(sc.len() < 64);
        for (si, scope) in sc.iter().enumerate() {
            let mut recvs: Vec<Recv> = match (scope, ctx.bound.is_some()) {
                (_, false) => vec![Recv::Plain],
                (Scope::Res, true) => vec![Recv::Plain, Recv::Bound],
                (Scope::Sel(..), true) => vec![Recv::Plain, Recv::Bound, Recv::Item],
            };
            if ctx.sparse.is_some() {
                recvs.push(Recv::Sparse);
            }
            for (ri, recv) in recvs.iter().enumerate() {
                for (oi, spec) in ops.iter().enumerate() {
                    if n > spec.maxlen {
                        continue;
                    }
                    let ord = ((ti as u64 * 64 + si as u64) * 4 + ri as u64) * nops + oi as u64;
                    let o = check_op(rep, &ctx, *scope, *recv, &spec.op, ord, false);
                    c += 1;
                    k += o.calls;
                    nt += o.nontrivial as u64;
                }
            }
        }
        for (oi, op) in store_ops.iter().enumerate() {
            let ord = (ti as u64 * 64 * 4) * nops + ops.len() as u64 + oi as u64;
            let o = check_op(rep, &ctx, Scope::Res, Recv::Plain, op, ord, false);
            c += 1;
            k += o.calls;
            nt += o.nontrivial as u64;
        }
        cases.fetch_add(c, Ordering::Relaxed);
        calls.fetch_add(k, Ordering::Relaxed);
        nontrivial.fetch_add(nt, Ordering::Relaxed);
    });
    let text_cases = cases.load(Ordering::Relaxed);

    // segmentation: every set of known selections up to a size over one text per length
    let seg_bounds: Vec<(&str, usize, usize)> = match tier {
        // (text, maximal number of known selections, milestone interval; 0 = library default, i.e. none in a short text)
        Tier::Quick => vec![("a\u{e9}\u{1d11e}\u{130}", 3, 0), ("a\u{e9}\u{1d11e}\u{130}", 2, 2)],
        Tier::Thorough => vec![("a\u{e9}\u{1d11e}\u{130}", 3, 0), ("a\u{e9}\u{1d11e}\u{130}", 2, 2), ("a\u{e9}\u{1d11e}\u{130} ", 4, 0), ("a\u{e9}\u{1d11e}\u{130} ", 3, 2), ("a\u{e9}\u{1d11e}\u{130} \u{1e9e}", 3, 1)],
    };
    let mut seg_space = Vec::new();
    let mut seg_base: u64 = 1 << 40;
    for (text, maxk, ms) in &seg_bounds {
        let n = text.chars().count();
        let sets = subsets_upto(&all_ranges(n), *maxk);
        sets.par_iter().enumerate().for_each(|(i, known)| {
            let (c, k, nt) = check_seg(rep, text, known, *ms, seg_base + i as u64, false);
            cases.fetch_add(c, Ordering::Relaxed);
            calls.fetch_add(k, Ordering::Relaxed);
            nontrivial.fetch_add(nt, Ordering::Relaxed);
        });
        seg_space.push(json!({"text": text, "codepoints": n, "known_selection_sets": sets.len(), "max_known_selections": maxk,
            "milestone_interval": if *ms == 0 { json!("default (100)") } else { json!(ms) },
            "ranges_per_set": 1 + 2 * all_ranges(n).len()}));
        seg_base += sets.len() as u64;
    }

    let mut cov = Coverage::default();
    cov.states = cases.load(Ordering::Relaxed);
    cov.transitions = calls.load(Ordering::Relaxed);
    cov.traces_validated = cases.load(Ordering::Relaxed);
    cov.evaluations = calls.load(Ordering::Relaxed);
    cov.distinct_nontrivial = nontrivial.load(Ordering::Relaxed);
    cov.rule = "states = distinct cases (text, receiver, searched range, operation with its arguments) resp. (known-selection set, receiver, range) for segmentation; transitions = calls of the library function under test, each compared with the plain-string oracle; non-trivial = the plain-string result is non-empty: at least one match (find_text, find_text_nocase, find_text_regex, find_text_sequence), at least two pieces (split_text, segmentation), or at least one codepoint trimmed (trim_text)".into();
    cov.samples = vec![
        case_json("a\u{130}A", Scope::Sel(1, 3), Recv::Plain, &Op::Find { needle: "a".into(), nocase: true }),
        case_json(" a \u{e9}", Scope::Res, Recv::Plain, &Op::Split { delim: " ".into() }),
        case_json("aA\u{1d11e}a", Scope::Sel(1, 4), Recv::Plain, &Op::Regex { exprs: vec![2, 3], overlap: false, preset: false }),
        case_json("a a", Scope::Sel(0, 3), Recv::Bound, &Op::Seq { frags: vec!["a".into(), "A".into()], skip: 1, cs: false }),
        seg_case_json("a\u{e9}\u{1d11e}\u{130}", &[(0, 2), (1, 3)], 0),
    ];
    cov.exhaustive = true;
    cov.extra.insert(
        "space".into(),
        json!({
            "alphabet": SIGMA.iter().map(|c| c.to_string()).collect::<Vec<_>>(),
            "texts": texts.len(), "max_text_codepoints": maxlen,
            "searched_ranges": "the whole resource and every sub-selection [b,e) with 0<=b<=e<=len (ResultTextSelection::Unbound)",
            "annotated_store_variant": format!("texts of at most {} codepoints are searched again in a store where every range is a known selection, through ResultTextSelection::Bound and through ResultItem<TextSelection>; every text of two or more codepoints is searched a third time in a store where only its first codepoint is a known selection (index entries at 0 and 1 only, no milestones)", bound_maxlen),
            "needles_and_delimiters": needles().len(),
            "trim_sets": 8,
            "sequence_cases": ops.iter().filter(|o| matches!(o.op, Op::Seq{..})).count(),
            "regex_menu": RX,
            "regex_cases": ops.iter().filter(|o| matches!(o.op, Op::Regex{..})).count(),
            "operations_per_range": ops.len(),
            "store_level_operations_per_text": store_ops.len(),
            "text_cases": text_cases,
            "segmentation": seg_space,
            "iteration_cap": CAP,
        }),
    );
    cov.assumptions = vec![
        "case-insensitive match = a codepoint-aligned stretch of the text whose to_lowercase() equals the to_lowercase() of the needle; matches are taken leftmost, non-overlapping".into(),
        "empty needle (find_text, find_text_nocase): only termination and absence of panics are required, the result is not compared".into(),
        "trim_text of a text consisting only of trimmable characters: Err or any zero-width selection inside the range is accepted".into(),
        "find_text_sequence: a returned sequence must be in order, inside the range, equal to the fragments and separated by skippable text; None is flagged only if an assignment exists even when the text before the first fragment must be skippable too (the documentation is silent on leading text); empty fragments are not used".into(),
        "find_text_regex with several expressions: with allow_overlap every match of every expression must be returned; without it the results must be genuine matches, pairwise non-overlapping (non-empty hulls of the returned selections, different expressions) and maximal (a match touching no returned match must be returned); order is checked only where both readings of 'position of a match' (overall match / first returned group) agree; matches in which no capture group participates are ignored".into(),
        "regular expressions are evaluated on the searched slice only (anchors and \\b see the slice boundaries), as the plain-string operation on the selected text would".into(),
        "segmentation of an empty range may yield nothing or one zero-width piece; zero-width known selections count as positions where a known selection begins and ends".into(),
        "order of results across different resources (AnnotationStore::find_text*) is not compared".into(),
    ];
    cov
}

pub fn replay(rep: &Reporter, case: &Value) {
    let text = case["text"].as_str().unwrap_or("").to_string();
    if case["kind"].as_str() == Some("seg") {
        let known: Vec<R> = case["known"]
            .as_array()
            .map(|a| a.iter().map(|p| (p[0].as_u64().unwrap() as usize, p[1].as_u64().unwrap() as usize)).collect())
            .unwrap_or_default();
        let ms = case["milestone_interval"].as_u64().unwrap_or(0) as usize;
        println!("replay C07 segmentation: text={:?} known={:?} milestone_interval={}", text, known, ms);
        check_seg(rep, &text, &known, ms, 0, true);
        return;
    }
    let op = Op::from_json(&case["op"]).expect("replay: unknown operation");
    let recv = Recv::from_name(case["recv"].as_str().unwrap_or("plain"));
    let scope = match case["scope"].as_array() {
        Some(a) => Scope::Sel(a[0].as_u64().unwrap() as usize, a[1].as_u64().unwrap() as usize),
        None => Scope::Res,
    };
    let chars: Vec<char> = text.chars().collect();
    let n = chars.len();
    let plain = build_store(&text, &[], None, None);
    let two = build_store(&text, &[], Some(R2_TEXT), None);
    let bound = build_store(&text, &all_ranges(n), None, Some(Config::default().with_milestone_interval(2)));
    let sparse = build_store(&text, if n >= 1 { &[(0, 1)] } else { &[] }, None, None);
    let ctx = Ctx { text: &text, chars, plain: &plain, bound: Some(&bound), sparse: Some(&sparse), two: Some(&two) };
    println!("replay C07: text={:?} scope={:?} recv={} op={}", text, scope, recv.name(), op.to_json());
    check_op(rep, &ctx, scope, recv, &op, 0, true);
}
